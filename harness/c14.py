"""C14 - saving and restoring grids and fields loses nothing.

Correspondence: the real `state` / `state_serialized` / `from_state` / `copy` / `deepcopy` / pickle /
`__eq__` of the five grid classes, `attributes_serialized` / `unserialize_attributes` / `from_state`
of fields and collections, `FieldCollection.from_data` and the storage path through
`info['field_attributes']` vs `PdeVerif.Serialize` (Lean), evaluated at `Rat` (dyadic parameters,
exact) or `Float` (decimal parameters, bit-exact: the model performs the same IEEE operations on
the bounds as the package).  Compared are the canonical record of every object (class, bounds incl.
the inner radius, shape, periodicity, dtype, labels, arrangement of the data), the state trees and
the error classes of a malformed stream.  Monitors: the statement of the property on the real
objects of every case."""
import copy
import json
import math
import pickle
import warnings
from fractions import Fraction

import numpy as np

from harness.common.num import q, unq, fbits, unfbits

PID = "C14"
LEVEL = "proof"
REQUIRED_THEOREMS = [
    "grid_state_roundtrip", "grid_json_roundtrip", "grid_copy_eq", "derived_quantities_determined",
    "field_attr_roundtrip", "collection_attr_roundtrip", "collection_fromData_roundtrip",
    "slices_offsets_prefix_sums", "slices_disjoint", "slices_cover",
    "cyl_state_old_not_injective", "fromData_numAxes_misplaces",
    "mkUnit_valid", "mkCartesian_valid", "mkRadial_valid", "mkCylindrical_valid", "classFromState_valid",
    "fromState_valid", "constructed_grid_roundtrips", "restored_grid_roundtrips", "copy_valid",
    "valid_cartesian", "valid_polar", "valid_spherical", "valid_cylindrical",
    # Props/C14b.lean: axes names, derived / cached attributes of a restored instance
    "axes_cartesian", "axes_polar", "axes_spherical", "axes_cylindrical", "numAxesInit_eq", "gridEq_axes",
    "construct_coherent", "read_coherent", "read_value_fresh", "restore_eq_construct", "reachable_coherent",
    "restored_instance_fresh", "pickle_keeps_stale_attribute", "cellVolumes_fresh_eq_C12", "restored_cellVolumes_C12",
]
EXTRA_PROP_FILES = ["C14b"]
RULE = ("random grids of every class (UnitGrid, CartesianGrid 1-3d, PolarSymGrid, SphericalSymGrid, "
        "CylindricalSymGrid; 1..40 cells, dyadic and decimal bounds, negative/tiny/huge scales, reversed and "
        "upper-only Cartesian bounds, inner radii, every periodicity pattern) whose constructor arguments are "
        "passed as int / float / numpy scalars in lists, tuples or arrays; fields of the three data classes and "
        "collections of 1-5 of them (all rank mixes) with dtypes float64/float32/complex128/complex64/int64/int32, "
        "labels (None, empty, unicode, quotes) and distinct entries; legs: grid round trips (state, JSON, copy, "
        "deepcopy, pickle), grid equality on perturbed pairs, field and collection attribute round trips, "
        "from_data with and without ghost cells, storage reconstruction, malformed trees; a case is distinct by "
        "(leg, specification) and non-trivial if the object has a non-default parameter that a lossy round trip "
        "could drop (hole, periodic flag, non-unit bounds, label, non-default dtype, rank >= 1 on a grid with "
        "symmetric axes); malformed cases never count as non-trivial")
ASSUMPTIONS = [
    "the text round trip of a float through json.dumps/json.loads is exact (CPython repr) - trusted, not modelled",
    "field data is opaque in the model (positions only); values used by the harness are exactly representable in "
    "every dtype involved, so numpy casts other than complex->real are the identity",
    "numpy broadcasting of undersized data in from_state is not modelled (only exact-size and non-broadcastable "
    "sizes are generated)",
    "derived quantities (axes_coords, cell_volumes) are C12's model functions; compared at 1e-12 / 1e-11 of the "
    "natural scale (exactly on the dyadic stream where the real computation is exact)",
    "the theorems use lo + (hi - lo) = hi (true in a field); that the IEEE bound pos (+) size survives a second "
    "pass through Cuboid is carried by the bit-exact Float replay and by the monitor (identical bounds on every "
    "route), not by a theorem (no counterexample in 1.2e8 adversarial float pairs)",
    "the instance model (Model/GridCache.lean) covers the axes names, the attributes __init__ stores and the "
    "cached properties cell_volume_data / cell_volumes / coordinate_arrays / cell_coords / uniform_cell_volumes; "
    "pickle is modelled as `__dict__` without `_cache_methods` (GridBase.__getstate__), the byte stream is not; "
    "cached METHODS (operators, boundary setters) are outside the model",
]
TRUSTED_EXTRA = ["IEEE double arithmetic of Lean's Float equals numpy's float64 for + - (bounds of the cuboid)"]

PI = math.pi
TAGS = {"UnitGrid": "unit", "CartesianGrid": "cartesian", "PolarSymGrid": "polar",
        "SphericalSymGrid": "spherical", "CylindricalSymGrid": "cylindrical"}
FCLS = {"ScalarField": "scalar", "VectorField": "vector", "Tensor2Field": "tensor2"}
RANK = {"scalar": 0, "vector": 1, "tensor2": 2}
K_INNER = {"call_site": "CylindricalSymGrid.state", "symptom": "inner-radius-dropped"}
K_FROMDATA = {"call_site": "FieldCollection.from_data", "symptom": "num_axes-instead-of-dim"}
K_NPBOOL = {"call_site": "CartesianGrid.__init__", "symptom": "numpy-bool-periodic-not-json-serializable"}
K_NPNUM = {"call_site": "SphericalSymGridBase/CylindricalSymGrid.__init__",
           "symptom": "numpy-scalar-bounds-not-json-serializable"}
K_COMPLEX = {"call_site": "FieldCollection.from_data", "symptom": "complex-data-truncated-without-ghost-cells"}
K_F32 = {"call_site": "CylindricalSymGrid.__init__", "symptom": "float32-bounds_z-discretised-in-single-precision"}
K_COLLCOPY = {"call_site": "FieldCollection.copy", "symptom": "dtype-not-preserved"}
K_SETSTATE = {"call_site": "FieldBase.__setstate__",
              "symptom": "data-detached-from-data_full-after-pickle-or-deepcopy"}


# ------------------------------------------------------------------------------------------
# value trees
class S(str):
    """a Python string inside a value tree (plain `str` is the text of a number)"""


def tree_of(x, enc):
    """value tree (JSON of the driver) of a Python value found in a state; numbers through `enc`.
    Returns (tree, problems) where problems lists entries that are not plain Python values."""
    probs = []

    def go(v, path):
        if v is None:
            return None
        if isinstance(v, (bool, np.bool_)):
            if type(v) is not bool:
                probs.append(f"{path}: {type(v).__name__}")
            return bool(v)
        if isinstance(v, str):
            return {"s": str(v)}
        if isinstance(v, (int, np.integer)):
            if type(v) is not int:
                probs.append(f"{path}: {type(v).__name__}")
            return ("int", int(v))
        if isinstance(v, (float, np.floating)):
            if type(v) is not float and type(v) is not np.float64:
                probs.append(f"{path}: {type(v).__name__}")
            return ("num", float(v))
        if isinstance(v, (list, tuple)):
            return [go(e, f"{path}[{i}]") for i, e in enumerate(v)]
        if isinstance(v, np.ndarray):
            probs.append(f"{path}: ndarray")
            return [go(e, f"{path}[{i}]") for i, e in enumerate(v.tolist())]
        if isinstance(v, dict):
            return {"o": [[str(k), go(e, f"{path}.{k}")] for k, e in v.items()]}
        probs.append(f"{path}: {type(v).__name__}")
        return {"s": repr(v)}

    t = go(x, "")
    _ = enc
    return t, probs


def same_tree(model, real, mode):
    """model tree (driver JSON) vs real tree (from `tree_of`).  Numbers are compared by value:
    exactly in mode Q, by bit pattern (up to the sign of zero and int/float spelling) in mode F."""
    if real is None or isinstance(real, bool):
        return model is real or (isinstance(model, bool) and model == real and isinstance(real, bool))
    if isinstance(real, tuple):
        kind, v = real
        if isinstance(model, bool) or model is None:
            return False
        if isinstance(model, int):
            return kind == "int" and model == v
        if isinstance(model, str):
            mv = unq(model) if mode == "Q" else unfbits(model)
            return Fraction(mv) == Fraction(v)
        return False
    if isinstance(real, list):
        return isinstance(model, list) and len(model) == len(real) and all(
            same_tree(m, r, mode) for m, r in zip(model, real))
    if isinstance(real, dict):
        if not isinstance(model, dict):
            return False
        if "s" in real:
            return model.get("s") == real["s"] and "o" not in model
        mo, ro = model.get("o"), real["o"]
        return isinstance(mo, list) and len(mo) == len(ro) and all(
            mk == rk and same_tree(mv, rv, mode) for (mk, mv), (rk, rv) in zip(mo, ro))
    return False


def show_tree(t, mode):
    """readable form of a model tree"""
    if isinstance(t, str):
        return float(unq(t)) if mode == "Q" else unfbits(t)
    if isinstance(t, list):
        return [show_tree(e, mode) for e in t]
    if isinstance(t, dict):
        if "s" in t:
            return t["s"]
        return {k: show_tree(v, mode) for k, v in t["o"]}
    return t


def show_real(t):
    if isinstance(t, tuple):
        return t[1]
    if isinstance(t, list):
        return [show_real(e) for e in t]
    if isinstance(t, dict):
        if "s" in t:
            return t["s"]
        return {k: show_real(v) for k, v in t["o"]}
    return t


def model_tree_to_python(t, mode):
    """Python value (for json.dumps) of a driver tree"""
    if isinstance(t, str):
        v = unq(t) if mode == "Q" else Fraction(unfbits(t))
        return int(v) if v.denominator == 1 and abs(v) < 2 ** 53 and mode == "Q" and False else float(v)
    if isinstance(t, list):
        return [model_tree_to_python(e, mode) for e in t]
    if isinstance(t, dict):
        if "s" in t:
            return t["s"]
        return {k: model_tree_to_python(v, mode) for k, v in t["o"]}
    return t


# ------------------------------------------------------------------------------------------
# grid specifications
def is_int(x):
    return float(x) == int(x) and abs(x) < 2 ** 31


def fits32(x):
    return float(np.float32(x)) == float(x)


def dyadic(rng, lo, hi, emax=3):
    return rng.randint(lo, hi) / 2 ** rng.randint(0, emax)


def gen_interval(rng, mode, positive=False):
    if mode == "dyadic":
        s = rng.choice([1.0, 1.0, 1.0, 1.0, 2.0 ** -24, 2.0 ** 20, 2.0 ** -3])
        lo = 0.0 if (positive and rng.random() < 0.4) else (dyadic(rng, 1 if positive else -40, 40) * s)
        L = dyadic(rng, 1, 48) * s
        return lo, lo + L
    s = rng.choice([1.0, 1.0, 1.0, 1e-6, 1e5, 0.37, 1e-3, 123.0])
    if positive and rng.random() < 0.4:
        lo = 0.0
    else:
        lo = round(rng.uniform(1e-3 if positive else -30, 30), 3) * s
    L = rng.choice([0.1, 0.3, 1.0, 2.5, 3.3, 7.0, 10.0, 1 / 3, 6.283, rng.uniform(0.01, 20)]) * s
    if rng.random() < 0.1:
        # an upper bound one or two ulps away from a round number
        hi = float(np.nextafter(lo + L, rng.choice([-np.inf, np.inf])))
        return lo, hi
    return lo, lo + L


def gen_n(rng):
    return rng.choice([1, 1, 2, 2, 3, 4, 5, 7, 8, 16, 33, 40])


def num_style(rng, vals):
    opts = ["float", "float", "np64"]
    if all(is_int(v) for v in vals):
        opts += ["int", "int", "npint"]
    if all(fits32(v) for v in vals):
        opts += ["np32"]
    return rng.choice(opts)


def gen_grid(rng, cls, mode):
    """a valid grid specification: the mathematical parameters plus the way the constructor
    arguments are spelled"""
    if cls in ("unit", "cartesian"):
        d = rng.choice([1, 1, 2, 2, 3])
        shape = [gen_n(rng) if d < 3 else rng.choice([1, 2, 3, 4]) for _ in range(d)]
        per = [rng.random() < 0.5 for _ in range(d)]
        st = {"shape": rng.choice(["list", "tuple", "ndarray"] + (["int"] if len(set(shape)) == 1 and (cls == "cartesian" or d == 1) else [])),
              "periodic": rng.choice(["list", "tuple", "ndarray", "npbool-list"] + (["bool", "npbool"] if len(set(per)) == 1 else []))}
        if cls == "unit":
            return {"cls": "unit", "shape": shape, "periodic": per, "mode": mode, "style": st}
        bounds = []
        for _ in range(d):
            lo, hi = gen_interval(rng, mode)
            if rng.random() < 0.08:
                lo, hi = hi, lo                        # reversed bounds: Cuboid flips them
            bounds.append([lo, hi])
        if rng.random() < 0.15:
            bounds = [[0.0, b[1]] for b in bounds]
            if d != 2 and rng.random() < 0.7:
                st["bounds"] = rng.choice(["upper", "upper-col"])
            elif d == 2:
                st["bounds"] = "upper-col"
        st.setdefault("bounds", rng.choice(["list", "tuple", "ndarray"]))
        st["num"] = num_style(rng, [x for b in bounds for x in b])
        return {"cls": "cartesian", "bounds": bounds, "shape": shape, "periodic": per, "mode": mode, "style": st}
    lo, hi = gen_interval(rng, mode, positive=True)
    st = {"radius": "scalar" if (lo == 0.0 and rng.random() < 0.6) else rng.choice(["list", "tuple", "ndarray"]),
          "num": num_style(rng, [lo, hi])}
    if cls in ("polar", "spherical"):
        st["shape"] = rng.choice(["int", "list", "tuple", "ndarray"])
        return {"cls": cls, "radius": [lo, hi], "shape": [gen_n(rng)], "periodic": [False], "mode": mode, "style": st}
    zlo, zhi = gen_interval(rng, mode)
    shape = [gen_n(rng), gen_n(rng)]
    if rng.random() < 0.2:
        shape[1] = shape[0]
    st["shape"] = rng.choice(["list", "tuple", "ndarray"] + (["int"] if shape[0] == shape[1] else []))
    st["bounds_z"] = rng.choice(["list", "tuple", "ndarray"])
    st["numz"] = num_style(rng, [zlo, zhi])
    st["periodic_z"] = rng.choice(["bool", "npbool", "int"])
    return {"cls": "cylindrical", "radius": [lo, hi], "bounds_z": [zlo, zhi], "shape": shape,
            "periodic": [False, rng.random() < 0.6], "mode": mode, "style": st}


def small(spec, rng):
    """the same grid with few cells (legs that store field data)"""
    spec = copy.deepcopy(spec)
    spec["shape"] = [min(n, rng.choice([1, 2, 3, 4])) for n in spec["shape"]]
    if spec["cls"] == "cylindrical" and spec["style"].get("shape") == "int":
        spec["shape"][1] = spec["shape"][0]
    if spec["style"].get("shape") == "int" and len(set(spec["shape"])) != 1:
        spec["style"]["shape"] = "list"
    return spec


def spell_num(x, style):
    if style == "int":
        return int(x)
    if style == "npint":
        return np.int64(int(x))
    if style == "np64":
        return np.float64(x)
    if style == "np32":
        return np.float32(x)
    return float(x)


def spell_seq(vals, style):
    if style == "tuple":
        return tuple(vals)
    if style == "ndarray":
        return np.array(vals)
    return list(vals)


def build(spec):
    """the real grid, its arguments spelled as the specification says"""
    import pde
    st = spec["style"]
    c = spec["cls"]
    shape = spec["shape"]
    sh = shape[0] if st.get("shape") == "int" else spell_seq([int(n) for n in shape], st.get("shape", "list"))
    if c in ("unit", "cartesian"):
        per = spec["periodic"]
        ps = st["periodic"]
        if ps == "bool":
            p = bool(per[0])
        elif ps == "npbool":
            p = np.bool_(per[0])
        elif ps == "npbool-list":
            p = [np.bool_(x) for x in per]
        else:
            p = spell_seq([bool(x) for x in per], ps)
        if c == "unit":
            return pde.UnitGrid(sh, periodic=p)
        bs = st["bounds"]
        if bs == "upper":
            b = [spell_num(x[1], st["num"]) for x in spec["bounds"]]
        elif bs == "upper-col":
            b = [[spell_num(x[1], st["num"])] for x in spec["bounds"]]
        else:
            b = spell_seq([spell_seq([spell_num(v, st["num"]) for v in x], bs) for x in spec["bounds"]], bs)
        return pde.CartesianGrid(b, sh, periodic=p)
    lo, hi = spec["radius"]
    if st["radius"] == "scalar":
        rad = spell_num(hi, st["num"])
    else:
        rad = spell_seq([spell_num(lo, st["num"]), spell_num(hi, st["num"])], st["radius"])
    if c == "polar":
        return pde.PolarSymGrid(rad, sh)
    if c == "spherical":
        return pde.SphericalSymGrid(rad, sh)
    bz = spell_seq([spell_num(v, st["numz"]) for v in spec["bounds_z"]], st["bounds_z"])
    pz = spec["periodic"][1]
    pz = {"bool": bool(pz), "npbool": np.bool_(pz), "int": int(pz)}[st["periodic_z"]]
    return pde.CylindricalSymGrid(rad, bz, sh, periodic_z=pz)


def mode_of(spec):
    return "Q" if spec["mode"] == "dyadic" else "F"


def margs(spec):
    """constructor arguments for the model driver, spelled like `build` does"""
    enc = q if mode_of(spec) == "Q" else fbits
    st = spec["style"]
    c = spec["cls"]
    shape = spec["shape"]
    sh = int(shape[0]) if st.get("shape") == "int" else [int(n) for n in shape]
    if c in ("unit", "cartesian"):
        per = spec["periodic"]
        p = bool(per[0]) if st["periodic"] in ("bool", "npbool") else [bool(x) for x in per]
        if c == "unit":
            return {"cls": c, "args": {"shape": sh, "periodic": p}}
        bs = st["bounds"]
        if bs == "upper":
            b = [enc(x[1]) for x in spec["bounds"]]
        elif bs == "upper-col":
            b = [[enc(x[1])] for x in spec["bounds"]]
        else:
            b = [[enc(v) for v in x] for x in spec["bounds"]]
        return {"cls": c, "args": {"bounds": b, "shape": sh, "periodic": p}}
    lo, hi = spec["radius"]
    rad = enc(hi) if st["radius"] == "scalar" else [enc(lo), enc(hi)]
    if c in ("polar", "spherical"):
        return {"cls": c, "args": {"radius": rad, "shape": sh}}
    return {"cls": c, "args": {"radius": rad, "bounds_z": [enc(v) for v in spec["bounds_z"]], "shape": sh,
                               "periodic_z": bool(spec["periodic"][1])}}


def rec_of(g):
    """canonical record of a real grid"""
    return {"cls": TAGS.get(type(g).__name__, type(g).__name__),
            "bounds": [[float(b[0]), float(b[1])] for b in g.axes_bounds],
            "shape": [int(n) for n in g.shape], "periodic": [bool(p) for p in g.periodic],
            "dim": int(g.dim), "num_axes": int(g.num_axes)}


def same_rec(m, r, mode):
    """model record (driver JSON) vs real record"""
    if m is None or r is None:
        return False
    dec = (lambda s: Fraction(unq(s))) if mode == "Q" else (lambda s: Fraction(unfbits(s)))
    return (m["cls"] == r["cls"] and m["shape"] == r["shape"] and m["periodic"] == r["periodic"]
            and m["dim"] == r["dim"] and m["num_axes"] == r["num_axes"] and len(m["bounds"]) == len(r["bounds"])
            and all(dec(a) == Fraction(x) for mb, rb in zip(m["bounds"], r["bounds"]) for a, x in zip(mb, rb)))


def show_rec(m, mode):
    if not isinstance(m, dict) or "bounds" not in m:
        return m
    dec = (lambda s: float(unq(s))) if mode == "Q" else unfbits
    return dict(m, bounds=[[dec(a) for a in b] for b in m["bounds"]])


def nontrivial_grid(spec):
    c = spec["cls"]
    if c == "unit":
        return any(spec["periodic"]) or len(spec["shape"]) > 1
    if c == "cartesian":
        return True
    return spec["radius"][0] > 0 or c == "cylindrical"


class Pending:
    """requests to the model driver with the continuation that compares the answer"""

    def __init__(self, ctx):
        from harness.common.lean import LeanBatch
        self.ctx = ctx
        self.batch = LeanBatch(ctx.workdir)
        self.todo = []

    def add(self, fn, args, cont):
        i = self.batch.add(fn, args)
        self.todo.append((i, cont))

    def run(self):
        resps = self.batch.run()
        for i, cont in self.todo:
            cont(resps[i])
        self.todo = []


class NoModel:
    def add(self, *a, **k):
        pass

    def run(self):
        pass


def expect_ok(ctx, resp, leg, case):
    status, val = resp
    if status != "ok":
        ctx.disagree(leg, case, f"model error: {val}", None)
        return None
    return val


def exc_name(e):
    return type(e).__name__


# ------------------------------------------------------------------------------------------
# leg: grid round trips
def grid_routes(g):
    """every way the property names of getting `g` back; value or the exception"""
    from pde.grids.base import GridBase
    routes = {}

    def attempt(name, fn):
        try:
            routes[name] = fn()
        except Exception as e:  # noqa: BLE001
            routes[name] = e

    attempt("from_state(state)", lambda: type(g).from_state(g.state))
    attempt("GridBase.from_state(state_serialized)", lambda: GridBase.from_state(g.state_serialized))
    attempt("GridBase.from_state(dict+class)", lambda: GridBase.from_state(dict(g.state, **{"class": type(g).__name__})))
    attempt("from_state(json.loads(json.dumps(state)))", lambda: type(g).from_state(json.loads(json.dumps(g.state))))
    attempt("copy()", lambda: g.copy())
    attempt("copy.copy", lambda: copy.copy(g))
    attempt("copy.deepcopy", lambda: copy.deepcopy(g))
    attempt("deepcopy-in-container", lambda: copy.deepcopy({"k": [g]})["k"][0])
    attempt("pickle", lambda: pickle.loads(pickle.dumps(g)))
    attempt("pickle-protocol-2", lambda: pickle.loads(pickle.dumps(g, protocol=2)))
    return routes


def grid_identical(g, h):
    """the monitor of the grid part of the property: None or what differs"""
    if isinstance(h, Exception):
        return f"raised {exc_name(h)}: {h}"
    try:
        return _grid_identical(g, h)
    except Exception as e:  # noqa: BLE001
        return f"comparing the grids raised {exc_name(e)}: {e}"


def _grid_identical(g, h):
    if type(h) is not type(g):
        return f"class {type(h).__name__} instead of {type(g).__name__}"
    if not (h == g) or not (g == h) or (h != g):
        return "not equal (==) to the original"
    rg, rh = rec_of(g), rec_of(h)
    if rg != rh:
        return f"record differs: {rh} vs {rg}"
    if tuple(tuple(float(x) for x in b) for b in h.axes_bounds) != tuple(tuple(float(x) for x in b) for b in g.axes_bounds):
        return "axes_bounds differ"
    if list(h.axes) != list(g.axes) or list(h.axes_symmetric) != list(g.axes_symmetric):
        return f"axes {h.axes}+{h.axes_symmetric} instead of {g.axes}+{g.axes_symmetric}"
    for a, b in zip(g.axes_coords, h.axes_coords):
        if not np.array_equal(a, b):
            return "axes_coords differ"
    if len(g.axes_coords) != len(h.axes_coords) or not np.array_equal(g.discretization, h.discretization):
        return "discretization differs"
    if not np.array_equal(np.asarray(g.cell_volumes), np.asarray(h.cell_volumes)):
        return "cell_volumes differ"
    for a, b in zip(g.cell_volume_data, h.cell_volume_data):
        if not np.array_equal(np.asarray(a), np.asarray(b)):
            return "cell_volume_data differ"
    if float(g.volume) != float(h.volume):
        return "volume differs"
    if g._cache_hash() != h._cache_hash():
        return "_cache_hash differs"
    if h.state_serialized != g.state_serialized:
        return "state_serialized differs"
    if not g.compatible_with(h):
        return "not compatible_with the original"
    return None


def grid_key(spec, g, route, problem):
    """structural key of a grid round-trip failure (matched against known_findings.json)"""
    key = {"grid_class": type(g).__name__, "leg": "grid", "route": route}
    st = spec.get("style", {})
    if "not JSON serializable" in problem:
        if spec["cls"] in ("unit", "cartesian"):
            key.update(K_NPBOOL)
        else:
            key.update(K_NPNUM)
    elif spec["cls"] == "cylindrical" and spec["radius"][0] > 0 and "record differs" in problem:
        key.update(K_INNER)
    elif spec["cls"] == "cylindrical" and st.get("numz") == "np32" and (
            "axes_coords" in problem or "discretization" in problem or "cell_volume" in problem):
        key.update(K_F32)
    _ = st
    return key


def leg_grid(ctx, P, spec, geometry=True):
    g = build(spec)
    mode = mode_of(spec)
    case = {"leg": "grid", "grid": spec}
    ctx.count(case, nontrivial=nontrivial_grid(spec), leg="grid")
    st = spec["style"]
    ctx.hist("grid-class", f"{spec['cls']}/{len(spec['shape'])}axes/{spec['mode']}")
    ctx.hist("argument-spelling", "/".join(f"{k}={v}" for k, v in sorted(st.items())))
    if spec["cls"] not in ("unit", "cartesian"):
        ctx.hist("radius", ("hole" if spec["radius"][0] > 0 else "full") + "/" + st["radius"])
    ctx.hist("periodic", "".join("P" if p else "-" for p in spec["periodic"]))
    routes = grid_routes(g)
    # ---- monitor: the statement of the property on the real objects ---------------------------
    for name, h in routes.items():
        ctx.monitor_evals += 1
        bad = grid_identical(g, h)
        if bad is None and h is g:
            # C14 asks for "a grid equal to the original": a route that hands back the very same (immutable)
            # object satisfies it; only recorded in the evidence
            ctx.hist("route-returned-the-same-object", name)
        if bad:
            ctx.monitor_fail("grid", dict(case, route=name), {"problem": bad, "original": rec_of(g),
                             "restored": None if isinstance(h, Exception) else rec_of(h)},
                             "a grid equal to the original with identical bounds/shape/periodicity/axes/cell volumes",
                             f"{type(g).__name__}: {name} does not restore the grid",
                             key=grid_key(spec, g, name, bad))
    # the state must consist of plain Python values (otherwise it cannot be written as JSON)
    ctx.monitor_evals += 1
    try:
        state = g.state
        stree, probs = tree_of(state, None)
        jtree, _ = tree_of(json.loads(g.state_serialized), None)
        json.dumps(state)
    except Exception as e:  # noqa: BLE001
        stree = jtree = None
        probs = [f"{exc_name(e)}: {e}"]
    if probs:
        ctx.monitor_fail("grid", dict(case, route="state"), {"problem": "state holds values that are not plain Python "
                         "numbers/bools: " + "; ".join(probs[:4])}, "a JSON-serialisable state",
                         f"{type(g).__name__}: state is not JSON-serialisable",
                         key=grid_key(spec, g, "state", "not JSON serializable"))
    # the old (pre-f7b9cbf) state of a cylinder, replayed on the real from_state
    old_rec = None
    if spec["cls"] == "cylindrical" and stree is not None:
        try:
            old = dict(g.state)
            old["radius"] = g.axes_bounds[0][1]
            old_rec = rec_of(type(g).from_state(old))
        except Exception as e:  # noqa: BLE001
            old_rec = {"err": exc_name(e)}
    impl = {"rec": rec_of(g), "routes": {k: (None if isinstance(h, Exception) else rec_of(h)) for k, h in routes.items()},
            "errors": {k: exc_name(h) for k, h in routes.items() if isinstance(h, Exception)}}
    geo = None
    if geometry and mode == "Q" and int(np.prod(spec["shape"])) <= 2000:
        geo = {"dx": [float(x) for x in g.discretization], "coords": [np.array(c, dtype=float) for c in g.axes_coords],
               "cellvols": np.array(g.cell_volumes, dtype=float).ravel(), "volume": float(g.volume)}

    def cont(resp):
        m = expect_ok(ctx, resp, "grid", case)
        if m is None:
            return
        ctx.impl_traces += 1
        if "err" in m:
            ctx.disagree("grid", case, m, impl["rec"], "the model constructor rejects a grid the package builds")
            return
        if not same_rec(m["obj"], impl["rec"], mode):
            ctx.disagree("grid", case, show_rec(m["obj"], mode), impl["rec"], "constructed object")
        if m["class_name"] != type(g).__name__:
            ctx.disagree("grid", case, m["class_name"], type(g).__name__, "class name")
        if stree is not None and not same_tree(m["state"], stree, mode):
            ctx.disagree("grid", case, show_tree(m["state"], mode), show_real(stree), "state")
        if jtree is not None and not same_tree(m["json"], jtree, mode):
            ctx.disagree("grid", case, show_tree(m["json"], mode), show_real(jtree), "state_serialized")
        which = {"from_state(state)": "from_state", "GridBase.from_state(state_serialized)": "from_json",
                 "GridBase.from_state(dict+class)": "from_json", "from_state(json.loads(json.dumps(state)))": "from_state",
                 "copy()": "copy", "copy.copy": "copy", "copy.deepcopy": "copy", "deepcopy-in-container": "copy"}
        for name, mk in which.items():
            mr, ir = m[mk], impl["routes"][name]
            if "ok" in mr:
                if ir is None or not same_rec(mr["ok"], ir, mode):
                    ctx.disagree("grid", dict(case, route=name), show_rec(mr["ok"], mode),
                                 ir if ir is not None else impl["errors"].get(name), name)
            elif ir is not None or impl["errors"].get(name) != mr["err"]:
                ctx.disagree("grid", dict(case, route=name), mr, ir if ir is not None else impl["errors"].get(name), name)
        if m["copy_eq"] is not True:
            ctx.disagree("grid", case, {"copy_eq": m["copy_eq"]}, True, "the model's copy is not equal to the grid")
        if old_rec is not None:
            mo = m["from_old_cyl"]
            if ("ok" in mo and not ("err" not in old_rec and same_rec(mo["ok"], old_rec, mode))) or \
                    ("err" in mo and old_rec.get("err") != mo["err"]):
                ctx.disagree("grid", dict(case, route="old-state"), show_rec(mo.get("ok", mo), mode), old_rec,
                             "from_state of the pre-fix cylinder state (outer radius only)")
        if geo is not None and "dx" in m:
            cs = max(1e-300, max(abs(x) for b in impl["rec"]["bounds"] for x in b))
            mdx = [float(unq(x)) for x in m["dx"]]
            if len(mdx) != len(geo["dx"]) or any(abs(a - b) > 1e-12 * max(abs(a), 1e-300) for a, b in zip(mdx, geo["dx"])):
                ctx.disagree("grid", case, {"dx": mdx}, {"dx": geo["dx"]}, "discretization")
            for ax, (mc, ic) in enumerate(zip(m["coords"], geo["coords"])):
                mc = np.array([float(unq(x)) for x in mc])
                if mc.shape != ic.shape or np.max(np.abs(mc - ic), initial=0.0) > 1e-12 * cs:
                    ctx.disagree("grid", case, {"coords": mc.tolist()}, {"coords": ic.tolist()}, f"axes_coords[{ax}]")
            mv = np.array([float(unq(x)) for x in m["cellvols"]])
            vs = max(float(np.max(np.abs(geo["cellvols"]), initial=0.0)), 1e-300)
            if mv.shape != geo["cellvols"].shape or np.max(np.abs(mv - geo["cellvols"]), initial=0.0) > 1e-11 * vs:
                ctx.disagree("grid", case, {"cellvols": mv.tolist()[:8]}, {"cellvols": geo["cellvols"].tolist()[:8]}, "cell_volumes")
            mvol = float(unq(m["volume"]))
            if abs(mvol - geo["volume"]) > 1e-11 * max(abs(mvol), 1e-300):
                ctx.disagree("grid", case, {"volume": mvol}, {"volume": geo["volume"]}, "volume")

    req = {"mode": mode, "grid": margs(spec)}
    if geo is not None:
        req["pi"] = q(PI)
    P.add("c14.grid", req, cont)
    return g


# ------------------------------------------------------------------------------------------
# leg: equality of perturbed pairs
def perturb(rng, spec):
    """a second specification that differs from `spec` in exactly one respect (or in none)"""
    s = copy.deepcopy(spec)
    c = s["cls"]
    kinds = ["same", "shape", "respell"]
    if c in ("unit", "cartesian"):
        kinds += ["periodic", "class-unit-cartesian"]
    if c == "cartesian":
        kinds += ["bound", "bound-ulp"]
    if c in ("polar", "spherical"):
        kinds += ["class-polar-spherical", "rin", "rout", "rout-ulp"]
    if c == "cylindrical":
        kinds += ["rin", "rout", "zbound", "periodic_z", "rout-ulp"]
    kind = rng.choice(kinds)
    up = lambda x: float(np.nextafter(x, np.inf))
    if kind == "shape":
        i = rng.randrange(len(s["shape"]))
        s["shape"][i] += 1
        if s["style"].get("shape") == "int" and len(set(s["shape"])) > 1:
            s["style"]["shape"] = "list"
    elif kind == "respell":
        s["style"] = gen_grid(rng, c, s["mode"])["style"] if c not in ("unit", "cartesian") else s["style"]
        s = fix_style(s)
    elif kind == "periodic":
        i = rng.randrange(len(s["periodic"]))
        s["periodic"][i] = not s["periodic"][i]
        if s["style"]["periodic"] in ("bool", "npbool") and len(set(s["periodic"])) > 1:
            s["style"]["periodic"] = "list"
    elif kind == "class-unit-cartesian":
        if c == "unit":
            s = {"cls": "cartesian", "bounds": [[0.0, float(n)] for n in s["shape"]], "shape": s["shape"],
                 "periodic": s["periodic"], "mode": s["mode"],
                 "style": dict(s["style"], bounds="list", num="float")}
        elif all(b[0] == 0.0 and b[1] == n for b, n in zip(s["bounds"], s["shape"])) or rng.random() < 0.7:
            s = {"cls": "unit", "shape": s["shape"], "periodic": s["periodic"], "mode": s["mode"],
                 "style": {k: v for k, v in s["style"].items() if k in ("shape", "periodic")}}
            if s["style"]["shape"] == "int" and len(s["shape"]) > 1:
                s["style"]["shape"] = "list"
    elif kind in ("bound", "bound-ulp"):
        i = rng.randrange(len(s["bounds"]))
        j = rng.randrange(2)
        lo, hi = min(s["bounds"][i]), max(s["bounds"][i])
        if kind == "bound-ulp" and s["mode"] != "dyadic":
            s["bounds"][i] = [lo, up(hi)] if j else [float(np.nextafter(lo, -np.inf)), hi]
        else:
            s["bounds"][i] = [lo, hi + (hi - lo)] if j else [lo - (hi - lo), hi]
        s["style"]["num"] = "float"
        if s["style"]["bounds"] in ("upper", "upper-col") and s["bounds"][i][0] != 0.0:
            s["style"]["bounds"] = "list"
    elif kind == "class-polar-spherical":
        s["cls"] = "spherical" if c == "polar" else "polar"
    elif kind == "rin":
        lo, hi = s["radius"]
        s["radius"] = [(lo + hi) / 2 if s["mode"] == "dyadic" or lo > 0 else hi / 2, hi]
        s["style"]["radius"] = "tuple"
        s["style"]["num"] = "float"
    elif kind in ("rout", "rout-ulp"):
        lo, hi = s["radius"]
        s["radius"] = [lo, up(hi) if (kind == "rout-ulp" and s["mode"] != "dyadic") else hi + (hi - lo)]
        s["style"]["num"] = "float"
    elif kind == "zbound":
        j = rng.randrange(2)
        lo, hi = s["bounds_z"]
        s["bounds_z"] = [lo, hi + (hi - lo)] if j else [lo - (hi - lo), hi]
        s["style"]["numz"] = "float"
    elif kind == "periodic_z":
        s["periodic"][1] = not s["periodic"][1]
    return kind, s


def fix_style(s):
    st = s["style"]
    if st.get("radius") == "scalar" and s["radius"][0] != 0.0:
        st["radius"] = "list"
    if st.get("shape") == "int" and len(set(s["shape"])) > 1:
        st["shape"] = "list"
    for key, vals in (("num", s.get("radius")), ("numz", s.get("bounds_z"))):
        if vals is not None and key in st:
            if st[key] in ("int", "npint") and not all(is_int(v) for v in vals):
                st[key] = "float"
            if st[key] == "np32" and not all(fits32(v) for v in vals):
                st[key] = "float"
    return s


def leg_equality(ctx, P, spec, rng, pair=None):
    """`pair = (kind, other)`: the recorded second specification (replay); otherwise drawn from `rng`"""
    kind, other = pair if pair is not None else perturb(rng, spec)
    if mode_of(other) != mode_of(spec):
        return
    g, h = build(spec), build(other)
    case = {"leg": "equality", "grid": spec, "other": other, "kind": kind}
    ctx.count(case, nontrivial=(kind != "same"), leg="equality")
    ctx.hist("equality-pair", kind)
    eq, eq_rev, ne = bool(g == h), bool(h == g), bool(g != h)
    ctx.hist("equality-result", eq)
    # monitor: equality is symmetric, consistent with !=, and means identical records up to the
    # UnitGrid/CartesianGrid subclass relation
    ctx.monitor_evals += 1
    rg, rh = rec_of(g), rec_of(h)
    same_params = all(rg[k] == rh[k] for k in ("bounds", "shape", "periodic"))
    related = rg["cls"] == rh["cls"] or {rg["cls"], rh["cls"]} == {"unit", "cartesian"}
    bad = None
    if eq != eq_rev:
        bad = f"g == h is {eq} but h == g is {eq_rev}"
    elif ne == eq:
        bad = f"g == h and g != h are both {eq}"
    elif eq != (same_params and related):
        bad = f"g == h is {eq} although the records are {'identical' if same_params else 'different'}"
    elif eq and (g._cache_hash() == h._cache_hash()) != (rg["cls"] == rh["cls"]):
        bad = "cache hash inconsistent with equality"
    if bad:
        ctx.monitor_fail("equality", case, {"problem": bad, "g": rg, "h": rh}, "equality <=> identical bounds/shape/periodicity",
                         f"{type(g).__name__}: grid equality", key={"grid_class": type(g).__name__, "leg": "equality"})

    def cont(resp):
        m = expect_ok(ctx, resp, "equality", case)
        if m is None:
            return
        ctx.impl_traces += 1
        if m["eq"] != eq or m["eq_rev"] != eq_rev:
            ctx.disagree("equality", case, m, {"eq": eq, "eq_rev": eq_rev}, "g == h")

    P.add("c14.eq", {"mode": mode_of(spec), "a": margs(spec), "b": margs(other)}, cont)


# ------------------------------------------------------------------------------------------
# leg: malformed trees
def py_of_tree(t):
    """Python value of a harness-side tree (numbers are floats/ints already)"""
    return t


GRID_TAMPERS = ["class-unknown", "class-abstract", "class-abstract-radial", "class-missing", "drop-key", "extra-key",
                "shape-zero", "shape-empty", "periodic-length", "radius-negative", "radius-order", "radius-three",
                "bounds-ambiguous", "shape-three", "bounds_z-three", "shape-mismatch", "class-other"]


def tamper_state(rng, spec, state, kind):
    """(tree as Python dict incl. 'class', applicable) - `state` is the real state as plain Python"""
    d = dict(state)
    c = spec["cls"]
    cname = {v: k for k, v in TAGS.items()}[c]
    d["class"] = cname
    if kind == "class-unknown":
        d["class"] = rng.choice(["FooGrid", "unitgrid", "CartesianGrid ", ""])
    elif kind == "class-abstract":
        d["class"] = "GridBase"
    elif kind == "class-abstract-radial":
        if c not in ("polar", "spherical"):
            return None
        d["class"] = "SphericalSymGridBase"
    elif kind == "class-missing":
        del d["class"]
    elif kind == "class-other":
        d["class"] = rng.choice([n for n in TAGS if n != cname])
    elif kind == "drop-key":
        k = rng.choice([k for k in d if k != "class"])
        del d[k]
    elif kind == "extra-key":
        d[rng.choice(["bogus", "radius_inner", "dim"])] = 1
    elif kind == "shape-zero":
        sh = list(d["shape"])
        sh[rng.randrange(len(sh))] = 0
        d["shape"] = sh
    elif kind == "shape-empty":
        d["shape"] = []
    elif kind == "periodic-length":
        if "periodic" not in d:
            return None
        d["periodic"] = list(d["periodic"]) + [True]
    elif kind in ("radius-negative", "radius-order", "radius-three"):
        if "radius" not in d:
            return None
        lo, hi = spec["radius"]
        d["radius"] = {"radius-negative": [-hi, hi], "radius-order": rng.choice([[hi, lo], [hi, hi]]),
                       "radius-three": [lo, hi, hi]}[kind]
    elif kind == "bounds-ambiguous":
        if c != "cartesian":
            return None
        d["bounds"] = [1.0, 2.0]
    elif kind == "shape-three":
        if c not in ("cylindrical", "polar", "spherical"):
            return None
        d["shape"] = [2, 3, 4] if c == "cylindrical" else [2, 3]
    elif kind == "bounds_z-three":
        if c != "cylindrical":
            return None
        d["bounds_z"] = [0.0, 1.0, 2.0]
    elif kind == "shape-mismatch":
        if c != "cartesian" or len(d["shape"]) < 2:
            return None
        d["shape"] = list(d["shape"]) + [2]
    return d


def tree_for_model(v, enc, key=None):
    """driver tree of a plain Python value; integers below 'shape' are counts, other numbers coordinates"""
    if v is None or isinstance(v, bool):
        return v
    if isinstance(v, str):
        return {"s": v}
    if isinstance(v, (int, float)):
        if key == "shape" and isinstance(v, int):
            return int(v)
        return enc(v)
    if isinstance(v, (list, tuple)):
        return [tree_for_model(e, enc, key) for e in v]
    if isinstance(v, dict):
        return {"o": [[k, tree_for_model(e, enc, k if key is None else key)] for k, e in v.items()]}
    raise TypeError(v)


def plain(v):
    """plain Python (JSON-able) form of a state value"""
    if isinstance(v, (bool, np.bool_)):
        return bool(v)
    if isinstance(v, (int, np.integer)):
        return int(v)
    if isinstance(v, (float, np.floating)):
        return float(v)
    if isinstance(v, (list, tuple, np.ndarray)):
        return [plain(e) for e in v]
    if isinstance(v, dict):
        return {k: plain(e) for k, e in v.items()}
    return v


def leg_malformed_grid(ctx, P, spec, rng, n=2, fixed=None):
    """`fixed = [(kind, tree, via)]`: the recorded tampered trees (replay); otherwise drawn from `rng`"""
    from pde.grids.base import GridBase
    g = build(spec)
    mode = mode_of(spec)
    enc = q if mode == "Q" else fbits
    state = plain(g.state)
    plan = []
    if fixed is not None:
        plan = list(fixed)
    else:
        for kind in rng.sample(GRID_TAMPERS, len(GRID_TAMPERS))[: n + 6]:
            d = tamper_state(rng, spec, state, kind)
            if d is None:
                continue
            n -= 1
            if n < 0:
                break
            plan.append((kind, d, rng.choice(["json", "dict"])))
    for kind, d, via in plan:
        case = {"leg": "malformed-grid", "grid": spec, "tamper": kind, "tree": d, "via": via}
        ctx.count(case, nontrivial=False, leg="malformed-grid")
        ctx.hist("malformed-grid", kind)
        try:
            h = GridBase.from_state(json.dumps(d) if via == "json" else dict(d))
            outcome = {"ok": rec_of(h)}
        except Exception as e:  # noqa: BLE001
            outcome = {"err": exc_name(e)}
        ctx.hist("malformed-grid-outcome", outcome.get("err", "grid"))
        # monitor: a tampered tree never yields the original grid silently with the tampering ignored
        ctx.monitor_evals += 1
        if "ok" in outcome and kind not in ("class-other",) and outcome["ok"] == rec_of(g):
            ctx.monitor_fail("malformed-grid", case, outcome, "an error", f"{type(g).__name__}: tampered state ({kind}) accepted",
                             key={"grid_class": type(g).__name__, "leg": "malformed-grid", "tamper": kind})

        def cont(resp, case=case, outcome=outcome):
            m = expect_ok(ctx, resp, "malformed-grid", case)
            if m is None:
                return
            ctx.impl_traces += 1
            if "err" in m:
                if m["err"] == "unsupported":
                    ctx.disagree("malformed-grid", case, m, outcome, "tree outside the modelled vocabulary")
                elif outcome.get("err") != m["err"]:
                    ctx.disagree("malformed-grid", case, m, outcome, "error class")
            elif "ok" not in outcome or not same_rec(m["ok"], outcome["ok"], mode):
                ctx.disagree("malformed-grid", case, show_rec(m.get("ok"), mode), outcome, "accepted tree")

        P.add("c14.fromstate", {"mode": mode, "tree": tree_for_model(d, enc), "via": "base"}, cont)


# ------------------------------------------------------------------------------------------
# fields
DTYPES = ["<f8", "<f8", "<f4", "<c16", "<c8", "<i8", "<i4"]
LABELS = [None, None, "a", "", "c_1", "φ field", 'q"uote', "with space", "\\back", "null", "0"]


def make_values(n, dt, salt=0):
    """n pairwise distinct values that every dtype used here represents exactly"""
    kind = np.dtype(dt).kind
    idx = np.arange(n)
    if kind in "iu":
        v = idx - n // 3 + salt
    elif kind == "c":
        v = (idx - n // 3) / 4 + salt / 8 + 1j * ((n - idx) / 2 - salt / 4)
    else:
        v = (idx - n // 3) / 4 + salt / 8
    return np.array(v, dtype=np.dtype(dt))


def field_class(tag):
    import pde
    return {"scalar": pde.ScalarField, "vector": pde.VectorField, "tensor2": pde.Tensor2Field}[tag]


def build_field(fs, g, salt=0):
    cls = field_class(fs["fcls"])
    shape = (g.dim,) * RANK[fs["fcls"]] + tuple(g.shape)
    n = int(np.prod(shape))
    data = make_values(n, fs["dtype"], salt).reshape(shape)
    return cls(g, data, label=fs["label"], dtype=np.dtype(fs["dtype"]))


# byte order is part of a dtype: data read from big-endian files keeps `>f8` (single fields only; collections cast)
DTYPES_SWAPPED = [">f8", ">f4", ">c16", ">i4"]


def gen_field(rng, gspec):
    return {"fcls": rng.choice(["scalar", "vector", "tensor2"]), "label": rng.choice(LABELS),
            "dtype": rng.choice(DTYPES_SWAPPED) if rng.random() < 0.08 else rng.choice(DTYPES), "grid": gspec}


def mfield(fs):
    return {"fcls": fs["fcls"], "grid": margs(fs["grid"]), "label": fs["label"], "dtype": fs["dtype"]}


def field_rec(f):
    return {"fcls": FCLS.get(type(f).__name__, type(f).__name__), "grid": rec_of(f.grid), "label": f.label,
            "dtype": np.dtype(f.dtype).str, "shape": list(f.data.shape)}


def atoms_to_values(atoms, source):
    """values the model's data arrangement stands for (`source`: flat array handed to the package)"""
    out = []
    for i, real in atoms:
        v = 0 if i < 0 else source[i]
        if real and isinstance(v, (complex, np.complexfloating)):
            v = v.real
        out.append(v)
    return np.array(out)


def field_identical(f, h, check_grid_object=False, byteorder_external=False):
    """monitor of the field part of the property: None or what differs.  `byteorder_external`: numpy's own pickling of an
    array returns native byte order (`pickle.loads(pickle.dumps(np.zeros(1, '>f8'))).dtype.str == '<f8'`) - for the pickle
    route the byte order of the dtype is numpy's, not py-pde's, to keep"""
    if isinstance(h, Exception):
        return f"raised {exc_name(h)}: {h}"
    if type(h) is not type(f):
        return f"class {type(h).__name__} instead of {type(f).__name__}"
    bad = grid_identical(f.grid, h.grid)
    if bad:
        return "grid: " + bad
    if h.label != f.label:
        return f"label {h.label!r} instead of {f.label!r}"
    if np.dtype(h.dtype) != np.dtype(f.dtype) and not (
            byteorder_external and np.dtype(h.dtype).newbyteorder("=") == np.dtype(f.dtype).newbyteorder("=")):
        return f"dtype {np.dtype(h.dtype).str} instead of {np.dtype(f.dtype).str}"
    if h.data.shape != f.data.shape or not np.array_equal(h.data, f.data):
        return "data differ"
    if not (h == f) or not (f == h):
        return "not equal (==) to the original"
    if h is f or np.shares_memory(h.data, f.data):
        return "shares memory with the original"
    if not np.shares_memory(h.data, h._data_full):
        return "data is not a view of _data_full"
    _ = check_grid_object
    return None


def linked_after_restore(h, members=()):
    """regression 129e75d: after pickle/deepcopy a write through `.data` reaches `_data_full`, the
    operators and (collections) the member fields.  None or what is wrong; `h` is modified."""
    import pde
    if not np.shares_memory(h.data, h._data_full):
        return "data is detached from _data_full"
    marker = 7 if np.dtype(h.dtype).kind in "iu" else 7.5
    h.data[...] = marker
    if not np.all(h._data_full[h._idx_valid] == marker):
        return "a write through .data is not visible in _data_full"
    for k, m in enumerate(members):
        if not np.all(m.data == marker) or not np.shares_memory(m.data, h._data_full):
            return f"a write through the collection's .data is not visible in member {k}"
    for k, m in enumerate(members):
        m.data[...] = k + 1
        if not np.all(h.data[h._slices[k]] == k + 1):
            return f"a write through member {k} is not visible in the collection"
    if isinstance(h, pde.ScalarField) and type(h.grid).__name__ in ("UnitGrid", "CartesianGrid") \
            and np.dtype(h.dtype).kind == "f" and len(set(float(d) for d in h.grid.discretization)) == 1:
        h.data[...] = np.arange(h.data.size).reshape(h.data.shape)
        fresh = pde.ScalarField(h.grid, np.array(h.data), dtype=h.dtype)
        a = h.laplace("auto_periodic_neumann", backend="scipy").data
        b = fresh.laplace("auto_periodic_neumann", backend="scipy").data
        if not np.allclose(a, b, rtol=1e-12, atol=1e-12):
            return "an operator applied after a write through .data does not see the new data"
    return None


def serialized_tree(attrs):
    """tree of an `attributes_serialized` dictionary: every value is a JSON text"""
    out = []
    probs = []
    for k, v in attrs.items():
        if not isinstance(v, str):
            probs.append(f"{k}: value of type {type(v).__name__} is not a JSON text")
            out.append([k, {"s": repr(v)}])
            continue
        dec = json.loads(v)
        if k == "fields":
            sub = []
            for fa in dec:
                t, pr = serialized_tree(fa)
                sub.append(t)
                probs += pr
            out.append([k, sub])
        else:
            t, _ = tree_of(dec, None)
            out.append([k, t])
    return {"o": out}, probs


def storage_roundtrip(f):
    """write `f` into a MemoryStorage, reopen the stored times/data/info (through JSON text, as a
    file storage would keep them) without handing over the field, read it back"""
    import pde
    w = pde.MemoryStorage()
    w.start_writing(f)
    w.append(f, 0.5)
    w.end_writing()
    info = json.loads(json.dumps(w.info))
    r = pde.MemoryStorage(times=list(w.times), data=[np.array(d) for d in w.data], info=info)
    out = r[0]
    if r.grid is None or grid_identical(f.grid, r.grid):
        raise RuntimeError(f"storage.grid is not the stored grid: {r.grid}")
    return out


def field_routes(f):
    from pde.fields.base import FieldBase
    routes = {}

    def attempt(name, fn):
        try:
            routes[name] = fn()
        except Exception as e:  # noqa: BLE001
            routes[name] = e

    cls = type(f)
    attempt("FieldBase: serialized->unserialize->from_state",
            lambda: FieldBase.from_state(FieldBase.unserialize_attributes(f.attributes_serialized), data=f.data))
    attempt("class: serialized->unserialize->from_state",
            lambda: cls.from_state(cls.unserialize_attributes(f.attributes_serialized), data=f.data))
    attempt("serialized through JSON text",
            lambda: FieldBase.from_state(FieldBase.unserialize_attributes(
                json.loads(json.dumps(f.attributes_serialized))), data=np.array(f.data)))
    attempt("from_state(attributes)", lambda: FieldBase.from_state(dict(f.attributes), data=f.data))
    attempt("copy()", lambda: f.copy())
    attempt("copy.deepcopy", lambda: copy.deepcopy(f))
    attempt("pickle", lambda: pickle.loads(pickle.dumps(f)))
    attempt("storage info['field_attributes']", lambda: storage_roundtrip(f))
    return routes


def field_key(f, route, problem):
    key = {"field_class": type(f).__name__, "grid_class": type(f.grid).__name__, "leg": "field", "route": route}
    if ("detached" in problem or "not visible" in problem or "not a view" in problem or "does not see" in problem) \
            and route in ("pickle", "copy.deepcopy"):
        key.update(K_SETSTATE)
    elif "not JSON serializable" in problem:
        key.update(K_NPBOOL if type(f.grid).__name__ in ("UnitGrid", "CartesianGrid") else K_NPNUM)
    return key


def nontrivial_field(fs):
    return (fs["label"] is not None or fs["dtype"] != "<f8" or nontrivial_grid(fs["grid"])
            or fs["fcls"] != "scalar")


def leg_field(ctx, P, fs, salt):
    g = build(fs["grid"])
    f = build_field(fs, g, salt)
    mode = mode_of(fs["grid"])
    case = {"leg": "field", "field": fs, "salt": salt}
    ctx.count(case, nontrivial=nontrivial_field(fs), leg="field")
    ctx.hist("field", f"{fs['fcls']}/{fs['dtype']}/{fs['grid']['cls']}")
    ctx.hist("label", "None" if fs["label"] is None else ("empty" if fs["label"] == "" else "text"))
    routes = field_routes(f)
    for name, h in routes.items():
        ctx.monitor_evals += 1
        bad = field_identical(f, h, byteorder_external=(name == "pickle"))
        if bad is None and name in ("pickle", "copy.deepcopy"):
            bad = linked_after_restore(h)
        if bad:
            ctx.monitor_fail("field", dict(case, route=name), {"problem": bad, "original": field_rec(f),
                             "restored": None if isinstance(h, Exception) else field_rec(h)},
                             "an equal field with the same class, grid, label, dtype and data",
                             f"{type(f).__name__}: {name} does not restore the field", key=field_key(f, name, bad))
    try:
        stree, probs = serialized_tree(f.attributes_serialized)
    except Exception as e:  # noqa: BLE001
        stree, probs = None, [f"{exc_name(e)}: {e}"]
    ctx.monitor_evals += 1
    if probs:
        ctx.monitor_fail("field", dict(case, route="attributes_serialized"), {"problem": "; ".join(probs[:3])},
                         "a dictionary of JSON texts", f"{type(f).__name__}: attributes_serialized fails",
                         key=field_key(f, "attributes_serialized", "not JSON serializable"))
    h = routes["FieldBase: serialized->unserialize->from_state"]
    flat = np.array(f.data).ravel()

    def cont(resp):
        m = expect_ok(ctx, resp, "field", case)
        if m is None:
            return
        ctx.impl_traces += 1
        if stree is not None and not same_tree(m["serialized"], stree, mode):
            ctx.disagree("field", case, show_tree(m["serialized"], mode), show_real(stree), "attributes_serialized")
        if m["data_len"] != flat.size:
            ctx.disagree("field", case, m["data_len"], flat.size, "number of stored values")
        r = m["result"]
        if "err" in r:
            if not isinstance(h, Exception) or exc_name(h) != r["err"]:
                ctx.disagree("field", case, r, None if isinstance(h, Exception) else field_rec(h), "from_state")
            return
        r = r["ok"]
        if isinstance(h, Exception):
            ctx.disagree("field", case, {"ok": r["fcls"]}, exc_name(h), "from_state raised")
            return
        hr = field_rec(h)
        if r["fcls"] != hr["fcls"] or not same_rec(r["grid"], hr["grid"], mode) or r["label"] != hr["label"] \
                or r["dtype"] != hr["dtype"]:
            ctx.disagree("field", case, dict(r, data=None, grid=show_rec(r["grid"], mode)), hr, "restored attributes")
        exp = atoms_to_values(r["data"], flat)
        got = np.array(h.data).ravel()
        if exp.shape != got.shape or not np.array_equal(exp, got):
            ctx.disagree("field", case, {"data": exp.tolist()[:12]}, {"data": got.tolist()[:12]}, "restored data")

    P.add("c14.field", {"mode": mode, "field": mfield(fs), "n": int(flat.size), "data_dtype": fs["dtype"]}, cont)


FIELD_TAMPERS = ["class-unknown", "class-abstract", "class-abstract-data", "drop-class", "drop-grid", "extra-key",
                 "dtype-unknown", "label-number", "data-size", "grid-class-unknown", "drop-label", "drop-dtype"]


def py_to_tree(v, enc):
    """driver tree of a plain JSON value that contains no coordinates (attribute tampering)"""
    if v is None or isinstance(v, bool):
        return v
    if isinstance(v, str):
        return {"s": v}
    if isinstance(v, int):
        return int(v)
    if isinstance(v, float):
        return enc(v)
    if isinstance(v, list):
        return [py_to_tree(e, enc) for e in v]
    return {"o": [[k, py_to_tree(e, enc)] for k, e in v.items()]}


def leg_malformed_field(ctx, P, fs, rng, salt, n=2, fixed=None):
    """`fixed = [(kind, tam)]`: the recorded tamperings (replay); otherwise drawn from `rng`"""
    from pde.fields.base import FieldBase
    g = build(fs["grid"])
    f = build_field(fs, g, salt)
    mode = mode_of(fs["grid"])
    enc = q if mode == "Q" else fbits
    flat = np.array(f.data).ravel()
    for kind, tam_fixed in (fixed if fixed is not None else [(k, None) for k in rng.sample(FIELD_TAMPERS, n)]):
        attrs = dict(f.attributes_serialized)
        tam, ndata = None, int(flat.size)
        if fixed is not None and kind not in ("data-size", "grid-class-unknown"):
            tam = tam_fixed
        elif kind == "class-unknown":
            tam = {"set": ["class", "NoSuchField"]}
        elif kind == "class-abstract":
            tam = {"set": ["class", "FieldBase"]}
        elif kind == "class-abstract-data":
            tam = {"set": ["class", "DataFieldBase"]}
        elif kind == "drop-class":
            tam = {"drop": "class"}
        elif kind == "drop-grid":
            tam = {"drop": "grid"}
        elif kind == "drop-label":
            tam = {"drop": "label"}
        elif kind == "drop-dtype":
            tam = {"drop": "dtype"}
        elif kind == "extra-key":
            tam = {"set": [rng.choice(["bogus", "rank", "labels"]), 1]}
        elif kind == "dtype-unknown":
            tam = {"set": ["dtype", rng.choice(["<q7", "float63", "xyz"])]}
        elif kind == "label-number":
            tam = {"set": ["label", 3]}
        elif kind == "data-size":
            ndata = flat.size + 1
        elif kind == "grid-class-unknown":
            gs = json.loads(attrs["grid"])
            gs["class"] = "NoSuchGrid"
            attrs["grid"] = json.dumps(gs)
        if tam is not None:
            if "drop" in tam:
                attrs.pop(tam["drop"], None)
            if "set" in tam:
                attrs[tam["set"][0]] = json.dumps(tam["set"][1])
        data = np.array(flat) if ndata == flat.size else np.arange(ndata, dtype=float)
        if ndata == flat.size:
            data = data.reshape(f.data.shape)
        case = {"leg": "malformed-field", "field": fs, "salt": salt, "tamper": kind, "tam": tam}
        ctx.count(case, nontrivial=False, leg="malformed-field")
        ctx.hist("malformed-field", kind)
        try:
            h = FieldBase.from_state(FieldBase.unserialize_attributes(attrs), data=data)
            outcome = {"ok": field_rec(h)}
        except Exception as e:  # noqa: BLE001
            h = e
            outcome = {"err": exc_name(e)}
        ctx.hist("malformed-field-outcome", outcome.get("err", "field"))
        ctx.monitor_evals += 1
        if "ok" in outcome and kind not in ("drop-label", "drop-dtype"):
            ctx.monitor_fail("malformed-field", case, outcome, "an error", f"{type(f).__name__}: tampered attributes ({kind}) accepted",
                             key={"field_class": type(f).__name__, "leg": "malformed-field", "tamper": kind})

        def cont(resp, case=case, outcome=outcome, h=h, kind=kind):
            m = expect_ok(ctx, resp, "malformed-field", case)
            if m is None:
                return
            ctx.impl_traces += 1
            r = m["result"]
            if "err" in r:
                if outcome.get("err") != r["err"]:
                    ctx.disagree("malformed-field", case, r, outcome, "error class")
                return
            r = r["ok"]
            if "ok" not in outcome:
                ctx.disagree("malformed-field", case, {"ok": dict(r, data=None, grid=None)}, outcome, "accepted by the model only")
                return
            hr = outcome["ok"]
            if r["fcls"] != hr["fcls"] or r["label"] != hr["label"] or r["dtype"] != hr["dtype"] \
                    or not same_rec(r["grid"], hr["grid"], mode):
                ctx.disagree("malformed-field", case, dict(r, data=None, grid=show_rec(r["grid"], mode)), hr, "restored attributes")
            exp = atoms_to_values(r["data"], flat)
            got = np.array(h.data).ravel()
            if exp.shape != got.shape or not np.array_equal(exp, got):
                ctx.disagree("malformed-field", case, {"data": exp.tolist()[:12]}, {"data": got.tolist()[:12]}, "restored data")

        req = {"mode": mode, "field": mfield(fs), "n": ndata, "data_dtype": fs["dtype"] if ndata == flat.size else "<f8"}
        if tam is not None:
            req["tamper"] = {k: (v if k == "drop" else [v[0], py_to_tree(v[1], enc)]) for k, v in tam.items()}
        if kind == "grid-class-unknown":
            # the grid entry of the model's dictionary is replaced by the tampered tree
            gm = json.loads(attrs["grid"])
            req["tamper"] = {"set": ["grid", tree_for_model(gm, enc)]}
        P.add("c14.field", req, cont)


# ------------------------------------------------------------------------------------------
# collections
def gen_collection(rng, gspec):
    k = rng.choice([1, 2, 2, 3, 3, 4, 5])
    fields = [{"fcls": rng.choice(["scalar", "scalar", "vector", "tensor2"]), "label": rng.choice(LABELS),
               "dtype": rng.choice(DTYPES)} for _ in range(k)]
    if rng.random() < 0.4:
        dt = rng.choice(DTYPES)
        for fsp in fields:
            fsp["dtype"] = dt
    cdt = rng.choice([None, None, None, "<f8", "<f4", "<c16", "<c8"])
    if cdt is not None and np.dtype(cdt).kind != "c" and any(np.dtype(fsp["dtype"]).kind == "c" for fsp in fields):
        cdt = None                                    # complex members cannot be stored in a real collection
    if cdt is not None and np.dtype(cdt).kind in "iu":
        cdt = None
    return {"grid": gspec, "fields": fields, "label": rng.choice(LABELS), "dtype": cdt,
            "labels_arg": rng.random() < 0.25}


def coll_dtype(cs):
    if cs["dtype"] is not None:
        return cs["dtype"]
    return "<c16" if any(np.dtype(fsp["dtype"]).kind == "c" for fsp in cs["fields"]) else "<f8"


def coll_labels(cs):
    if cs.get("labels_arg"):
        return [None if fsp["label"] is None else fsp["label"] + "'" for fsp in cs["fields"]]
    return [fsp["label"] for fsp in cs["fields"]]


def build_collection(cs, salt=0):
    import pde
    g = build(cs["grid"])
    fields = [build_field(dict(fsp, grid=cs["grid"]), g, salt + 11 * i) for i, fsp in enumerate(cs["fields"])]
    kw = {}
    if cs.get("labels_arg"):
        kw["labels"] = coll_labels(cs)
    return pde.FieldCollection(fields, label=cs["label"], dtype=None if cs["dtype"] is None else np.dtype(cs["dtype"]), **kw)


def coll_rec(c):
    return {"label": c.label, "dtype": np.dtype(c.dtype).str, "labels": list(c.labels),
            "fields": [field_rec(f) for f in c]}


def collection_identical(c, h):
    import pde
    if isinstance(h, Exception):
        return f"raised {exc_name(h)}: {h}"
    if type(h) is not type(c):
        return f"class {type(h).__name__} instead of {type(c).__name__}"
    if len(h) != len(c):
        return f"{len(h)} fields instead of {len(c)}"
    if h.label != c.label:
        return f"label {h.label!r} instead of {c.label!r}"
    if list(h.labels) != list(c.labels):
        return f"labels {list(h.labels)!r} instead of {list(c.labels)!r}"
    if np.dtype(h.dtype) != np.dtype(c.dtype):
        return f"dtype {np.dtype(h.dtype).str} instead of {np.dtype(c.dtype).str}"
    bad = grid_identical(c.grid, h.grid)
    if bad:
        return "grid: " + bad
    if h.data.shape != c.data.shape or not np.array_equal(h.data, c.data):
        return "data differ"
    for k, (a, b) in enumerate(zip(c, h)):
        bad = field_identical(a, b)
        if bad:
            return f"field {k}: {bad}"
        if not np.shares_memory(b._data_full, h._data_full):
            return f"field {k} is not linked to the collection"
    if not (h == c) or not (c == h):
        return "not equal (==) to the original"
    if [(s.start, s.stop) for s in h._slices] != [(s.start, s.stop) for s in c._slices]:
        return "slices differ"
    _ = pde
    return None


def collection_routes(c):
    from pde.fields.base import FieldBase
    import pde
    routes = {}

    def attempt(name, fn):
        try:
            routes[name] = fn()
        except Exception as e:  # noqa: BLE001
            routes[name] = e

    attempt("FieldBase: serialized->unserialize->from_state",
            lambda: FieldBase.from_state(FieldBase.unserialize_attributes(c.attributes_serialized), data=c.data))
    attempt("FieldCollection: serialized->unserialize->from_state",
            lambda: pde.FieldCollection.from_state(pde.FieldCollection.unserialize_attributes(
                json.loads(json.dumps(c.attributes_serialized))), data=np.array(c.data)))
    attempt("from_state(attributes)", lambda: pde.FieldCollection.from_state(
        dict(c.attributes, fields=[dict(a) for a in c.attributes["fields"]]), data=c.data))
    attempt("copy()", lambda: c.copy())
    attempt("copy.deepcopy", lambda: copy.deepcopy(c))
    attempt("pickle", lambda: pickle.loads(pickle.dumps(c)))
    attempt("storage info['field_attributes']", lambda: storage_roundtrip(c))
    return routes


def leg_collection(ctx, P, cs, salt):
    c = build_collection(cs, salt)
    mode = mode_of(cs["grid"])
    case = {"leg": "collection", "collection": cs, "salt": salt}
    nontriv = len(cs["fields"]) > 1 or nontrivial_field(dict(cs["fields"][0], grid=cs["grid"])) or cs["label"] is not None
    ctx.count(case, nontrivial=nontriv, leg="collection")
    ctx.hist("collection-ranks", "".join(str(RANK[f["fcls"]]) for f in cs["fields"]))
    ctx.hist("collection-dtype", f"{cs['dtype']}->{coll_dtype(cs)}")
    routes = collection_routes(c)
    for name, h in routes.items():
        ctx.monitor_evals += 1
        bad = collection_identical(c, h)
        if bad is None and name in ("pickle", "copy.deepcopy"):
            bad = linked_after_restore(h, members=list(h))
        if bad:
            key = field_key(c, name, bad)
            if bad.startswith("dtype ") and name in ("copy()", "storage info['field_attributes']"):
                key.update(K_COLLCOPY)
            key["leg"] = "collection"
            ctx.monitor_fail("collection", dict(case, route=name), {"problem": bad, "original": coll_rec(c),
                             "restored": None if isinstance(h, Exception) else coll_rec(h)},
                             "an equal collection with the same fields, grid, labels, dtype and data",
                             f"FieldCollection: {name} does not restore the collection", key=key)
    try:
        stree, probs = serialized_tree(c.attributes_serialized)
    except Exception as e:  # noqa: BLE001
        stree, probs = None, [f"{exc_name(e)}: {e}"]
    h = routes["FieldBase: serialized->unserialize->from_state"]
    flat = np.array(c.data).ravel()
    dt = coll_dtype(cs)
    labels = coll_labels(cs)

    def cont(resp):
        m = expect_ok(ctx, resp, "collection", case)
        if m is None:
            return
        ctx.impl_traces += 1
        if stree is not None and not same_tree(m["serialized"], stree, mode):
            ctx.disagree("collection", case, show_tree(m["serialized"], mode), show_real(stree), "attributes_serialized")
        if m["data_len"] != flat.size:
            ctx.disagree("collection", case, m["data_len"], flat.size, "number of stored values")
        r = m["result"]
        if "err" in r or isinstance(h, Exception):
            if "err" not in r or not isinstance(h, Exception) or exc_name(h) != r["err"]:
                ctx.disagree("collection", case, r.get("err", "ok"), exc_name(h) if isinstance(h, Exception) else "ok", "from_state")
            return
        r = r["ok"]
        hr = coll_rec(h)
        okf = len(r["fields"]) == len(hr["fields"]) and all(
            a["fcls"] == b["fcls"] and a["label"] == b["label"] and a["dtype"] == b["dtype"] and same_rec(a["grid"], b["grid"], mode)
            for a, b in zip(r["fields"], hr["fields"]))
        if r["label"] != hr["label"] or r["dtype"] != hr["dtype"] or r["labels"] != hr["labels"] or not okf:
            ctx.disagree("collection", case, {k: r[k] for k in ("label", "dtype", "labels")}, hr, "restored attributes")
            return
        for k, (a, b) in enumerate(zip(r["fields"], h)):
            exp = atoms_to_values(a["data"], flat)
            got = np.array(b.data).ravel()
            if exp.shape != got.shape or not np.array_equal(exp, got):
                ctx.disagree("collection", case, {"field": k, "data": exp.tolist()[:12]}, {"data": got.tolist()[:12]}, "restored data")
                return

    req = {"mode": mode, "label": cs["label"], "dtype": dt, "n": int(flat.size),
           "fields": [{"fcls": fsp["fcls"], "grid": margs(cs["grid"]), "label": lb, "dtype": dt}
                      for fsp, lb in zip(cs["fields"], labels)]}
    P.add("c14.collection", req, cont)
    return c


COLL_TAMPERS = ["no-fields", "drop-fields", "data-size", "extra-key", "class-other", "field-class-unknown", "dtype-unknown"]


def leg_malformed_collection(ctx, P, cs, rng, salt, fixed=None):
    """`fixed = (kind, tam)`: the recorded tampering (replay); otherwise drawn from `rng`"""
    from pde.fields.base import FieldBase
    c = build_collection(cs, salt)
    mode = mode_of(cs["grid"])
    enc = q if mode == "Q" else fbits
    flat = np.array(c.data).ravel()
    kind = fixed[0] if fixed is not None else rng.choice(COLL_TAMPERS)
    attrs = dict(c.attributes_serialized)
    tam, ndata = None, int(flat.size)
    if fixed is not None and kind not in ("data-size", "field-class-unknown"):
        tam = fixed[1]
    elif kind == "no-fields":
        tam = {"set": ["fields", []]}
    elif kind == "drop-fields":
        tam = {"drop": "fields"}
    elif kind == "data-size":
        ndata = flat.size + 1
    elif kind == "extra-key":
        tam = {"set": [rng.choice(["bogus", "grid2"]), 1]}
    elif kind == "class-other":
        tam = {"set": ["class", "FieldCollection2"]}
    elif kind == "dtype-unknown":
        tam = {"set": ["dtype", "<q7"]}
    if tam is not None:
        if "drop" in tam:
            attrs.pop(tam["drop"], None)
        if "set" in tam:
            attrs[tam["set"][0]] = json.dumps(tam["set"][1])
    freq = None
    if kind == "field-class-unknown":
        fl = json.loads(attrs["fields"])
        fl[-1]["class"] = json.dumps("NoSuchField")
        attrs["fields"] = json.dumps(fl)
    data = np.array(c.data) if ndata == flat.size else np.arange(ndata, dtype=float)
    case = {"leg": "malformed-collection", "collection": cs, "salt": salt, "tamper": kind, "tam": tam}
    ctx.count(case, nontrivial=False, leg="malformed-collection")
    ctx.hist("malformed-collection", kind)
    try:
        if kind == "class-other":
            import pde
            h = pde.FieldCollection.from_state(pde.FieldCollection.unserialize_attributes(attrs), data=data)
        else:
            h = FieldBase.from_state(FieldBase.unserialize_attributes(attrs), data=data)
        outcome = {"ok": coll_rec(h)}
    except Exception as e:  # noqa: BLE001
        outcome = {"err": exc_name(e)}
    ctx.hist("malformed-collection-outcome", outcome.get("err", "collection"))
    ctx.monitor_evals += 1
    if "ok" in outcome:
        ctx.monitor_fail("malformed-collection", case, outcome, "an error", f"FieldCollection: tampered attributes ({kind}) accepted",
                         key={"leg": "malformed-collection", "tamper": kind})

    def cont(resp):
        m = expect_ok(ctx, resp, "malformed-collection", case)
        if m is None:
            return
        ctx.impl_traces += 1
        r = m["result"]
        if ("err" in r) != ("err" in outcome) or r.get("err") != outcome.get("err"):
            ctx.disagree("malformed-collection", case, r.get("err", "ok"), outcome.get("err", "ok"), "error class")

    dt = coll_dtype(cs)
    labels = coll_labels(cs)
    fields = [{"fcls": fsp["fcls"], "grid": margs(cs["grid"]), "label": lb, "dtype": dt} for fsp, lb in zip(cs["fields"], labels)]
    req = {"mode": mode, "label": cs["label"], "dtype": dt, "n": ndata, "fields": fields}
    if tam is not None:
        req["tamper"] = {k: (v if k == "drop" else [v[0], py_to_tree(v[1], enc)]) for k, v in tam.items()}
    if kind == "field-class-unknown":
        req["tamper_last_field_class"] = "NoSuchField"
    _ = freq
    P.add("c14.collection", req, cont)


# ------------------------------------------------------------------------------------------
# from_data
def gen_fromdata(rng, gspec):
    k = rng.choice([1, 2, 3, 3, 4, 4, 5])
    classes = [rng.choice(["scalar", "vector", "tensor2"]) for _ in range(k)]
    ddt = rng.choice(DTYPES)
    dt = rng.choice([None, None, None, "<f8", "<f4", "<c16"])
    if dt is not None and np.dtype(dt).kind != "c" and np.dtype(ddt).kind == "c":
        dt = None
    return {"grid": gspec, "classes": classes, "with_ghost": rng.random() < 0.5, "label": rng.choice(LABELS),
            "labels": rng.choice([None, None, [rng.choice(LABELS) for _ in range(k)]]), "dtype": dt, "data_dtype": ddt,
            "drop": 0}


def fromdata_array(fd, g, salt):
    ncomp = sum(g.dim ** RANK[c] for c in fd["classes"]) - fd.get("drop", 0)
    shape = tuple(n + 2 for n in g.shape) if fd["with_ghost"] else tuple(g.shape)
    n = ncomp * int(np.prod(shape))
    return make_values(n, fd["data_dtype"], salt).reshape((ncomp,) + shape)


def old_from_data(classes, grid, data, with_ghost):
    """the loop of `FieldCollection.from_data` as it was before 2bf9c99 (`num_axes ** rank`), run on the
    real field classes; returns the component arrays of every field"""
    fields = []
    start = 0
    for field_class_ in classes:
        field = field_class_(grid, dtype=data.dtype)
        end = start + grid.num_axes ** field.rank
        if with_ghost:
            field._data_flat = data[start:end]
        else:
            field.data.flat = data[start:end].flat
        fields.append(field)
        start = end
    return fields


def comps_of(field, with_ghost):
    """component arrays of a field in row-major order"""
    a = field._data_full if with_ghost else field.data
    k = field.grid.num_axes
    return a.reshape((-1,) + a.shape[a.ndim - k:])


def leg_fromdata(ctx, P, fd, salt):
    import pde
    g = build(fd["grid"])
    mode = mode_of(fd["grid"])
    classes = [field_class(c) for c in fd["classes"]]
    data = fromdata_array(fd, g, salt)
    case = {"leg": "fromdata", "fromdata": fd, "salt": salt}
    sym = g.dim != g.num_axes and any(RANK[c] >= 1 for c in fd["classes"])
    ctx.count(case, nontrivial=(len(classes) > 1 or sym or RANK[fd["classes"][0]] > 0) and not fd.get("drop"), leg="fromdata")
    ctx.hist("fromdata", f"{fd['grid']['cls']}/{''.join(str(RANK[c]) for c in fd['classes'])}/{'ghost' if fd['with_ghost'] else 'valid'}")
    ctx.hist("fromdata-dtype", f"{fd['data_dtype']}->{fd['dtype']}")
    ctx.hist("fromdata-symmetric-axes-with-rank>=1", sym)
    kw = {"with_ghost_cells": fd["with_ghost"], "label": fd["label"], "labels": fd["labels"],
          "dtype": None if fd["dtype"] is None else np.dtype(fd["dtype"])}
    try:
        with warnings.catch_warnings():
            warnings.simplefilter("error", np.exceptions.ComplexWarning)
            c = pde.FieldCollection.from_data(classes, g, np.array(data), **kw)
    except Exception as e:  # noqa: BLE001
        c = e
    # ---- monitor: every component of every field is the corresponding slab of the array ------------
    ctx.monitor_evals += 1
    bad = None
    valid = (slice(None),) + tuple(slice(1, -1) for _ in g.shape) if fd["with_ghost"] else (slice(None),)
    if fd.get("drop"):
        # a short array (malformed stream): the statement cannot hold for the missing components; what is judged is
        # that every component array that IS present lands in its own place (never in another field or component)
        if not isinstance(c, Exception):
            start = 0
            for k, (f, cl) in enumerate(zip(c, classes)):
                ncmp = g.dim ** cl.rank
                have = comps_of(f, fd["with_ghost"])
                for j in range(max(0, min(ncmp, data.shape[0] - start, len(have)))):
                    if have[j].shape != data[start + j].shape or not np.array_equal(have[j], data[start + j]):
                        bad = f"short array: component {j} of field {k} is not array {start + j}"
                        break
                if bad:
                    break
                start += ncmp
    elif isinstance(c, Exception):
        bad = f"raised {exc_name(c)}: {c}"
    else:
        exp_dt = fd["dtype"] or ("<c16" if np.dtype(fd["data_dtype"]).kind == "c" else "<f8")
        start = 0
        if len(c) != len(classes):
            bad = f"{len(c)} fields instead of {len(classes)}"
        for k, (f, cl) in enumerate(zip([] if bad else c, classes)):
            ncmp = g.dim ** cl.rank
            block = data[start:start + ncmp][valid].reshape((g.dim,) * cl.rank + tuple(g.shape))
            if type(f) is not cl:
                bad = f"field {k} is a {type(f).__name__}"
            elif f.data.shape != block.shape:
                bad = f"field {k} has data shape {f.data.shape} instead of {block.shape}"
            elif not np.array_equal(f.data, block):
                idx = tuple(int(i) for i in np.argwhere(f.data != block)[0])
                bad = f"field {k}: entry {idx} is {f.data[idx]!r} instead of {block[idx]!r}"
            elif fd["with_ghost"] and not np.array_equal(comps_of(f, True), data[start:start + ncmp]):
                bad = f"field {k}: ghost cells differ from the array"
            elif f.label != (fd["labels"][k] if fd["labels"] else None):
                bad = f"field {k}: label {f.label!r}"
            elif not np.shares_memory(f._data_full, c._data_full):
                bad = f"field {k} is not linked to the collection"
            if bad:
                break
            start += ncmp
        if not bad and np.dtype(c.dtype).str != exp_dt:
            bad = f"dtype {np.dtype(c.dtype).str} instead of {exp_dt}"
        if not bad and c.label != fd["label"]:
            bad = f"label {c.label!r} instead of {fd['label']!r}"
        if not bad and grid_identical(g, c.grid) is not None:
            bad = "grid differs"
        if not bad:
            # and back: the collection's own array reproduces the collection
            again = pde.FieldCollection.from_data(classes, g, c._data_full if fd["with_ghost"] else c.data,
                                                  with_ghost_cells=fd["with_ghost"], labels=list(c.labels), label=c.label,
                                                  dtype=c.dtype)
            if not (again == c) or list(again.labels) != list(c.labels) or np.dtype(again.dtype) != np.dtype(c.dtype):
                bad = "from_data(collection's own array) differs from the collection"
    if bad:
        key = {"grid_class": type(g).__name__, "leg": "fromdata"}
        if sym and ("reshape" in bad or "shape" in bad or "entry" in bad or "IndexError" in bad):
            key.update(K_FROMDATA)
        if np.dtype(fd["data_dtype"]).kind == "c" and not fd["with_ghost"] and ("entry" in bad or "ComplexWarning" in bad or "dtype" in bad):
            key.update(K_COMPLEX)
        ctx.monitor_fail("fromdata", case, {"problem": bad}, "every component of every field equals its slab of the array",
                         f"{type(g).__name__}: FieldCollection.from_data misplaces or loses data", key=key)
    # ---- the pre-fix loop on the real classes (replays the witness of the regression theorem) -------
    try:
        old = [comps_of(f, fd["with_ghost"]) for f in old_from_data(classes, g, np.array(data), fd["with_ghost"])]
    except Exception as e:  # noqa: BLE001
        old = e

    def check(mres, impl_fields, impl_exc, what):
        r = mres["result"]
        if "err" in r or impl_exc is not None:
            if "err" not in r or impl_exc is None or exc_name(impl_exc) != r["err"]:
                ctx.disagree("fromdata", case, r.get("err", "ok"), exc_name(impl_exc) if impl_exc is not None else "ok", what)
            return None
        r = r["ok"]
        if len(r["fields"]) != len(impl_fields):
            ctx.disagree("fromdata", case, len(r["fields"]), len(impl_fields), what + ": number of fields")
            return None
        for k, (a, comps) in enumerate(zip(r["fields"], impl_fields)):
            if len(a["comps"]) != len(comps):
                ctx.disagree("fromdata", case, {"field": k, "ncomps": len(a["comps"])}, {"ncomps": len(comps)}, what)
                return None
            for j, ((i, real), arr) in enumerate(zip(a["comps"], comps)):
                src = data[i] if i >= 0 else np.zeros_like(data[0])
                if real and np.iscomplexobj(src):
                    src = src.real
                if arr.shape != src.shape or not np.array_equal(arr, src):
                    ctx.disagree("fromdata", case, {"field": k, "component": j, "is_array": i}, "different array", what)
                    return None
        return r

    def cont(resp):
        m = expect_ok(ctx, resp, "fromdata", case)
        if m is None:
            return
        ctx.impl_traces += 1
        if isinstance(c, Exception):
            r = check(m, None, c, "from_data")
        else:
            r = check(m, [comps_of(f, fd["with_ghost"]) for f in c], None, "from_data")
            if r is not None:
                if r["dtype"] != np.dtype(c.dtype).str or r["label"] != c.label or [a["label"] for a in r["fields"]] != list(c.labels) \
                        or [a["fcls"] for a in r["fields"]] != [FCLS[type(f).__name__] for f in c]:
                    ctx.disagree("fromdata", case, {k: r[k] for k in ("dtype", "label")}, coll_rec(c), "attributes of the collection")
                if m["slices"] != [[s.start, s.stop] for s in c._slices]:
                    ctx.disagree("fromdata", case, m["slices"], [[s.start, s.stop] for s in c._slices], "_slices")
        if m["dim"] != g.dim or m["num_axes"] != g.num_axes:
            ctx.disagree("fromdata", case, [m["dim"], m["num_axes"]], [g.dim, g.num_axes], "dim / num_axes")

    def cont_old(resp):
        m = expect_ok(ctx, resp, "fromdata", case)
        if m is None:
            return
        ctx.impl_traces += 1
        if isinstance(old, Exception):
            check(m, None, old, "pre-fix loop (num_axes ** rank)")
        else:
            check(m, old, None, "pre-fix loop (num_axes ** rank)")

    req = {"mode": mode, "grid": margs(fd["grid"]), "classes": fd["classes"], "ncomp": int(data.shape[0]),
           "with_ghost": fd["with_ghost"], "label": fd["label"], "labels": fd["labels"], "dtype": fd["dtype"],
           "data_dtype": fd["data_dtype"]}
    P.add("c14.fromdata", req, cont)
    if not fd.get("drop"):
        P.add("c14.fromdata", dict(req, old=True, labels=None, dtype=None), cont_old)


# ------------------------------------------------------------------------------------------
# ------------------------------------------------------------------------------------------
# leg: the instance (axes names, attributes stored by __init__, `_cache_methods`) - Model/GridCache.lean
CPROPS = ["cell_volume_data", "cell_volumes", "coordinate_arrays", "cell_coords", "uniform_cell_volumes"]
IROUTES = {"from_state": "from_state", "from_json": "from_json", "copy()": "copy", "copy.copy": "copy",
           "copy.deepcopy": "copy", "pickle": "pickle", "pickle-protocol-2": "pickle"}


def gen_plan(rng, spec):
    """which cached properties are read before the round trip, which route, which are read afterwards"""
    big = int(np.prod(spec["shape"])) > 600
    pool = ["cell_volume_data", "uniform_cell_volumes"] if big else CPROPS
    reads = [rng.choice(pool) for _ in range(rng.randrange(0, 4))]
    reads2 = [rng.choice(pool) for _ in range(rng.randrange(1, 4))]
    return {"reads": reads, "route": rng.choice(sorted(IROUTES)), "reads2": reads2}


def cache_keys(g):
    """names in `_cache_methods` that hold a value"""
    return sorted(k for k, v in getattr(g, "_cache_methods", {}).items() if len(v))


def prop_value(g, name):
    """a cached property of the real grid in the layout of the model (`CVal`)"""
    v = getattr(g, name)
    if name == "uniform_cell_volumes":
        return bool(v)
    if name == "cell_volumes":
        return np.asarray(v, dtype=float).ravel()
    if name == "cell_volume_data":
        return [np.broadcast_to(np.asarray(a, dtype=float), (n,)).copy() for a, n in zip(v, g.shape)]
    if name == "coordinate_arrays":
        return [np.asarray(a, dtype=float).ravel() for a in v]
    if name == "cell_coords":
        return list(np.asarray(v, dtype=float).reshape(-1, g.num_axes))
    raise KeyError(name)


def same_value(a, b):
    if isinstance(a, bool) or isinstance(b, bool):
        return a is b
    if isinstance(a, list):
        return isinstance(b, list) and len(a) == len(b) and all(np.array_equal(x, y) for x, y in zip(a, b))
    return np.array_equal(a, b)


def restore_by(g, route):
    from pde.grids.base import GridBase
    if route == "from_state":
        return type(g).from_state(g.state)
    if route == "from_json":
        return GridBase.from_state(g.state_serialized)
    if route == "copy()":
        return g.copy()
    if route == "copy.copy":
        return copy.copy(g)
    if route == "copy.deepcopy":
        return copy.deepcopy(g)
    if route == "pickle":
        return pickle.loads(pickle.dumps(g))
    if route == "pickle-protocol-2":
        return pickle.loads(pickle.dumps(g, protocol=2))
    raise KeyError(route)


def inst_rec(g):
    return {"axes": list(g.axes), "axes_symmetric": list(g.axes_symmetric), "num_axes": int(g.num_axes),
            "keys": cache_keys(g)}


def leg_instance(ctx, P, spec, plan):
    """warm some cached properties, restore the grid, read properties of the restored grid: monitor = the
    restored instance answers like a FRESHLY constructed one (names, stored coordinates, every property);
    correspondence = names, `num_axes`, the entries of `_cache_methods` at every stage and the values against
    `GridInst` of the model"""
    mode = mode_of(spec)
    case = {"leg": "instance", "grid": spec, "plan": plan}
    ctx.count(case, nontrivial=bool(plan["reads"]) or nontrivial_grid(spec), leg="instance")
    ctx.hist("instance-route", plan["route"])
    ctx.hist("instance-reads", f"{len(plan['reads'])} before/{len(plan['reads2'])} after")
    g = build(spec)
    fresh = build(spec)
    r0 = inst_rec(g)
    vals1 = [prop_value(g, n) for n in plan["reads"]]
    r1 = inst_rec(g)
    h = restore_by(g, plan["route"])
    r2 = inst_rec(h)
    vals2 = [prop_value(h, n) for n in plan["reads2"]]
    r3 = inst_rec(h)
    # ---- monitor (real objects only) -----------------------------------------------------------------------
    ctx.monitor_evals += 1
    bad = None
    if list(h.axes) != list(fresh.axes) or list(h.axes_symmetric) != list(fresh.axes_symmetric):
        bad = f"axes {h.axes}+{h.axes_symmetric} instead of {fresh.axes}+{fresh.axes_symmetric}"
    elif h.num_axes != fresh.num_axes or h.dim != fresh.dim:
        bad = f"num_axes/dim {h.num_axes}/{h.dim} instead of {fresh.num_axes}/{fresh.dim}"
    elif len(h.axes_coords) != len(fresh.axes_coords) or not all(
            np.array_equal(a, b) for a, b in zip(h.axes_coords, fresh.axes_coords)):
        bad = "stored axes_coords differ from a fresh construction"
    elif not np.array_equal(h.discretization, fresh.discretization):
        bad = "stored discretization differs from a fresh construction"
    else:
        for n, v in zip(plan["reads2"], vals2):
            if not same_value(v, prop_value(fresh, n)):
                bad = f"{n} of the restored grid differs from a fresh construction"
                break
        else:
            for n, v in zip(plan["reads"], vals1):
                if not same_value(v, prop_value(fresh, n)) or not same_value(prop_value(g, n), v):
                    bad = f"{n} of the original grid differs from a fresh construction / changed by the round trip"
                    break
    if bad:
        ctx.monitor_fail("instance", case, {"problem": bad, "restored": inst_rec(h), "fresh": inst_rec(fresh)},
                         "the restored grid has the axes names, stored coordinates and (cached) derived attributes "
                         "of a freshly constructed one", f"{type(g).__name__}: {plan['route']}: {bad}",
                         key={"grid_class": type(g).__name__, "leg": "instance", "route": plan["route"],
                              "symptom": bad.split(" of ")[0] if " of the " in bad else bad.split(" ")[0]})

    def cont(resp):
        m = expect_ok(ctx, resp, "instance", case)
        if m is None:
            return
        ctx.impl_traces += 1
        if "err" in m or "restore_err" in m:
            ctx.disagree("instance", case, m, r2, "the model rejects a grid / a round trip the package performs")
            return
        for stage, real in (("constructed", r0), ("after_reads", r1), ("restored", r2), ("after_reads2", r3)):
            mm = m[stage]
            got = {"axes": mm["axes"], "axes_symmetric": mm["axes_symmetric"], "num_axes": mm["num_axes"],
                   "keys": sorted(mm["keys"])}
            if got != real:
                ctx.disagree("instance", dict(case, stage=stage), got, real,
                             f"instance {stage}: axes names / num_axes / entries of _cache_methods")
        if mode != "Q":
            return
        dec = lambda x: float(unq(x))
        for which, names, vals in (("values", plan["reads"], vals1), ("values2", plan["reads2"], vals2)):
            for (mn, mv), n, v in zip(m[which], names, vals):
                if mn != n:
                    ctx.disagree("instance", case, mn, n, "order of the reads")
                    continue
                if isinstance(v, bool):
                    ok = mv is v
                elif isinstance(v, list):
                    ok = len(mv) == len(v) and all(len(a) == len(b) for a, b in zip(mv, v))
                    if ok and v:
                        sc = max(max((float(np.max(np.abs(b), initial=0.0)) for b in v), default=0.0), 1e-300)
                        ok = all(bool(np.all(np.abs(np.array([dec(x) for x in a], dtype=float)
                                                    - np.asarray(b, dtype=float)) <= 1e-11 * sc))
                                 for a, b in zip(mv, v))
                else:
                    ma = np.array([dec(x) for x in mv], dtype=float)
                    sc = max(float(np.max(np.abs(v), initial=0.0)), 1e-300)
                    ok = ma.shape == v.shape and bool(np.all(np.abs(ma - v) <= 1e-11 * sc))
                if not ok:
                    ctx.disagree("instance", dict(case, prop=n, stage=which), str(mv)[:300],
                                 str(v if isinstance(v, bool) else [np.asarray(x).tolist() for x in v][:4]
                                     if isinstance(v, list) else v.tolist()[:8])[:300], f"value of {n}")

    P.add("c14.instance", {"mode": mode, "grid": margs(spec), "pi": (q if mode == "Q" else fbits)(PI),
                           "reads": plan["reads"], "route": IROUTES[plan["route"]], "reads2": plan["reads2"]}, cont)


def _guard(ctx, leg, spec, fn, extra=None):
    """run one leg; an exception raised *inside the real code* on a valid input is a failure of the
    property on that input (reported with the whole input of the leg: `extra` holds what the leg
    needs besides the grid, so that the crash can be replayed), one raised by the harness is a
    broken check"""
    import traceback
    from harness.common import paths
    try:
        return fn()
    except Exception as e:  # noqa: BLE001
        tb = traceback.extract_tb(e.__traceback__)
        last = tb[-1].filename if tb else ""
        inside = last.startswith(paths.REPO) and "harness" not in last
        if not inside and not any(f.filename.startswith(paths.REPO + "/pde") for f in tb):
            raise
        case = {"leg": leg, "grid": spec}
        case.update(extra or {})
        case["crash"] = True
        ctx.count(case, nontrivial=False, leg="crash")
        ctx.monitor_evals += 1
        where = next((f for f in reversed(tb) if f.filename.startswith(paths.REPO)), tb[-1])
        ctx.monitor_fail(leg, case, f"{exc_name(e)}: {e} at {where.filename}:{where.lineno}",
                         "no exception on a valid object", f"{(spec or {}).get('cls')}: real code raised in leg {leg}",
                         key={"grid_class": (spec or {}).get("cls"), "leg": leg, "symptom": "raises"})
        return None


REGRESSION_GRIDS = [
    # F4 (fixed f7b9cbf): annular cylinder, periodic in z, integer-typed arguments
    {"cls": "cylindrical", "radius": [1.0, 3.0], "bounds_z": [0.0, 10.0], "shape": [4, 5], "periodic": [False, True],
     "mode": "dyadic", "style": {"radius": "tuple", "num": "int", "shape": "tuple", "bounds_z": "tuple", "numz": "int",
                                 "periodic_z": "bool"}},
    {"cls": "cylindrical", "radius": [0.1, 0.3], "bounds_z": [-2.5, 1.0], "shape": [3, 3], "periodic": [False, False],
     "mode": "decimal", "style": {"radius": "list", "num": "float", "shape": "int", "bounds_z": "list", "numz": "float",
                                  "periodic_z": "int"}},
    # numpy-typed arguments (fixed d5fc009, 2da5570)
    {"cls": "cartesian", "bounds": [[0.0, 1.0]], "shape": [4], "periodic": [True], "mode": "dyadic",
     "style": {"shape": "int", "periodic": "ndarray", "bounds": "list", "num": "int"}},
    {"cls": "unit", "shape": [4, 2], "periodic": [True, False], "mode": "dyadic",
     "style": {"shape": "ndarray", "periodic": "ndarray"}},
    {"cls": "polar", "radius": [1.0, 3.0], "shape": [4], "periodic": [False], "mode": "dyadic",
     "style": {"radius": "ndarray", "num": "npint", "shape": "int"}},
    {"cls": "spherical", "radius": [0.5, 2.0], "shape": [4], "periodic": [False], "mode": "dyadic",
     "style": {"radius": "tuple", "num": "np32", "shape": "list"}},
    {"cls": "cylindrical", "radius": [1.0, 3.0], "bounds_z": [0.0, 10.0], "shape": [4, 5], "periodic": [False, True],
     "mode": "dyadic", "style": {"radius": "ndarray", "num": "npint", "shape": "ndarray", "bounds_z": "ndarray",
                                 "numz": "npint", "periodic_z": "npbool"}},
    # float32 axial bounds (fixed 3391559): the discretisation must use the stored double bounds
    {"cls": "cylindrical", "radius": [0.0, 3.25], "bounds_z": [float(np.float32(0.1)), float(np.float32(0.7))],
     "shape": [2, 3], "periodic": [False, False], "mode": "decimal",
     "style": {"radius": "scalar", "num": "float", "shape": "list", "bounds_z": "tuple", "numz": "np32", "periodic_z": "bool"}},
    # inner radius given as zero in a pair; reversed Cartesian bounds; upper bounds only
    {"cls": "polar", "radius": [0.0, 3.0], "shape": [1], "periodic": [False], "mode": "dyadic",
     "style": {"radius": "tuple", "num": "int", "shape": "int"}},
    {"cls": "cartesian", "bounds": [[2.0, -1.0], [0.0, 0.5]], "shape": [3, 3], "periodic": [False, True],
     "mode": "dyadic", "style": {"shape": "int", "periodic": "list", "bounds": "tuple", "num": "float"}},
    {"cls": "cartesian", "bounds": [[0.0, 2.0], [0.0, 3.0], [0.0, 0.5]], "shape": [2, 1, 3], "periodic": [True, True, False],
     "mode": "dyadic", "style": {"shape": "list", "periodic": "tuple", "bounds": "upper", "num": "float"}},
]

CLASSES = ["unit", "cartesian", "cartesian", "polar", "spherical", "cylindrical", "cylindrical"]


def grid_legs(ctx, P, spec, rng):
    if _guard(ctx, "construct", spec, lambda: build(spec)) is None:
        return False
    _guard(ctx, "grid", spec, lambda: leg_grid(ctx, P, spec))
    kind, other = perturb(rng, spec)      # harness code only: drawn outside the guard so that a crash records the pair
    _guard(ctx, "equality", spec, lambda: leg_equality(ctx, P, spec, rng, pair=(kind, other)),
           extra={"other": other, "kind": kind})
    _guard(ctx, "malformed-grid", spec, lambda: leg_malformed_grid(ctx, P, spec, rng))
    plan = gen_plan(rng, spec)            # drawn outside the guard (recorded with a crash)
    _guard(ctx, "instance", spec, lambda: leg_instance(ctx, P, spec, plan), extra={"plan": plan})
    return True


# more than three Cartesian axes: the coordinate names change from `x, y, z` to `a, b, c, ...` (leg `instance` only)
HIGHDIM_GRIDS = [
    {"cls": "unit", "shape": [1, 2, 1, 2], "periodic": [True, False, True, False], "mode": "dyadic",
     "style": {"shape": "list", "periodic": "list"}},
    {"cls": "unit", "shape": [2, 1, 1, 2, 3], "periodic": [False, False, True, False, True], "mode": "dyadic",
     "style": {"shape": "tuple", "periodic": "tuple"}},
    {"cls": "cartesian", "bounds": [[0.0, 1.0], [-1.0, 1.0], [0.0, 2.0], [0.5, 1.5]], "shape": [2, 1, 2, 1],
     "periodic": [False, True, False, False], "mode": "dyadic",
     "style": {"shape": "list", "periodic": "list", "bounds": "list", "num": "float"}},
]


REGRESSION_FROMDATA = [
    # F8 (fixed 2bf9c99): scalar/vector/tensor mix on grids with symmetric axes
    ("polar", {"classes": ["scalar", "vector", "tensor2", "scalar"], "with_ghost": True, "label": None, "labels": None,
               "dtype": None, "data_dtype": "<f8", "drop": 0}),
    ("spherical", {"classes": ["vector", "scalar"], "with_ghost": False, "label": "c", "labels": ["v", "s"],
                   "dtype": None, "data_dtype": "<f8", "drop": 0}),
    ("cylindrical", {"classes": ["tensor2", "vector"], "with_ghost": True, "label": None, "labels": None,
                     "dtype": None, "data_dtype": "<f4", "drop": 0}),
    # complex data without ghost cells (fixed 4d70481)
    ("unit", {"classes": ["scalar"], "with_ghost": False, "label": None, "labels": None, "dtype": None,
              "data_dtype": "<c16", "drop": 0}),
    ("cylindrical", {"classes": ["scalar", "vector"], "with_ghost": False, "label": None, "labels": None,
                     "dtype": "<c16", "data_dtype": "<c8", "drop": 0}),
]


def field_legs(ctx, P, spec, rng):
    sspec = small(spec, rng)
    if _guard(ctx, "construct", sspec, lambda: build(sspec)) is None:
        return
    salt = rng.randrange(8)
    fs = gen_field(rng, sspec)
    # (a crash inside a malformed-* leg can only come from building the valid object or from its
    # attributes_serialized - the tampered call itself is inside try/except -, so the field/collection
    # specification is the whole input of the crash)
    _guard(ctx, "field", sspec, lambda: leg_field(ctx, P, fs, salt), extra={"field": fs, "salt": salt})
    if rng.random() < 0.5:
        _guard(ctx, "malformed-field", sspec, lambda: leg_malformed_field(ctx, P, fs, rng, salt),
               extra={"field": fs, "salt": salt})
    cs = gen_collection(rng, sspec)
    _guard(ctx, "collection", sspec, lambda: leg_collection(ctx, P, cs, salt), extra={"collection": cs, "salt": salt})
    if rng.random() < 0.3:
        _guard(ctx, "malformed-collection", sspec, lambda: leg_malformed_collection(ctx, P, cs, rng, salt),
               extra={"collection": cs, "salt": salt})
    fd = gen_fromdata(rng, sspec)
    _guard(ctx, "fromdata", sspec, lambda: leg_fromdata(ctx, P, fd, salt), extra={"fromdata": fd, "salt": salt})
    if rng.random() < 0.2:
        fd2 = dict(fd, drop=rng.choice([1, 1, 2]), labels=None)
        if sum(build(sspec).dim ** RANK[c] for c in fd2["classes"]) > fd2["drop"]:
            _guard(ctx, "fromdata", sspec, lambda: leg_fromdata(ctx, P, fd2, salt), extra={"fromdata": fd2, "salt": salt})


def run(ctx):
    warnings.simplefilter("ignore", DeprecationWarning)
    warnings.simplefilter("ignore", RuntimeWarning)        # casts of uninitialised ghost cells
    rng = ctx.rng
    P = Pending(ctx)
    n_grids = ctx.budget(1500, 20000)
    for spec in REGRESSION_GRIDS:
        ctx.hist("stream", "regression")
        grid_legs(ctx, P, spec, rng)
        field_legs(ctx, P, spec, rng)
    for cls, fd in REGRESSION_FROMDATA:
        spec = next(s for s in REGRESSION_GRIDS if s["cls"] == cls)
        sspec = small(spec, rng)
        fd = dict(fd, grid=sspec)
        _guard(ctx, "fromdata", sspec, lambda: leg_fromdata(ctx, P, fd, 1), extra={"fromdata": fd, "salt": 1})
    for spec in HIGHDIM_GRIDS:
        ctx.hist("stream", "high-dimensional")
        for _ in range(4):
            plan = gen_plan(rng, spec)
            _guard(ctx, "instance", spec, lambda: leg_instance(ctx, P, spec, plan), extra={"plan": plan})
    for i in range(n_grids):
        cls = CLASSES[i % len(CLASSES)]
        mode = "dyadic" if rng.random() < 0.5 else "decimal"
        spec = gen_grid(rng, cls, mode)
        if i < 20:
            spec["shape"] = [1] * len(spec["shape"])
            spec = fix_style(spec)
            if spec["style"].get("shape") == "int" and len(spec["shape"]) > 2:
                pass
        ctx.hist("stream", "random")
        if grid_legs(ctx, P, spec, rng):
            field_legs(ctx, P, spec, rng)
        if (i + 1) % 1500 == 0:
            P.run()
    P.run()
    # ---- floor on the coverage: an empty leg is a broken check, not a pass ------------------------------
    need = ["grid", "instance", "equality", "malformed-grid", "field", "malformed-field", "collection", "malformed-collection", "fromdata"]
    short = {k: ctx.legs.get(k, 0) for k in need if ctx.legs.get(k, 0) < (n_grids // 20 if k.startswith("malformed-") or k == "equality" else n_grids // 2)}
    if not ctx.monitor_failures and (short or ctx.monitor_evals < 10 * n_grids or ctx.impl_traces < 3 * n_grids):
        from harness.common.lean import BrokenCheck
        raise BrokenCheck(f"C14 coverage floor not met: legs below their floor {short}, monitor evaluations "
                          f"{ctx.monitor_evals}, model comparisons {ctx.impl_traces} for {n_grids} grids")


def search(ctx, broken):
    """failing-input search after a broken correspondence: the monitors of every leg on the
    specifications of the disagreeing cases and on a fresh larger sample"""
    from harness.common.context import Ctx
    warnings.simplefilter("ignore", DeprecationWarning)
    sub = Ctx(ctx.pid, ctx.tier, ctx.seed, ctx.workdir)
    sub.rng = ctx.sub_rng("search")
    P = NoModel()
    for d in broken[:60]:
        c = d.get("case") if isinstance(d, dict) else None
        if isinstance(c, dict):
            try:
                _guard(sub, c.get("leg"), c.get("grid"), lambda c=c: _replay_case(sub, P, c, sub.rng),
                       extra={k: v for k, v in c.items() if k not in ("leg", "grid")})
            except Exception:  # noqa: BLE001  (harness-side problem with a recorded case: go on searching)
                pass
        if sub.monitor_failures:
            return sub.monitor_failures[:1]
    for i in range(1500):
        cls = CLASSES[i % len(CLASSES)]
        spec = gen_grid(sub.rng, cls, "dyadic" if i % 2 else "decimal")
        try:
            if grid_legs(sub, P, spec, sub.rng):
                field_legs(sub, P, spec, sub.rng)
        except Exception:  # noqa: BLE001
            pass
        if sub.monitor_failures:
            return sub.monitor_failures[:1]
    return []


class NotReplayable(Exception):
    pass


def _need(c, *keys):
    missing = [k for k in keys if k not in c]
    if missing:
        raise NotReplayable(f"the recorded case of leg {c.get('leg')!r} lacks {missing}")


def _replay_case(sub, P, c, rng):
    """re-run the RECORDED input of one case (same leg, same specification, same second grid / tampered tree /
    tampering) on the real code; `rng` is only used by code paths that draw nothing for a recorded input"""
    leg = c.get("leg")
    _need(c, "grid") if leg in ("grid", "construct", "equality", "malformed-grid") else None
    spec = c.get("grid")
    if leg in ("grid", "construct"):
        leg_grid(sub, P, spec, geometry=False)
    elif leg == "equality":
        _need(c, "other", "kind")
        leg_equality(sub, P, spec, rng, pair=(c["kind"], c["other"]))
    elif leg == "malformed-grid":
        if c.get("crash"):
            sub.monitor_evals += 1
            build(spec).state     # the only real-code calls of this leg outside try/except
            return
        _need(c, "tamper", "tree", "via")
        leg_malformed_grid(sub, P, spec, rng, fixed=[(c["tamper"], c["tree"], c["via"])])
    elif leg == "instance":
        _need(c, "grid", "plan")
        leg_instance(sub, P, spec, c["plan"])
    elif leg == "field":
        _need(c, "field")
        leg_field(sub, P, c["field"], c.get("salt", 0))
    elif leg == "malformed-field":
        _need(c, "field")
        if c.get("crash"):
            sub.monitor_evals += 1
            build_field(c["field"], build(c["field"]["grid"]), c.get("salt", 0)).attributes_serialized
            return
        _need(c, "tamper", "tam")
        leg_malformed_field(sub, P, c["field"], rng, c.get("salt", 0), fixed=[(c["tamper"], c["tam"])])
    elif leg == "collection":
        _need(c, "collection")
        leg_collection(sub, P, c["collection"], c.get("salt", 0))
    elif leg == "malformed-collection":
        _need(c, "collection")
        if c.get("crash"):
            sub.monitor_evals += 1
            build_collection(c["collection"], c.get("salt", 0)).attributes_serialized
            return
        _need(c, "tamper", "tam")
        leg_malformed_collection(sub, P, c["collection"], rng, c.get("salt", 0), fixed=(c["tamper"], c["tam"]))
    elif leg == "fromdata":
        _need(c, "fromdata")
        leg_fromdata(sub, P, c["fromdata"], c.get("salt", 0))
    else:
        raise NotReplayable(f"unknown leg {leg!r}")


def replay(ctx, rep):
    """re-run the recorded case of a replay file on the real code (monitors only) and judge it: False iff a
    monitor still fails on the recorded input (or the file cannot be replayed, which is said explicitly)"""
    from harness.common.context import Ctx
    warnings.simplefilter("ignore", DeprecationWarning)
    warnings.simplefilter("ignore", RuntimeWarning)
    c = rep.get("case")
    if not isinstance(c, dict):
        print("cannot be replayed: the file records no case")
        return False
    sub = Ctx(ctx.pid, ctx.tier, ctx.seed, ctx.workdir)
    try:
        _guard(sub, c.get("leg"), c.get("grid"), lambda: _replay_case(sub, NoModel(), c, ctx.sub_rng("replay")),
               extra={k: v for k, v in c.items() if k not in ("leg", "grid")})
    except NotReplayable as e:
        print("cannot be replayed:", e)
        return False
    route = c.get("route")
    fails = sub.monitor_failures
    for mf in fails[:4]:
        print("monitor FAILS:", mf["what"], "route", mf["case"].get("route"), json.dumps(mf["observed"], default=str)[:600])
    if not fails:
        print(f"monitor: holds on the recorded input ({sub.monitor_evals} evaluations)")
        return True
    if route is not None and all(mf["case"].get("route") != route for mf in fails):
        print(f"note: the recorded route ({route}) no longer fails, but the property still fails on the recorded input "
              "through the routes above")
    return False
