"""C03 - every route to the same operator-with-BC result agrees.

For random (grid, operator, boundary conditions, field) the result is obtained by every public route:
field method, grid.make_operator on the numba backend (and the scipy backend where it registers the
operator), make_operator_no_bc after the interpreted set_ghost_cells, the same after the compiled
ghost-cell setter, the sparse-matrix representation used by the Poisson solvers (Laplacian), with
and without an `out` array; numba kernels with source semantics (NUMBA_DISABLE_JIT=1) and JIT-compiled;
and, above a lowered multithreading threshold, with 1, 2 and 16 threads in separate processes.
All routes must agree pairwise (1e-10) and with the Lean model (ghost cells by `BC.setGhostAll`,
kernel by `Stencil`) evaluated over exact rationals; thread runs must be bit-identical.
Extractor E2 checks on every run that each `nb.prange` loop of the numba operator files writes only the
output cell of its own iteration and reads `out` nowhere else - the hypothesis of the
schedule-independence theorem."""
import ast
import os
from fractions import Fraction

import numpy as np

from harness import c02, c01
from harness.common.num import q, unq
from harness.common.isolated import run_many
from harness.common import paths

PID = "C03"
LEVEL = "proof"
REQUIRED_THEOREMS = [
    "parallel_schedule_independent", "kernel_schedule_independent", "chunked_schedule_independent",
    "runWrites_kernel_value", "out_route_eq", "ghost_route_order_irrelevant", "matrix_route_eq_stencil_route",
]
RULE = ("seed-derived (grid class, shape, operator with options, per-side boundary conditions of any class incl. "
        "expressions and per-face arrays, integer field data); every case is evaluated through all routes that exist for "
        "it; distinct by the whole case, non-trivial if the field is not constant; thread leg: 2-d/3-d grids above the "
        "lowered multithreading threshold x {1, 2, 16} threads")
ASSUMPTIONS = [
    "the real thread scheduler of numba is runtime behaviour the model cannot exhibit; validated by multi-process thread runs",
    "routes compared at 1e-10 relative to max|result| + max|data|/dx_min^2",
]
TRUSTED_EXTRA = ["extractor E2 (Python ast walk over pde/backends/numba/operators/*.py) establishes the kernel-shape hypothesis of the schedule theorem"]

CLS = c01.DIM and {"UnitGrid": "cart", "CartesianGrid": "cart", "PolarSymGrid": "polar", "SphericalSymGrid": "sph", "CylindricalSymGrid": "cyl"}
OPS_BY_RANK = {0: ["laplace", "gradient", "gradient_squared"], 1: ["divergence", "vector_gradient", "vector_laplace"], 2: ["tensor_divergence"]}


# ------------------------------------------------------------------------------------------
# extractor E2
def e2_check():
    """returns list of problems found in prange loops"""
    problems, loops = [], 0
    d = os.path.join(paths.REPO, "pde", "backends", "numba", "operators")
    for fn in sorted(os.listdir(d)):
        if not fn.endswith(".py"):
            continue
        tree = ast.parse(open(os.path.join(d, fn)).read())
        for node in ast.walk(tree):
            if isinstance(node, ast.For) and isinstance(node.iter, ast.Call) and \
                    isinstance(node.iter.func, ast.Attribute) and node.iter.func.attr == "prange":
                loops += 1
                idx = node.target.id
                out_names = {"out"}
                # aliases like out_r, out_z = out  /  out_rr = out[0, 0]
                for fnode in ast.walk(tree):
                    if isinstance(fnode, ast.FunctionDef) and node in ast.walk(fnode):
                        for st in ast.walk(fnode):
                            if isinstance(st, ast.Assign):
                                src = ast.unparse(st.value)
                                if src == "out" or src.startswith("out["):
                                    for t in st.targets:
                                        for n in ast.walk(t):
                                            if isinstance(n, ast.Name):
                                                out_names.add(n.id)
                for sub in ast.walk(node):
                    if isinstance(sub, (ast.Assign, ast.AugAssign)):
                        targets = sub.targets if isinstance(sub, ast.Assign) else [sub.target]
                        for t in targets:
                            if isinstance(t, ast.Subscript) and isinstance(t.value, ast.Name):
                                name = t.value.id
                                text = ast.unparse(t.slice)
                                if name in out_names:
                                    if f"{idx} - 1" not in text:
                                        problems.append(f"{fn}:{sub.lineno}: write to {name}[{text}] does not use own index {idx}-1")
                                elif name.startswith("arr"):
                                    problems.append(f"{fn}:{sub.lineno}: kernel writes its input {name}[{text}]")
                    if isinstance(sub, ast.Subscript) and isinstance(sub.ctx, ast.Load) and isinstance(sub.value, ast.Name) \
                            and sub.value.id in out_names:
                        text = ast.unparse(sub.slice)
                        if f"{idx} - 1" not in text:
                            problems.append(f"{fn}:{sub.lineno}: kernel reads {sub.value.id}[{text}] of another iteration")
    return loops, problems


# ------------------------------------------------------------------------------------------
def gen_case(rng, hist, force_op=None):
    while True:
        c = c02.gen_case(rng, lambda *a, **k: None)
        cls = CLS[c["grid"]["cls"]]
        if force_op is not None:
            if force_op not in OPS_BY_RANK[c["rank"]]:
                continue
            op = force_op
        else:
            op = rng.choice(OPS_BY_RANK[c["rank"]])
        if op not in c01.OPS[cls]:
            continue
        if op not in ("divergence", "tensor_divergence") and any(s["normal"] for s in c["sides"].values()):
            # normal-only conditions leave the other components' virtual points undefined; operators that
            # read them (vector_gradient, vector_laplace) have no defined result to compare
            continue
        opts = dict(rng.choice(c01.OPS[cls][op]))
        if cls == "sph" and c["rank"] >= 1:
            opts["safe"] = False
        c["op"], c["opts"], c["cls"] = op, opts, cls
        return c


def real_routes(arg):
    import logging
    import importlib
    import pde
    from pde import get_backend
    from pde.backends.numba.utils import numba_dict

    logging.getLogger("pde").setLevel(logging.ERROR)
    case, jit = arg
    grid = c02.make_grid(case["grid"])
    rank, op, opts, t = case["rank"], case["op"], case["opts"], case["t"]
    rout = c01.RANKS[op][1]
    fcls = [pde.ScalarField, pde.VectorField, pde.Tensor2Field][rank]
    valid = tuple([slice(None)] * rank + [slice(1, -1)] * grid.num_axes)
    data = case["data"][valid].copy()
    out = {}
    oshape = (grid.dim,) * rout + tuple(grid.shape)

    def attempt(name, fn):
        try:
            out[name] = np.array(fn(), dtype=float)
        except Exception as e:  # noqa
            out[name] = f"EXC {type(e).__name__}: {e}"[:300]

    f = fcls(grid, data=data.copy())
    attempt("field.apply_operator", lambda: f.apply_operator(op, bc=case["spec"], args={"t": t}, **opts).data)
    if op in ("laplace", "gradient", "divergence", "gradient_squared", "vector_gradient", "vector_laplace", "tensor_divergence"):
        meth = {"laplace": "laplace", "gradient": "gradient", "divergence": "divergence", "gradient_squared": "gradient_squared",
                "vector_gradient": "gradient", "vector_laplace": "laplace", "tensor_divergence": "divergence"}[op]
        attempt("field." + meth, lambda: getattr(f, meth)(bc=case["spec"], args={"t": t}, **opts).data)
    nb_op = None
    try:
        nb_op = grid.make_operator(op, bc=case["spec"], backend="numba", **opts)
    except Exception as e:  # noqa
        out["make_operator(numba)"] = f"EXC {type(e).__name__}: {e}"[:300]
    if nb_op is not None:
        attempt("make_operator(numba)", lambda: nb_op(data.copy(), args=numba_dict(t=float(t))))

        def with_out():
            o = np.full(oshape, -777.0)
            r = nb_op(data.copy(), out=o, args=numba_dict(t=float(t)))
            assert r is o or np.shares_memory(r, o) or r is None
            return o
        attempt("make_operator(numba,out=)", with_out)
    if case["cls"] == "cart" and op in c01.SCIPY_OPS and opts.get("method", "central") == "central" \
            and (op not in ("laplace", "vector_laplace") or len(set(np.round(grid.discretization, 12))) == 1):
        def scipy_route():
            sp_op = grid.make_operator(op, bc=case["spec"], backend="scipy", **opts)
            return sp_op(data.copy(), args={"t": float(t)})
        attempt("make_operator(scipy)", scipy_route)
    bcs = grid.get_boundary_conditions(case["spec"], rank=rank)
    no_bc = grid.make_operator_no_bc(op, backend="numba", **opts)

    def nobc_interp():
        full = case["data"].copy().astype(float)
        bcs.set_ghost_cells(full, args={"t": t})
        o = np.full(oshape, np.nan)
        no_bc(full, o)
        return o
    attempt("set_ghost_cells+no_bc", nobc_interp)

    def nobc_compiled():
        full = case["data"].copy().astype(float)
        get_backend("numba").make_ghost_cell_setter(bcs)(full, args=numba_dict(t=float(t)))
        o = np.full(oshape, np.nan)
        no_bc(full, o)
        return o
    attempt("compiled_setter+no_bc", nobc_compiled)
    if op == "laplace" and not any(s["kind"].startswith("expr") for s in case["sides"].values()):
        def matrix_route():
            mod = importlib.import_module("pde.backends.scipy.operators." + {"cart": "cartesian", "polar": "polar_sym", "sph": "spherical_sym", "cyl": "cylindrical_sym"}[case["cls"]])
            if case["cls"] == "sph" and not opts.get("conservative", True):
                raise LookupError("matrix route implements the conservative stencil only")
            m, v = mod._get_laplace_matrix(bcs)
            return (m.tocsc().dot(data.ravel()) + v.toarray()[:, 0]).reshape(grid.shape)
        attempt("sparse-matrix", matrix_route)
        if isinstance(out.get("sparse-matrix"), str) and "conservative stencil only" in out["sparse-matrix"]:
            del out["sparse-matrix"]
    return out


def complex_routes(arg):
    """complex field data: the routes must agree with each other, and the real part must be the result for the
    real part of the data (the conditions have real values)"""
    import logging
    import pde
    from pde import get_backend
    from pde.backends.numba.utils import numba_dict

    logging.getLogger("pde").setLevel(logging.ERROR)
    case, seed = arg
    grid = c02.make_grid(case["grid"])
    rank, op, opts, t = case["rank"], case["op"], case["opts"], case["t"]
    rout = c01.RANKS[op][1]
    fcls = [pde.ScalarField, pde.VectorField, pde.Tensor2Field][rank]
    valid = tuple([slice(None)] * rank + [slice(1, -1)] * grid.num_axes)
    a = case["data"][valid].astype(float)
    rs = np.random.RandomState(seed)
    b = rs.randint(-9, 10, a.shape).astype(float)
    if case["cls"] == "sph" and rank >= 1:
        b[1:] = 0
    z = a + 1j * b
    out = {}
    f = fcls(grid, data=z.copy(), dtype=complex)
    out["field"] = np.array(f.apply_operator(op, bc=case["spec"], args={"t": t}, **opts).data)
    nb_op = grid.make_operator(op, bc=case["spec"], backend="numba", dtype=complex, **opts)
    out["make_operator"] = np.array(nb_op(z.copy(), args=numba_dict(t=float(t))))
    bcs = grid.get_boundary_conditions(case["spec"], rank=rank)
    no_bc = grid.make_operator_no_bc(op, backend="numba", dtype=complex, **opts)
    full = np.zeros(case["data"].shape, dtype=complex)
    full[valid] = z
    bcs.set_ghost_cells(full, args={"t": t})
    o = np.full((grid.dim,) * rout + tuple(grid.shape), np.nan, dtype=complex)
    no_bc(full, o)
    out["set_ghost_cells+no_bc"] = o
    fr = fcls(grid, data=a.copy())
    out["real-reference"] = np.array(fr.apply_operator(op, bc=case["spec"], args={"t": t}, **opts).data)
    return out


def thread_case(arg):
    """results of three operators on a grid above the (lowered) threshold with the configured thread count"""
    import pde
    import numba

    shape, seed, nt = arg
    if nt:
        numba.set_num_threads(nt)
    pde.config["backend.numba.multithreading"] = "always"
    pde.config["backend.numba.multithreading_threshold"] = 16
    rs = np.random.RandomState(seed)
    res = {"threads": numba.get_num_threads()}
    if len(shape) == 2:
        g = pde.CartesianGrid([[0, 3], [-1, 2]], shape, periodic=[False, True])
        bc = {"x-": {"value": 1.5}, "x+": {"derivative": -0.5}, "y": "periodic"}
        bcv = {"x": {"value": [1.0, 2.0]}, "y": "periodic"}
    else:
        g = pde.CartesianGrid([[0, 3], [-1, 2], [0, 1]], shape)
        bc = {"x": {"value": 1.5}, "y": {"derivative": 0.25}, "z": {"curvature": 0.1}}
        bcv = {"x": {"value": 1.0}, "y": {"derivative": 0.25}, "z": {"value": 0.0}}
    f = pde.ScalarField(g, rs.uniform(-1, 1, g.shape))
    v = pde.VectorField(g, rs.uniform(-1, 1, (g.dim,) + tuple(g.shape)))
    res["laplace"] = f.laplace(bc).data.tobytes()
    res["gradient"] = f.gradient(bc).data.tobytes()
    res["divergence"] = v.divergence(bcv).data.tobytes()
    res["gradient_squared"] = f.gradient_squared(bc).data.tobytes()
    gc = pde.CylindricalSymGrid(2.0, (0, 3), [shape[0], shape[1]])
    fc = pde.ScalarField(gc, rs.uniform(-1, 1, gc.shape))
    res["cyl-laplace"] = fc.laplace({"r": {"derivative": 0}, "z": {"value": 1}}).data.tobytes()
    return res


def model_request(case):
    r = c02.model_request(case)
    g = case["grid"]
    cfg = {"cls": case["cls"], "shape": g["shape"], "lo": [q(b[0]) for b in g["bounds"]],
           "dx": [q(Fraction(b[1] - b[0]) / n) for b, n in zip(g["bounds"], g["shape"])], "op": case["op"]}
    for k in ("method", "central", "conservative"):
        if k in case["opts"]:
            cfg[k] = case["opts"][k]
    return {"cfg": cfg, "data": r["data"], "faces": r["faces"]}


def run(ctx):
    from harness.common.lean import LeanBatch

    rng = ctx.rng
    # ---- E2 ------------------------------------------------------------------------------------------
    loops, problems = e2_check()
    ctx.extra["E2_prange_loops_checked"] = loops
    ctx.count({"E2": loops}, nontrivial=True, leg="E2")
    for p in problems:
        ctx.disagree("E2", {"kernel": p}, "iteration writes only its own output cell and reads only the input", p,
                     "hypothesis of parallel_schedule_independent is no longer established by the source")
    if loops < 10:
        ctx.disagree("E2", {"loops": loops}, ">= 10 prange loops", loops, "extractor found too few parallel kernels")

    n = ctx.budget(180, 2500)
    cases = [gen_case(rng, ctx.hist) for _ in range(n)]
    # the Laplacian is the only operator with a fourth route (the sparse matrix of the Poisson solvers):
    # a stratum of its own so that every grid family meets that route on every run
    cases += [gen_case(rng, ctx.hist, force_op="laplace") for _ in range(ctx.budget(60, 600))]
    batch = LeanBatch(ctx.workdir)
    reqs = [batch.add("c03.apply", model_request(c)) for c in cases]
    # schedule model sanity (executes the definitions the theorem is about)
    perm = list(range(9))
    rng.shuffle(perm)
    i_s = batch.add("c03.sched", {"vals": [q(rng.randint(-5, 5)) for _ in range(9)], "perm": perm})
    answers = batch.run()
    st, val = answers[i_s]
    if st != "ok" or val[0] != val[1]:
        ctx.disagree("schedule-model", {"perm": perm}, val, None, "model executions differ")
    res_s = run_many("harness.c03", "real_routes", [(c, False) for c in cases], env={"NUMBA_DISABLE_JIT": "1"}, procs=16)
    n_j = ctx.budget(16, 240)
    jit_ids = sorted(rng.sample(range(len(cases)), min(n_j, len(cases))))
    res_j = dict(zip(jit_ids, run_many("harness.c03", "real_routes", [(cases[i], True) for i in jit_ids],
                                       env={"NUMBA_DISABLE_JIT": "0"}, procs=16)))
    for ci, (c, ri) in enumerate(zip(cases, reqs)):
        g = c["grid"]
        key = {"grid": g, "op": c["op"], "opts": c["opts"], "spec": repr(c["spec"]), "t": c["t"],
               "data": [float(x) for x in c["data"].ravel()]}
        short = {k: key[k] for k in ("grid", "op", "opts", "spec", "t")}
        ctx.count(key, nontrivial=len(set(key["data"])) > 2, leg="routes")
        ctx.hist("operator", f"{c['cls']}:{c['op']}")
        st, val = answers[ri]
        model = None
        if st == "ok":
            model = np.array([float(unq(x)) for x in val])
        else:
            ctx.disagree("routes", short, f"model error {val}", None)
        routes = {}
        for tag, rr in (("source", res_s[ci]), ("jit", res_j.get(ci))):
            if rr is None:
                continue
            if isinstance(rr, str):
                ctx.disagree("routes", short, "routes run", rr[-400:], "worker failed")
                continue
            for name, arr in rr.items():
                routes[f"{name}[{tag}]"] = arr
        ok_routes = {}
        for name, arr in routes.items():
            ctx.hist("route", name)
            ctx.impl_traces += 1
            if isinstance(arr, str):
                ctx.monitor_fail("routes", dict(short, route=name, data=key["data"]), arr, "a result",
                                 f"route {name.split('[')[0]} raised while others return a result", key={"route": name.split("[")[0], "op": c["op"]})
                continue
            ok_routes[name] = np.asarray(arr, dtype=float).ravel()
        if not ok_routes:
            continue
        dxmin = min((b[1] - b[0]) / n_ for b, n_ in zip(g["bounds"], g["shape"]))
        ref_name = next(iter(ok_routes))
        ref = ok_routes[ref_name]
        scale = 1.0 + float(np.abs(ref).max()) + float(np.abs(c["data"][np.abs(c["data"]) < 900]).max()) / dxmin ** 2
        ctx.monitor_evals += 1
        for name, arr in ok_routes.items():
            if arr.shape != ref.shape or np.abs(arr - ref).max() > 1e-10 * scale:
                i_ = int(np.argmax(np.abs(arr - ref))) if arr.shape == ref.shape else -1
                ctx.monitor_fail("routes", dict(short, data=key["data"], routes=[ref_name, name], index=i_),
                                 {ref_name: float(ref[i_]) if i_ >= 0 else list(ref.shape), name: float(arr[i_]) if i_ >= 0 else list(arr.shape)},
                                 "all routes agree to round-off", f"{c['cls']} {c['op']}: routes disagree",
                                 key={"op": c["op"], "pair": sorted([ref_name.split("[")[0], name.split("[")[0]])[-1]})
                break
        if model is not None and (model.shape != ref.shape or np.abs(model - ref).max() > 1e-10 * scale):
            i_ = int(np.argmax(np.abs(model - ref))) if model.shape == ref.shape else -1
            ctx.disagree("routes", dict(short, data=key["data"], index=i_), float(model[i_]) if i_ >= 0 else list(model.shape),
                         float(ref[i_]) if i_ >= 0 else list(ref.shape), f"model differs from route {ref_name}")

    # ---- complex data -----------------------------------------------------------------------------------
    lin = [c for c in cases if c["op"] != "gradient_squared"]
    csub = rng.sample(lin, min(ctx.budget(40, 400), len(lin)))
    res_c = run_many("harness.c03", "complex_routes", [(c, rng.randint(0, 10 ** 6)) for c in csub],
                     env={"NUMBA_DISABLE_JIT": "1"}, procs=16)
    for c, rr in zip(csub, res_c):
        short = {"grid": c["grid"], "op": c["op"], "opts": c["opts"], "spec": repr(c["spec"]), "t": c["t"], "dtype": "complex"}
        ctx.count(short, nontrivial=True, leg="complex")
        ctx.impl_traces += 1
        ctx.monitor_evals += 1
        if isinstance(rr, str):
            ctx.monitor_fail("complex", short, rr[-400:], "a result", f"{c['cls']} {c['op']}: complex data raised",
                             key={"op": c["op"], "leg": "complex"})
            continue
        ref = rr["field"]
        sc = 1.0 + float(np.abs(ref).max())
        for name in ("make_operator", "set_ghost_cells+no_bc"):
            if rr[name].shape != ref.shape or np.abs(rr[name] - ref).max() > 1e-10 * sc:
                ctx.monitor_fail("complex", dict(short, routes=["field", name]), float(np.abs(rr[name] - ref).max()),
                                 "routes agree on complex data", f"{c['cls']} {c['op']}: routes disagree on complex data",
                                 key={"op": c["op"], "leg": "complex"})
        if np.abs(ref.real - rr["real-reference"]).max() > 1e-10 * sc:
            ctx.monitor_fail("complex", short, float(np.abs(ref.real - rr["real-reference"]).max()),
                             "real part of the complex result = result of the real part",
                             f"{c['cls']} {c['op']}: complex and real evaluation differ", key={"op": c["op"], "leg": "complex-vs-real"})

    # ---- threads ---------------------------------------------------------------------------------------
    shapes = [[12, 10]] + ([[6, 5, 4]] if ctx.tier == "thorough" else [])
    seed = rng.randint(0, 10 ** 6)
    for shape in shapes:
        rr = run_many("harness.c03", "thread_case", [(shape, seed, nt) for nt in (1, 2, 16)],
                      env={"NUMBA_DISABLE_JIT": "0", "NUMBA_NUM_THREADS": "16"}, procs=3)
        runs = dict(zip((1, 2, 16), rr))
        r_serial = run_many("harness.c03", "thread_case", [(shape, seed, 0)], env={"NUMBA_DISABLE_JIT": "1"}, procs=1)[0]
        for nt, r in runs.items():
            ctx.count({"threads": nt, "shape": shape, "seed": seed}, nontrivial=True, leg="threads")
            ctx.hist("threads", f"{nt}:{'x'.join(map(str, shape))}")
            ctx.impl_traces += 1
            if isinstance(r, str):
                ctx.disagree("threads", {"threads": nt, "shape": shape}, "runs", r[-400:], "thread run failed")
                continue
            ctx.monitor_evals += 1
            for k in ("laplace", "gradient", "divergence", "gradient_squared", "cyl-laplace"):
                if r[k] != runs[1][k]:
                    a, b = np.frombuffer(r[k]), np.frombuffer(runs[1][k])
                    ctx.monitor_fail("threads", {"threads": nt, "shape": shape, "seed": seed, "op": k},
                                     {"max_abs_diff": float(np.abs(a - b).max())}, "bit-identical to the single-thread run",
                                     f"{k}: multi-threaded result differs from serial", key={"op": k, "leg": "threads"})
                if not isinstance(r_serial, str):
                    a, b = np.frombuffer(r[k]), np.frombuffer(r_serial[k])
                    if np.abs(a - b).max() > 1e-11 * (1 + np.abs(b).max()):
                        ctx.monitor_fail("threads", {"threads": nt, "shape": shape, "seed": seed, "op": k},
                                         {"max_abs_diff": float(np.abs(a - b).max())}, "equal to the source-semantics run",
                                         f"{k}: compiled parallel kernel differs from its source semantics", key={"op": k, "leg": "threads-vs-source"})


def replay(ctx, rep):
    """re-evaluate the recorded case through all routes of the real code and compare them pairwise"""
    c = rep["case"]
    if "data" not in c or "grid" not in c:
        print("thread / extractor case:", c)
        return False
    g = c["grid"]
    spec = eval(c["spec"], {"array": np.array, "nan": float("nan"), "inf": float("inf")})
    cls = CLS[g["cls"]]
    rank = c01.RANKS[c["op"]][0]
    dim = c01.DIM.get(cls, len(g["shape"]))
    data = np.array(c["data"]).reshape([dim] * rank + [n + 2 for n in g["shape"]])
    case = {"grid": g, "rank": rank, "op": c["op"], "opts": c["opts"], "t": c["t"], "spec": spec, "data": data, "cls": cls,
            "sides": {}}
    # the sparse-matrix route needs to know whether expression conditions are present
    case["sides"] = {0: {"kind": "expr" if "expression" in c["spec"] or "expr" in c["spec"] else "const"}}
    res = real_routes((case, False))
    ok_routes = {k: np.asarray(v, dtype=float).ravel() for k, v in res.items() if not isinstance(v, str)}
    for k, v in res.items():
        if isinstance(v, str):
            print(f"route {k}: {v}")
    ref_name = next(iter(ok_routes))
    ref = ok_routes[ref_name]
    ok = all(not isinstance(v, str) for v in res.values())
    for k, v in ok_routes.items():
        d = float(np.abs(v - ref).max()) if v.shape == ref.shape else float("inf")
        print(f"route {k}: max |difference to {ref_name}| = {d:.3g}")
        ok = ok and d <= 1e-10 * (1 + float(np.abs(ref).max()) + 1e3)
    return ok
