"""C03 - every route to the same operator-with-BC result agrees.

For random (grid, operator, boundary conditions, field) the result is obtained by every public route:
field methods (`apply_operator` and the named method; with the specification, with the `BoundariesList`
object, with `out=` a field, with an explicit `backend=` for every backend that registers the operator),
`grid.make_operator` on the numba backend and on the scipy backend where it registers the operator (each with
and without an `out` array and with the `BoundariesList` object), `make_operator_no_bc` after the interpreted
`set_ghost_cells`, the same after the compiled ghost-cell setter, the sparse-matrix representation used by the
Poisson solvers (Laplacian); numba kernels with source semantics (NUMBA_DISABLE_JIT=1) and JIT-compiled.
All routes must agree pairwise (1e-10; a non-finite value is a difference) and with the Lean model (ghost
cells by `BC.setGhostAll`, kernel by `Stencil`) evaluated over exact rationals.

Thread leg: every operator with an `nb.prange` kernel (2-d and 3-d Cartesian, cylindrical) on grids above the
lowered multithreading threshold with 1, 2 and 16 threads in separate processes: bit-identical to each other,
equal to the source-semantics run, and the leg asserts that the kernels really were compiled with
`parallel=True` and contain parallel loops (dispatcher target options and parfor diagnostics).

Schedule leg (tie of `Model/ParLoop` to the code): the real kernel source is executed (source semantics) with
its `nb.prange` iterations in a random permutation, on instrumented arrays that log every element write and
read.  Checked on the real trace: the hypotheses of `parallel_schedule_independent` (pairwise distinct written
cells, `out` never read, the input never written), the permuted result is bit-identical to the serial one, and
the Lean model `ParLoop.runWrites` on the logged write list (in permuted and in serial order) reproduces it.

Extractor E2 checks on every run that each `nb.prange` loop of the package writes only the output cell of its
own iteration, reads `out` nowhere else, writes no other array and calls no helper - the static form of the
same hypothesis."""
import ast
import os
from fractions import Fraction

import numpy as np

from harness import c02, c01
from harness.common.num import q, unq, far, arr_far
from harness.common.isolated import run_many
from harness.common import paths

PID = "C03"
LEVEL = "proof"
# C03b: compiled ghost-cell setter (sequential loops, chain) = interpreted setter, as two model definitions proved equal;
# C18b: matrix route = stencil route on the array the setter produces
EXTRA_PROP_FILES = ["C03b", "C03c", "C03d", "C18b"]
REQUIRED_THEOREMS = [
    "chain_eq_foldl", "setGhostLoop_apply", "points_sound", "points_complete", "compiledLocal_eq_setGhost",
    "compiled_setter_eq_interpreted", "compiled_setter_eq_interpreted_scalar", "readLog_compiledSetterLog",
    "compiledSetterLog_eq_interpreted",
    "runKernel_separate", "wrapperRoute_out_irrelevant", "wrapperRoute_aliased_eq_fresh", "fieldRoute_separate_out",
    "fieldRoute_aliased_out_differs",
    "cart1_matrix_eq_laplace_after_setter", "polar_matrix_eq_laplace_after_setter", "polar_disk_matrix_eq_laplace_after_setter",
    "sph_matrix_eq_laplace_after_setter", "sph_ball_matrix_eq_laplace_after_setter", "cart2_matrix_eq_laplace_after_setter",
    "cyl_matrix_eq_laplace_after_setter", "cart3_matrix_eq_laplace_after_setter",
    "parallel_schedule_independent", "kernel_schedule_independent", "chunked_schedule_independent",
    "runWrites_kernel_value", "out_route_eq", "ghost_route_order_irrelevant",
    "bernstein_schedule_independent", "runBodies_kernel", "schedule_dependent_if_out_is_read", "schedule_dependent_if_cells_shared",
    "matrix_route_eq_stencil_route", "matrix_route_eq_stencil_route_cart2", "matrix_route_eq_stencil_route_cart3",
    "matrix_route_eq_stencil_route_polar", "matrix_route_eq_stencil_route_polar_disk", "matrix_route_eq_stencil_route_sph",
    "matrix_route_eq_stencil_route_sph_ball", "matrix_route_eq_stencil_route_cyl",
]
RULE = ("seed-derived (grid class, shape, operator with options, per-side boundary conditions of any class incl. "
        "expressions and per-face arrays, integer field data); every case is evaluated through all routes that exist for "
        "it; distinct by the whole case, non-trivial if the field is not constant; thread leg: every operator with a prange "
        "kernel on 2-d/3-d Cartesian and cylindrical grids above the lowered multithreading threshold x {1, 2, 16} threads; "
        "schedule leg: the same operators, real kernel source under a seed-derived permutation of the prange iterations")
ASSUMPTIONS = [
    "the real thread scheduler of numba is runtime behaviour the model cannot exhibit; validated by multi-process thread runs "
    "(with the assertion that the kernels were compiled parallel) and by permuted-order execution of the kernel source",
    "routes compared at 1e-10 relative to max|result| + max|data|/dx_min^2",
]
TRUSTED_EXTRA = ["extractor E2 (Python ast walk over every nb.prange loop under pde/) establishes the kernel-shape hypothesis of the "
                 "schedule theorem statically; the schedule leg re-establishes it dynamically on logged element accesses"]
MIN_LEGS = {"routes": 100, "threads": 9, "schedule": 15, "complex": 20, "setter": 60, "alias": 40, "userbc": 30}

CLS = c01.DIM and {"UnitGrid": "cart", "CartesianGrid": "cart", "PolarSymGrid": "polar", "SphericalSymGrid": "sph", "CylindricalSymGrid": "cyl"}
OPS_BY_RANK = {0: ["laplace", "gradient", "gradient_squared"], 1: ["divergence", "vector_gradient", "vector_laplace"], 2: ["tensor_divergence"]}
METHOD_OF = {"laplace": "laplace", "gradient": "gradient", "divergence": "divergence", "gradient_squared": "gradient_squared",
             "vector_gradient": "gradient", "vector_laplace": "laplace", "tensor_divergence": "divergence"}
NINE_POINT = list(getattr(c01, "NINE_POINT", []))
MATRIX_MODS = {"cart": "cartesian", "polar": "polar_sym", "sph": "spherical_sym", "cyl": "cylindrical_sym"}
EVAL_ENV = {"array": np.array, "nan": float("nan"), "inf": float("inf")}


# ------------------------------------------------------------------------------------------
# extractor E2
PURE_CALLS = {"range", "nb.prange", "numba.prange", "prange", "abs", "min", "max", "float", "int"}


def _is_own_index(node, idx):
    """`idx - 1` exactly (the output cell of iteration `idx`: the loops run over the padded indices 1..n)"""
    return (isinstance(node, ast.BinOp) and isinstance(node.op, ast.Sub) and isinstance(node.left, ast.Name)
            and node.left.id == idx and isinstance(node.right, ast.Constant) and node.right.value == 1)


def _slice_elems(sl):
    return list(sl.elts) if isinstance(sl, ast.Tuple) else [sl]


def e2_check(root=None):
    """-> (number of prange loops that write arrays, list of problems); walks every .py file under pde/"""
    problems, loops = [], 0
    root = root or os.path.join(paths.REPO, "pde")
    for dirpath, _dirs, files in sorted(os.walk(root)):
        for fn in sorted(files):
            if not fn.endswith(".py"):
                continue
            path = os.path.join(dirpath, fn)
            rel = os.path.relpath(path, root)
            try:
                tree = ast.parse(open(path).read())
            except SyntaxError as e:  # noqa
                problems.append(f"{rel}: cannot be parsed: {e}")
                continue
            funcs = [n for n in ast.walk(tree) if isinstance(n, ast.FunctionDef)]
            for node in ast.walk(tree):
                if not (isinstance(node, ast.For) and isinstance(node.iter, ast.Call) and
                        ast.unparse(node.iter.func) in ("nb.prange", "numba.prange", "prange")):
                    continue
                if not isinstance(node.target, ast.Name):
                    problems.append(f"{rel}:{node.lineno}: prange loop without a simple index variable")
                    continue
                idx = node.target.id
                stores = [s for s in ast.walk(node) if isinstance(s, ast.Subscript) and isinstance(s.ctx, ast.Store)]
                if not stores:
                    # a loop without array writes (the scalar reduction numba compiles to probe the threading layer)
                    if any(isinstance(s, ast.Subscript) for s in ast.walk(node)):
                        problems.append(f"{rel}:{node.lineno}: prange loop reads arrays but writes none (reduction?)")
                    continue
                loops += 1
                # innermost enclosing function: its second parameter is the output array
                encl = [f for f in funcs if any(n is node for n in ast.walk(f))]
                encl.sort(key=lambda f: sum(1 for _ in ast.walk(f)))
                out_names = {"out"}
                if encl:
                    a = encl[0].args.args
                    if len(a) >= 2:
                        out_names.add(a[1].arg)
                    # aliases like `out_r, out_z = out` / `out_rr = out[0, 0]`
                    def _is_out(v):
                        if isinstance(v, ast.Tuple):
                            return bool(v.elts) and all(_is_out(e) for e in v.elts)
                        if isinstance(v, ast.Subscript):
                            return _is_out(v.value)
                        return isinstance(v, ast.Name) and v.id in out_names
                    for st in ast.walk(encl[0]):
                        if isinstance(st, ast.Assign) and _is_out(st.value):
                            for t in st.targets:
                                for n in ast.walk(t):
                                    if isinstance(n, ast.Name):
                                        out_names.add(n.id)
                for sub in ast.walk(node):
                    if isinstance(sub, ast.Subscript) and isinstance(sub.value, ast.Name):
                        name, text = sub.value.id, ast.unparse(sub.slice)
                        own = any(_is_own_index(e, idx) for e in _slice_elems(sub.slice))
                        if isinstance(sub.ctx, ast.Store):
                            if name not in out_names:
                                problems.append(f"{rel}:{sub.lineno}: parallel loop writes {name}[{text}], which is not the output array")
                            elif not own:
                                problems.append(f"{rel}:{sub.lineno}: write to {name}[{text}] does not use own index {idx}-1")
                        elif name in out_names and not own:
                            problems.append(f"{rel}:{sub.lineno}: kernel reads {name}[{text}] of another iteration")
                    elif isinstance(sub, ast.Subscript) and isinstance(sub.ctx, ast.Store):
                        problems.append(f"{rel}:{sub.lineno}: parallel loop writes through {ast.unparse(sub.value)}[...]")
                    if isinstance(sub, ast.Call) and sub is not node.iter and ast.unparse(sub.func) not in PURE_CALLS:
                        problems.append(f"{rel}:{sub.lineno}: call of {ast.unparse(sub.func)}(...) inside a parallel loop is not inspected")
                    if isinstance(sub, ast.AugAssign) and isinstance(sub.target, ast.Name):
                        # accumulators must be local to one iteration: assigned inside the loop body before use
                        assigned = any(isinstance(s, ast.Assign) and any(isinstance(t, ast.Name) and t.id == sub.target.id for t in s.targets)
                                       for s in ast.walk(node))
                        if not assigned:
                            problems.append(f"{rel}:{sub.lineno}: `{sub.target.id}` accumulates across iterations of a loop that writes arrays")
    return loops, problems


# ------------------------------------------------------------------------------------------
def _finite_case(c):
    """only finite conditions with a finite virtual-point formula (Robin: 2 + dx*gamma != 0)"""
    g = c["grid"]
    try:
        for (ax, _up), s in c["sides"].items():
            for arr in (s.get("v"), s.get("c")):
                for x in arr or []:
                    Fraction(x)
            if "ixed" in s["kind"]:
                dx = Fraction(g["bounds"][ax][1] - g["bounds"][ax][0]) / g["shape"][ax]
                if any(2 + dx * Fraction(x) == 0 for x in s["v"]):
                    return False
    except (ValueError, OverflowError, TypeError):
        return False
    return True


def gen_case(rng, hist, force_op=None):
    while True:
        c = c02.gen_case(rng, lambda *a, **k: None)
        cls = CLS[c["grid"]["cls"]]
        if force_op is not None:
            if force_op not in OPS_BY_RANK[c["rank"]]:
                continue
            op = force_op
        else:
            op = rng.choice(OPS_BY_RANK[c["rank"]])
        if op not in c01.OPS[cls]:
            continue
        if op not in ("divergence", "tensor_divergence") and any(s["normal"] for s in c["sides"].values()):
            # normal-only conditions leave the other components' virtual points undefined; operators that
            # read them (vector_gradient, vector_laplace) have no defined result to compare
            continue
        if not _finite_case(c):
            continue
        optl = [o for o in c01.OPS[cls][op] if "corner_weight" not in o]
        opts = dict(rng.choice(optl))
        if cls == "cart" and op == "laplace" and len(c["grid"]["shape"]) == 2 and NINE_POINT and rng.random() < 0.3:
            opts = dict(rng.choice(NINE_POINT))   # the documented 9-point Laplacian exists for 2-d Cartesian grids only
        if cls == "sph" and c["rank"] >= 1:
            opts["safe"] = False
        c["op"], c["opts"], c["cls"] = op, opts, cls
        return c


def _has_expression_bc(bcs):
    from pde.grids.boundaries.local import ExpressionBC
    return any(isinstance(b, ExpressionBC) for ax in bcs for b in ax)


def real_routes(arg):
    """all routes of the real code for one case -> {route name: array | 'EXC ...'}; every `out` array is pre-filled
    with NaN so that a cell a route does not write is seen"""
    import logging
    import importlib
    import pde
    from pde import get_backend
    from pde.backends.numba.utils import numba_dict

    logging.getLogger("pde").setLevel(logging.ERROR)
    case, jit = arg
    grid = c02.make_grid(case["grid"])
    rank, op, opts, t, spec, cls = case["rank"], case["op"], case["opts"], case["t"], case["spec"], case["cls"]
    rout = c01.RANKS[op][1]
    fcls = [pde.ScalarField, pde.VectorField, pde.Tensor2Field]
    valid = tuple([slice(None)] * rank + [slice(1, -1)] * grid.num_axes)
    data = case["data"][valid].copy()
    out = {}
    oshape = (grid.dim,) * rout + tuple(grid.shape)
    meth = METHOD_OF[op]
    nine = "corner_weight" in opts

    def attempt(name, fn):
        try:
            out[name] = np.array(fn(), dtype=float)
        except Exception as e:  # noqa
            out[name] = f"EXC {type(e).__name__}: {e}"[:300]

    def field():
        return fcls[rank](grid, data=data.copy())

    def out_field():
        return fcls[rout](grid, data=np.full(oshape, np.nan))

    def via_out_field(call):
        o = out_field()
        r = call(o)
        assert r is o, "the returned field is not the `out` field"
        return o.data

    bcs = grid.get_boundary_conditions(spec, rank=rank)
    # ---- field methods ---------------------------------------------------------------------------------
    attempt("field.apply_operator", lambda: field().apply_operator(op, bc=spec, args={"t": t}, **opts).data)
    attempt("field." + meth, lambda: getattr(field(), meth)(bc=spec, args={"t": t}, **opts).data)
    attempt("field.apply_operator(out=)", lambda: via_out_field(
        lambda o: field().apply_operator(op, bc=spec, out=o, args={"t": t}, **opts)))
    attempt(f"field.{meth}(out=)", lambda: via_out_field(
        lambda o: getattr(field(), meth)(bc=spec, out=o, args={"t": t}, **opts)))
    attempt("field.apply_operator(bc=BoundariesList)", lambda: field().apply_operator(op, bc=bcs, args={"t": t}, **opts).data)
    attempt(f"field.{meth}(bc=BoundariesList)", lambda: getattr(field(), meth)(bc=bcs, args={"t": t}, **opts).data)
    # ---- backends ----------------------------------------------------------------------------------------
    # a backend takes part iff it registers the operator for this grid (the numpy backend registers no differential
    # operator of its own: its routes are the interpreted conditions in front of the numba kernels, i.e. the routes above)
    for bname in ("numpy", "numba", "scipy"):
        try:
            registered = op in get_backend(bname).get_registered_operators(grid)
        except Exception as e:  # noqa
            out[f"backend {bname}"] = f"EXC {type(e).__name__}: {e}"[:300]
            continue
        if not registered:
            continue
        if bname == "scipy":
            # the scipy operators take no `central`/`conservative`/`corner_weight` option, and their Laplacians are
            # documented for uniform discretizations only
            if nine or any(k not in ("method",) for k in opts):
                continue
            if op in ("laplace", "vector_laplace") and len(set(np.round(grid.discretization, 12))) != 1:
                continue
        args_b = numba_dict(t=float(t)) if bname == "numba" else {"t": float(t)}
        attempt(f"field.{meth}(backend={bname})", lambda: getattr(field(), meth)(bc=spec, backend=bname, args={"t": t}, **opts).data)
        try:
            b_op = grid.make_operator(op, bc=spec, backend=bname, **opts)
        except Exception as e:  # noqa
            out[f"make_operator({bname})"] = f"EXC {type(e).__name__}: {e}"[:300]
            continue
        attempt(f"make_operator({bname})", lambda: b_op(data.copy(), args=args_b))

        def with_out():
            o = np.full(oshape, np.nan)
            r = b_op(data.copy(), out=o, args=args_b)
            assert r is None or r is o or np.shares_memory(r, o), "result is not the `out` array"
            return o
        attempt(f"make_operator({bname},out=)", with_out)
        attempt(f"make_operator({bname},bc=BoundariesList)",
                lambda: grid.make_operator(op, bc=bcs, backend=bname, **opts)(data.copy(), args=args_b))
    # ---- ghost cells first, then the bare kernel ---------------------------------------------------------------
    no_bc = grid.make_operator_no_bc(op, backend="numba", **opts)

    def nobc_interp():
        full = case["data"].copy().astype(float)
        bcs.set_ghost_cells(full, args={"t": t})
        o = np.full(oshape, np.nan)
        no_bc(full, o)
        return o
    attempt("set_ghost_cells+no_bc", nobc_interp)

    def nobc_compiled():
        full = case["data"].copy().astype(float)
        get_backend("numba").make_ghost_cell_setter(bcs)(full, args=numba_dict(t=float(t)))
        o = np.full(oshape, np.nan)
        no_bc(full, o)
        return o
    attempt("compiled_setter+no_bc", nobc_compiled)
    # ---- the sparse matrix of the Poisson solvers ----------------------------------------------------------
    # (5-point / conservative stencils only; expression conditions have no matrix data)
    if op == "laplace" and not _has_expression_bc(bcs) and not (nine and opts["corner_weight"] != 0) \
            and not (cls == "sph" and not opts.get("conservative", True)):
        def matrix_route():
            mod = importlib.import_module("pde.backends.scipy.operators." + MATRIX_MODS[cls])
            m, v = mod._get_laplace_matrix(bcs)
            return (m.tocsc().dot(data.ravel()) + v.toarray()[:, 0]).reshape(grid.shape)
        attempt("sparse-matrix", matrix_route)
    return out


def complex_routes(arg):
    """complex field data: the routes must agree with each other, and the real part must be the result for the
    real part of the data (the conditions have real values)"""
    import logging
    import pde
    from pde.backends.numba.utils import numba_dict

    logging.getLogger("pde").setLevel(logging.ERROR)
    case, seed = arg
    grid = c02.make_grid(case["grid"])
    rank, op, opts, t = case["rank"], case["op"], case["opts"], case["t"]
    rout = c01.RANKS[op][1]
    fcls = [pde.ScalarField, pde.VectorField, pde.Tensor2Field][rank]
    valid = tuple([slice(None)] * rank + [slice(1, -1)] * grid.num_axes)
    a = case["data"][valid].astype(float)
    rs = np.random.RandomState(seed)
    b = rs.randint(-9, 10, a.shape).astype(float)
    if case["cls"] == "sph" and rank >= 1:
        b[1:] = 0
    z = a + 1j * b
    out = {}
    f = fcls(grid, data=z.copy(), dtype=complex)
    out["field"] = np.array(f.apply_operator(op, bc=case["spec"], args={"t": t}, **opts).data)
    nb_op = grid.make_operator(op, bc=case["spec"], backend="numba", dtype=complex, **opts)
    out["make_operator"] = np.array(nb_op(z.copy(), args=numba_dict(t=float(t))))
    bcs = grid.get_boundary_conditions(case["spec"], rank=rank)
    no_bc = grid.make_operator_no_bc(op, backend="numba", dtype=complex, **opts)
    full = np.zeros(case["data"].shape, dtype=complex)
    full[valid] = z
    bcs.set_ghost_cells(full, args={"t": t})
    o = np.full((grid.dim,) * rout + tuple(grid.shape), np.nan, dtype=complex)
    no_bc(full, o)
    out["set_ghost_cells+no_bc"] = o
    fr = fcls(grid, data=a.copy())
    out["real-reference"] = np.array(fr.apply_operator(op, bc=case["spec"], args={"t": t}, **opts).data)
    return out


# ------------------------------------------------------------------------------------------
# thread and schedule legs: every operator with a prange kernel
def _fam_ops(fam):
    if fam == "cart2":
        ops = [("laplace", {}), ("gradient", {"method": "central"}), ("gradient", {"method": "forward"}),
               ("gradient_squared", {"central": True}), ("gradient_squared", {"central": False}), ("divergence", {"method": "central"}),
               ("divergence", {"method": "backward"}), ("vector_gradient", {}), ("vector_laplace", {}), ("tensor_divergence", {})]
        if NINE_POINT:
            ops.insert(1, ("laplace", {"corner_weight": 0.5}))
        return ops
    if fam == "cart3":
        return [("laplace", {}), ("gradient", {"method": "central"}), ("gradient_squared", {"central": True}),
                ("gradient_squared", {"central": False}), ("divergence", {"method": "central"}), ("vector_laplace", {})]
    return [("laplace", {}), ("gradient", {}), ("gradient_squared", {"central": True}), ("gradient_squared", {"central": False}),
            ("divergence", {}), ("vector_gradient", {}), ("vector_laplace", {}), ("tensor_divergence", {})]


FAMILIES = ("cart2", "cart3", "cyl")
# operators whose full compiled route (`make_operator` with the compiled ghost-cell setter around the parallel kernel) is run too
FULL_ROUTE = {"cart2": [("laplace", {}), ("divergence", {"method": "central"})], "cart3": [("laplace", {})], "cyl": [("laplace", {})]}


def _fam_grid(fam):
    import pde
    if fam == "cart2":
        return pde.CartesianGrid([[0, 3], [-1, 2]], [12, 10], periodic=[False, True]), \
            {"x-": {"value": 1.5}, "x+": {"derivative": -0.5}, "y": "periodic"}
    if fam == "cart3":
        return pde.CartesianGrid([[0, 3], [-1, 2], [0, 1]], [4, 3, 2]), \
            {"x": {"value": 1.5}, "y": {"derivative": 0.25}, "z": {"curvature": 0.1}}
    return pde.CylindricalSymGrid((0.5, 2.0), (0, 3), [6, 4]), {"r-": {"derivative": 0.5}, "r+": {"value": 0.25}, "z": {"value": 1}}


def _op_name(op, opts):
    return op + ("" if not opts else "[" + ",".join(f"{k}={v}" for k, v in sorted(opts.items())) + "]")


def _dispatchers(fn, depth=0, seen=None):
    """numba dispatchers reachable from an operator implementation: the kernel itself or, for the vectorised Cartesian
    operators (plain Python functions around scalar kernels), through closure cells"""
    seen = seen if seen is not None else set()
    if id(fn) in seen or depth > 4:
        return []
    seen.add(id(fn))
    if hasattr(fn, "targetoptions") and hasattr(fn, "py_func"):
        return [fn]
    res = []
    for cell in getattr(fn, "__closure__", None) or ():
        try:
            v = cell.cell_contents
        except ValueError:
            continue
        for x in (v if isinstance(v, (list, tuple)) else [v]):
            if callable(x):
                res += _dispatchers(x, depth + 1, seen)
    return res


def _parallel_info(kernel):
    """[(kernel name, parallel target option, compiled signatures, parallel loops found by numba's parfor pass)]"""
    info = []
    for d in _dispatchers(kernel):
        n_par = 0
        for sig in d.signatures:
            md = getattr(d.overloads[sig], "metadata", None) or {}
            diag = md.get("parfor_diagnostics")
            if diag is not None:
                n_par += len(getattr(diag, "initial_parfors", []) or [])
        info.append((d.py_func.__qualname__, bool(d.targetoptions.get("parallel")), len(d.signatures), n_par))
    return info


def thread_case(arg):
    """results of every operator with a prange kernel on a grid above the (lowered) threshold with the configured thread
    count (nt = 0: source semantics); per operator the field route, the bare kernel and - for some - the compiled wrapper"""
    import logging
    import pde
    import numba

    logging.getLogger("pde").setLevel(logging.ERROR)
    fam, seed, nt = arg
    jit = not numba.config.DISABLE_JIT
    if nt and jit:
        numba.set_num_threads(nt)
    pde.config["backend.numba.multithreading"] = "always"
    pde.config["backend.numba.multithreading_threshold"] = 16
    rs = np.random.RandomState(seed)
    grid, bc = _fam_grid(fam)
    res = {"threads": numba.get_num_threads() if jit else 0, "jit": jit, "cells": int(np.prod(grid.shape)),
           "results": {}, "parallel": {}}
    fcls = [pde.ScalarField, pde.VectorField, pde.Tensor2Field]
    for op, opts in _fam_ops(fam):
        name = _op_name(op, opts)
        rin, rout = c01.RANKS[op]
        data = rs.uniform(-1, 1, (grid.dim,) * rin + tuple(grid.shape))
        try:
            f = fcls[rin](grid, data.copy())
            r1 = f.apply_operator(op, bc=bc, **opts).data
            kernel = grid.make_operator_no_bc(op, backend="numba", **opts)
            full = f._data_full.copy()            # ghost cells as set by the call above
            o = np.full((grid.dim,) * rout + tuple(grid.shape), np.nan)
            kernel(full, o)
            res["results"][name] = np.array(r1, dtype=float).tobytes()
            res["results"][name + "/kernel"] = o.tobytes()
            if (op, opts) in FULL_ROUTE[fam]:
                res["results"][name + "/make_operator"] = np.array(
                    grid.make_operator(op, bc=bc, backend="numba", **opts)(data.copy()), dtype=float).tobytes()
            if jit:
                res["parallel"][name] = _parallel_info(kernel)
        except Exception as e:  # noqa
            res["results"][name] = f"EXC {type(e).__name__}: {e}"[:300]
    if jit:
        try:
            res["layer"] = numba.threading_layer()
        except Exception as e:  # noqa
            res["layer"] = f"none ({e})"[:120]
    return res


class _Log:
    def __init__(self):
        self.writes, self.reads = [], []


class _Traced:
    """array proxy for executing kernel source: logs element writes and element reads by flat index of the base array;
    basic indexing that yields a sub-array (aliases such as `out_r, out_z = out`) returns a proxy of the view"""

    def __init__(self, data, ids, log):
        self._d, self._i, self._l = data, ids, log

    @property
    def shape(self):
        return self._d.shape

    def __len__(self):
        return len(self._d)

    def __iter__(self):
        for k in range(len(self._d)):
            yield self[k]

    def __getitem__(self, idx):
        d = self._d[idx]
        if isinstance(d, np.ndarray):
            return _Traced(d, self._i[idx], self._l)
        self._l.reads.append(int(self._i[idx]))
        return d

    def __setitem__(self, idx, val):
        ids = np.atleast_1d(self._i[idx]).ravel()
        vals = np.broadcast_to(np.asarray(val, dtype=float), np.shape(self._d[idx])).ravel() if ids.size > 1 else [float(val)]
        for i_, v_ in zip(ids, vals):
            self._l.writes.append((int(i_), float(v_)))
        self._d[idx] = val


def schedule_case(arg):
    """executes the real kernel source of every prange operator of one family with the prange iterations in a random
    permutation, on traced arrays (needs NUMBA_DISABLE_JIT=1) -> per operator: serial result, permuted result, logged
    writes of the permuted run, and the violations of the kernel-shape hypothesis seen in the trace"""
    import logging
    import random
    import pde
    import numba

    logging.getLogger("pde").setLevel(logging.ERROR)
    assert numba.config.DISABLE_JIT, "the schedule leg executes kernel source"
    fam, seed = arg
    pde.config["backend.numba.multithreading"] = "always"
    pde.config["backend.numba.multithreading_threshold"] = 16
    rs = np.random.RandomState(seed)
    prng = random.Random(seed)
    grid, bc = _fam_grid(fam)
    fcls = [pde.ScalarField, pde.VectorField, pde.Tensor2Field]
    orig_prange = numba.prange
    res = {}
    for op, opts in _fam_ops(fam):
        name = _op_name(op, opts)
        rin, rout = c01.RANKS[op]
        data = rs.uniform(-1, 1, (grid.dim,) * rin + tuple(grid.shape))
        rec = {}
        try:
            f = fcls[rin](grid, data.copy())
            f.set_ghost_cells(bc)
            full = f._data_full.copy()
            oshape = (grid.dim,) * rout + tuple(grid.shape)
            kernel = grid.make_operator_no_bc(op, backend="numba", **opts)
            serial = np.full(oshape, np.nan)
            full_s = full.copy()
            kernel(full_s, serial)
            orders = []

            def permuted(*a):
                idx = list(range(*a))
                prng.shuffle(idx)
                if len(idx) > 1 and idx == sorted(idx):   # never the serial order (probability 1/n! per loop otherwise)
                    idx = idx[1:] + idx[:1]
                orders.append(idx)
                return idx
            log_o, log_a = _Log(), _Log()
            perm = np.full(oshape, np.nan)
            full_p = full.copy()
            numba.prange = permuted
            try:
                kernel(_Traced(full_p, np.arange(full_p.size).reshape(full_p.shape), log_a),
                       _Traced(perm, np.arange(perm.size).reshape(perm.shape), log_o))
            finally:
                numba.prange = orig_prange
            cells = [w[0] for w in log_o.writes]
            rec = {"serial": serial.tobytes(), "permuted": perm.tobytes(), "size": int(perm.size),
                   "writes": log_o.writes, "pranges": len(orders), "iterations": sum(len(o_) for o_ in orders),
                   "identity_order": all(o_ == sorted(o_) for o_ in orders),
                   "out_reads": len(log_o.reads), "duplicate_writes": len(cells) - len(set(cells)),
                   # the 9-point Laplacian sets the four corner points of its input before the loop: writes to the
                   # input are reported with their positions
                   "input_writes": [w[0] for w in log_a.writes], "input_shape": list(full_p.shape),
                   "input_changed": not np.array_equal(full_p, full_s)}
        except Exception as e:  # noqa
            rec = {"error": f"EXC {type(e).__name__}: {e}"[:300]}
        res[name] = rec
    return res


# ------------------------------------------------------------------------------------------
def model_request(case):
    r = c02.model_request(case)
    g = case["grid"]
    cfg = {"cls": case["cls"], "shape": g["shape"], "lo": [q(b[0]) for b in g["bounds"]],
           "dx": [q(Fraction(b[1] - b[0]) / n) for b, n in zip(g["bounds"], g["shape"])], "op": case["op"]}
    for k in ("method", "central", "conservative"):
        if k in case["opts"]:
            cfg[k] = case["opts"][k]
    if "corner_weight" in case["opts"]:
        cfg["corner_weight"] = q(Fraction(case["opts"]["corner_weight"]).limit_denominator(1000))
        cfg["periodic"] = [bool(x) for x in g["periodic"]]
    return {"cfg": cfg, "data": r["data"], "faces": r["faces"]}


def case_record(c):
    """JSON-able record from which `replay` rebuilds the case"""
    return {"grid": c["grid"], "op": c["op"], "opts": c["opts"], "spec": repr(c["spec"]), "t": c["t"],
            "data": [float(x) for x in c["data"].ravel()]}


def case_from_record(r):
    g = r["grid"]
    cls = CLS[g["cls"]]
    rank = c01.RANKS[r["op"]][0]
    dim = c01.DIM.get(cls, len(g["shape"]))
    data = np.array(r["data"], dtype=float).reshape([dim] * rank + [n + 2 for n in g["shape"]])
    return {"grid": g, "rank": rank, "op": r["op"], "opts": r["opts"], "t": r["t"], "spec": eval(r["spec"], dict(EVAL_ENV)),
            "data": data, "cls": cls}


def route_scale(case):
    g = case["grid"]
    dxmin = min((b[1] - b[0]) / n_ for b, n_ in zip(g["bounds"], g["shape"]))
    d = case["data"]
    return float(np.abs(d[np.abs(d) < 900]).max()) / dxmin ** 2


def judge_routes(case, routes):
    """the route monitor: `routes` = {name[tag]: array | 'EXC ..'} -> list of (what, observed, key, extra) failures.
    Non-finite values and shape mismatches count as differences; the scale is taken from finite values only."""
    fails = []
    op, cls = case["op"], case["cls"]
    ok = {}
    for name, arr in routes.items():
        if isinstance(arr, str):
            fails.append((f"route {name.split('[')[0]} raised while others return a result", arr,
                          {"route": name.split("[")[0], "op": op}, {"route": name}))
        else:
            ok[name] = np.asarray(arr, dtype=float).ravel()
    if not ok:
        return fails, None, None
    # reference: the first route whose result is finite everywhere (a route with non-finite values fails below)
    ref_name = next((n_ for n_, a in ok.items() if np.all(np.isfinite(a))), next(iter(ok)))
    ref = ok[ref_name]
    fin = ref[np.isfinite(ref)]
    scale = 1.0 + (float(np.abs(fin).max()) if fin.size else 0.0) + route_scale(case)
    for name, arr in ok.items():
        if arr_far(arr, ref, 1e-10 * scale):
            if arr.shape == ref.shape:
                with np.errstate(invalid="ignore"):
                    d = np.abs(arr - ref)
                i_ = int(np.argmax(np.where(np.isfinite(d), d, np.inf)))
                obs = {ref_name: float(ref[i_]), name: float(arr[i_])}
            else:
                i_, obs = -1, {ref_name: list(ref.shape), name: list(arr.shape)}
            fails.append((f"{cls} {op}: routes disagree", obs,
                          {"op": op, "pair": sorted([ref_name.split("[")[0], name.split("[")[0]])[-1]},
                          {"routes": [ref_name, name], "index": i_}))
            break
    return fails, (ref_name, ref), scale


def judge_complex(case, rr):
    fails = []
    op, cls = case["op"], case["cls"]
    if isinstance(rr, str):
        return [(f"{cls} {op}: complex data raised", rr[-400:], {"op": op, "leg": "complex"})]
    ref = np.asarray(rr["field"])
    fin = np.abs(ref[np.isfinite(ref)])
    sc = 1.0 + (float(fin.max()) if fin.size else 0.0)
    for name in ("make_operator", "set_ghost_cells+no_bc"):
        if arr_far(rr[name], ref, 1e-10 * sc):
            fails.append((f"{cls} {op}: routes disagree on complex data", {"routes": ["field", name]}, {"op": op, "leg": "complex"}))
    if arr_far(ref.real, rr["real-reference"], 1e-10 * sc):
        fails.append((f"{cls} {op}: complex and real evaluation differ", "real part of the complex result != result of the real part",
                      {"op": op, "leg": "complex-vs-real"}))
    return fails


def judge_threads(fam, runs, r_serial):
    """runs = {nt: result of thread_case | 'EXC..'} -> (validity problems of the leg itself, monitor failures)"""
    problems, fails = [], []
    base = runs.get(1)
    for nt, r in runs.items():
        if isinstance(r, str):
            problems.append((nt, "runs", r[-400:], "thread run failed"))
            continue
        if r["threads"] != nt:
            problems.append((nt, f"{nt} threads", r["threads"], "numba did not take the requested thread count"))
        if r["cells"] < 16:
            problems.append((nt, ">= 16 cells", r["cells"], "grid below the lowered multithreading threshold"))
        if not isinstance(r.get("layer"), str) or r["layer"].startswith("none"):
            problems.append((nt, "a threading layer", r.get("layer"), "no parallel region was executed in this process"))
        for op, opts in _fam_ops(fam):
            name = _op_name(op, opts)
            if isinstance(r["results"].get(name), str):
                fails.append((nt, name, r["results"][name], "a result", f"{fam} {name}: operator raised in the thread leg",
                              {"op": op, "leg": "threads"}))
                continue
            info = r["parallel"].get(name) or []
            if not any(par and npar >= 1 for _n, par, _s, npar in info):
                problems.append((nt, "a kernel compiled with parallel=True containing >= 1 parallel loop", info,
                                 f"{fam} {name}: the kernel did not run in parallel - the thread comparison would be vacuous"))
        for k, blob in r["results"].items():
            if isinstance(blob, str):
                continue
            opname = k.split("/")[0].split("[")[0]
            a = np.frombuffer(blob)
            if not np.all(np.isfinite(a)):
                fails.append((nt, k, "non-finite values", "finite result", f"{fam} {k}: result contains non-finite values (unwritten cells?)",
                              {"op": opname, "leg": "threads"}))
            if isinstance(base, dict) and not isinstance(base["results"].get(k), (str, type(None))) and blob != base["results"][k]:
                b = np.frombuffer(base["results"][k])
                fails.append((nt, k, {"max_abs_diff": float(np.nanmax(np.abs(a - b))) if a.shape == b.shape else "shape"},
                              "bit-identical to the single-thread run", f"{fam} {k}: multi-threaded result differs from serial",
                              {"op": opname, "leg": "threads"}))
            if isinstance(r_serial, dict) and not isinstance(r_serial["results"].get(k), (str, type(None))):
                b = np.frombuffer(r_serial["results"][k])
                if arr_far(a, b, 1e-11 * (1 + float(np.abs(b[np.isfinite(b)]).max() if np.isfinite(b).any() else 0.0))):
                    fails.append((nt, k, {"max_abs_diff": float(np.nanmax(np.abs(a - b))) if a.shape == b.shape else "shape"},
                                  "equal to the source-semantics run", f"{fam} {k}: compiled parallel kernel differs from its source semantics",
                                  {"op": opname, "leg": "threads-vs-source"}))
        # the field route and the bare kernel are the same kernel on the same padded array
        for op, opts in _fam_ops(fam):
            name = _op_name(op, opts)
            a, b = r["results"].get(name), r["results"].get(name + "/kernel")
            if isinstance(a, bytes) and isinstance(b, bytes) and a != b:
                fails.append((nt, name, "differs", "field route = kernel on the same padded array",
                              f"{fam} {name}: field route and bare kernel differ", {"op": op, "leg": "threads-field-vs-kernel"}))
    if isinstance(r_serial, str):
        problems.append((0, "runs", r_serial[-400:], "source-semantics run failed"))
    return problems, fails


def judge_schedule(fam, name, rec):
    """hypotheses of the schedule theorem on the logged accesses of the real kernel + permuted = serial"""
    op = name.split("[")[0]
    if "error" in rec:
        return [("runs", rec["error"], f"{fam} {name}: kernel source could not be executed on traced arrays", {"op": op, "leg": "schedule"})]
    fails = []
    if rec["duplicate_writes"]:
        fails.append(("every output cell written once", f"{rec['duplicate_writes']} repeated writes",
                      f"{fam} {name}: iterations of the parallel loop write the same output cell", {"op": op, "leg": "schedule-distinct-writes"}))
    if rec["out_reads"]:
        fails.append(("`out` is never read", f"{rec['out_reads']} reads", f"{fam} {name}: kernel reads its output array",
                      {"op": op, "leg": "schedule-reads-out"}))
    shp = rec["input_shape"]
    corners = set()
    if "corner_weight" in name and len(shp) == 2:
        corners = {int(np.ravel_multi_index((i, j), shp)) for i in (0, shp[0] - 1) for j in (0, shp[1] - 1)}
    stray = [w for w in rec["input_writes"] if w not in corners]
    if stray:
        fails.append(("the input array is not written", f"writes at flat indices {stray[:6]}", f"{fam} {name}: kernel writes its input array",
                      {"op": op, "leg": "schedule-writes-input"}))
    if len({w[0] for w in rec["writes"]}) != rec["size"]:
        fails.append((f"all {rec['size']} output cells written", f"{len({w[0] for w in rec['writes']})} cells written",
                      f"{fam} {name}: kernel leaves output cells unwritten", {"op": op, "leg": "schedule-coverage"}))
    if rec["serial"] != rec["permuted"]:
        a, b = np.frombuffer(rec["serial"]), np.frombuffer(rec["permuted"])
        fails.append(("bit-identical to the serial order", {"max_abs_diff": float(np.nanmax(np.abs(a - b)))},
                      f"{fam} {name}: result depends on the order of the parallel iterations", {"op": op, "leg": "schedule-order"}))
    return fails


# ------------------------------------------------------------------------------------------
def run(ctx):
    from harness.common.lean import LeanBatch

    rng = ctx.rng
    # ---- E2 ------------------------------------------------------------------------------------------
    loops, problems = e2_check()
    ctx.extra["E2_prange_loops_checked"] = loops
    ctx.count({"E2": loops}, nontrivial=True, leg="E2")
    for p in problems:
        ctx.disagree("E2", {"kernel": p}, "iteration writes only its own output cell and reads only the input", p,
                     "hypothesis of parallel_schedule_independent is no longer established by the source")
    n_fam_loops = sum(len(_fam_ops(f)) for f in FAMILIES)
    if loops < 10:
        ctx.disagree("E2", {"loops": loops}, ">= 10 prange loops", loops, "extractor found too few parallel kernels")

    n = ctx.budget(180, 2500)
    cases = [gen_case(rng, ctx.hist) for _ in range(n)]
    # the Laplacian is the only operator with a fourth route (the sparse matrix of the Poisson solvers):
    # a stratum of its own so that every grid family meets that route on every run
    cases += [gen_case(rng, ctx.hist, force_op="laplace") for _ in range(ctx.budget(60, 600))]
    batch = LeanBatch(ctx.workdir)
    reqs = [batch.add("c03.apply", model_request(c)) for c in cases]

    # ---- schedule leg: real kernel source under permuted prange order, traced -------------------------------
    sseed = rng.randint(0, 10 ** 6)
    res_sched = run_many("harness.c03", "schedule_case", [(fam, sseed) for fam in FAMILIES], env={"NUMBA_DISABLE_JIT": "1"}, procs=3)
    sched_reqs = {}
    for fam, rr in zip(FAMILIES, res_sched):
        if isinstance(rr, str):
            ctx.disagree("schedule", {"family": fam, "seed": sseed}, "runs", rr[-400:], "schedule worker failed")
            continue
        for name, rec in rr.items():
            if "error" in rec:
                continue
            # the Lean model executes the logged writes in the (permuted) order of the real run and in sorted order
            ws = rec["writes"]
            order = sorted(range(len(ws)), key=lambda k: ws[k][0])
            sched_reqs[(fam, name)] = batch.add("c03.writes", {"size": rec["size"], "cells": [w[0] for w in ws],
                                                               "vals": [q(w[1]) for w in ws], "order": order})
    # ---- setter leg: requests (model of the *compiled* setter: sequential loops on the live array, chain) -------------
    srng = ctx.sub_rng("setter")
    scases = [c02.gen_case(srng, lambda *a, **k: None, extended=True) for _ in range(ctx.budget(140, 1500))]
    sreqs = [batch.add("c03.seqghost", c02.model_request(c)) for c in scases]
    answers = batch.run()
    setter_leg(ctx, srng, scases, sreqs, answers)
    for fam, rr in zip(FAMILIES, res_sched):
        if isinstance(rr, str):
            continue
        for name, rec in rr.items():
            case = {"family": fam, "seed": sseed, "op": name}
            ctx.count(case, nontrivial=True, leg="schedule")
            ctx.hist("schedule", f"{fam}:{name}")
            ctx.impl_traces += 1
            ctx.monitor_evals += 1
            for expected, observed, what, key in judge_schedule(fam, name, rec):
                ctx.monitor_fail("schedule", case, observed, expected, what, key=key)
            if "error" in rec:
                continue
            if rec["pranges"] < 1 or rec["identity_order"]:
                ctx.disagree("schedule", case, ">= 1 prange loop executed in a non-trivial permutation",
                             {"pranges": rec["pranges"], "identity": rec["identity_order"]},
                             "the permutation did not reach the kernel: the schedule comparison would be vacuous")
            st, val = answers[sched_reqs[(fam, name)]]
            real = np.frombuffer(rec["permuted"])
            if st != "ok":
                ctx.disagree("schedule", case, f"model error {val}", None)
                continue
            for tag, mv in (("run order", val[0]), ("sorted order", val[1])):
                model = np.array([float(unq(x)) if x is not None else np.nan for x in mv])
                if model.shape != real.shape or not np.array_equal(model, real):
                    ctx.disagree("schedule", dict(case, order=tag), "ParLoop.runWrites on the logged writes", "result of the real kernel",
                                 "model of the parallel loop and the real kernel give different arrays")

    # ---- routes ----------------------------------------------------------------------------------------
    res_s = run_many("harness.c03", "real_routes", [(c, False) for c in cases], env={"NUMBA_DISABLE_JIT": "1"}, procs=16)
    n_j = ctx.budget(16, 240)
    jit_ids = sorted(rng.sample(range(len(cases)), min(n_j, len(cases))))
    res_j = dict(zip(jit_ids, run_many("harness.c03", "real_routes", [(cases[i], True) for i in jit_ids],
                                       env={"NUMBA_DISABLE_JIT": "0"}, procs=16)))
    for ci, (c, ri) in enumerate(zip(cases, reqs)):
        key = case_record(c)
        short = {k: key[k] for k in ("grid", "op", "opts", "spec", "t")}
        ctx.count(key, nontrivial=len(set(key["data"])) > 2, leg="routes")
        ctx.hist("operator", f"{c['cls']}:{_op_name(c['op'], {k: v for k, v in c['opts'].items() if k != 'safe'})}")
        st, val = answers[ri]
        model = None
        if st == "ok":
            model = np.array([float(unq(x)) for x in val])
        else:
            ctx.disagree("routes", short, f"model error {val}", None)
        routes = {}
        for tag, rr in (("source", res_s[ci]), ("jit", res_j.get(ci))):
            if rr is None:
                continue
            if isinstance(rr, str):
                ctx.disagree("routes", short, "routes run", rr[-400:], "worker failed")
                continue
            for name, arr in rr.items():
                routes[f"{name}[{tag}]"] = arr
        for name in routes:
            ctx.hist("route", name)
            ctx.impl_traces += 1
        ctx.monitor_evals += 1
        fails, refp, scale = judge_routes(c, routes)
        for what, observed, fkey, extra in fails:
            ctx.monitor_fail("routes", dict(key, **extra), observed, "all routes agree to round-off", what, key=fkey)
        if model is not None and refp is not None and arr_far(model, refp[1], 1e-10 * scale):
            ref_name, ref = refp
            if model.shape == ref.shape:
                with np.errstate(invalid="ignore"):
                    d = np.abs(model - ref)
                i_ = int(np.argmax(np.where(np.isfinite(d), d, np.inf)))
            else:
                i_ = -1
            ctx.disagree("routes", dict(short, data=key["data"], index=i_), float(model[i_]) if i_ >= 0 else list(model.shape),
                         float(ref[i_]) if i_ >= 0 else list(ref.shape), f"model differs from route {ref_name}")

    # ---- complex data -----------------------------------------------------------------------------------
    lin = [c for c in cases if c["op"] != "gradient_squared"]
    csub = rng.sample(lin, min(ctx.budget(40, 400), len(lin)))
    cseeds = [rng.randint(0, 10 ** 6) for _ in csub]
    res_c = run_many("harness.c03", "complex_routes", list(zip(csub, cseeds)), env={"NUMBA_DISABLE_JIT": "1"}, procs=16)
    for c, cs, rr in zip(csub, cseeds, res_c):
        rec = dict(case_record(c), dtype="complex", cseed=cs)
        ctx.count({k: v for k, v in rec.items() if k != "data"}, nontrivial=True, leg="complex")
        ctx.impl_traces += 1
        ctx.monitor_evals += 1
        for what, observed, fkey in judge_complex(c, rr):
            ctx.monitor_fail("complex", rec, observed, "routes agree on complex data; real part = result of the real part", what, key=fkey)

    # ---- threads ---------------------------------------------------------------------------------------
    tseed = rng.randint(0, 10 ** 6)
    jobs = [(fam, tseed, nt) for fam in FAMILIES for nt in (1, 2, 16)]
    rr_t = run_many("harness.c03", "thread_case", jobs, env={"NUMBA_DISABLE_JIT": "0", "NUMBA_NUM_THREADS": "16"}, procs=9)
    rr_s = run_many("harness.c03", "thread_case", [(fam, tseed, 0) for fam in FAMILIES], env={"NUMBA_DISABLE_JIT": "1"}, procs=3)
    par_kernels = 0
    for fi, fam in enumerate(FAMILIES):
        runs = {nt: rr_t[fi * 3 + k] for k, nt in enumerate((1, 2, 16))}
        for nt, r in runs.items():
            ctx.count({"threads": nt, "family": fam, "seed": tseed}, nontrivial=True, leg="threads")
            ctx.hist("threads", f"{nt}:{fam}")
            ctx.impl_traces += 1
            ctx.monitor_evals += 1
            if isinstance(r, dict) and nt == 16:
                par_kernels += sum(1 for info in r["parallel"].values() for _n, par, _s, npar in info if par and npar >= 1)
        problems, fails = judge_threads(fam, runs, rr_s[fi])
        for nt, expected, observed, note in problems:
            ctx.disagree("threads", {"threads": nt, "family": fam, "seed": tseed}, expected, observed, note)
        for nt, name, observed, expected, what, fkey in fails:
            ctx.monitor_fail("threads", {"threads": nt, "family": fam, "seed": tseed, "op": name}, observed, expected, what, key=fkey)
    ctx.extra["parallel_kernels_executed_with_16_threads"] = par_kernels
    ctx.extra["prange_operator_variants_in_thread_leg"] = n_fam_loops

    # ---- `out=` aliasing contract --------------------------------------------------------------------------
    alias_leg(ctx)
    user_leg(ctx)


# ------------------------------------------------------------------------------------------
# setter leg: compiled ghost-cell setter vs its own model (Model/SetterSeq.lean) vs the interpreted setter
def judge_setter(case, rs, model, div0):
    """-> (outcome for the histogram, broken-tie note or None, monitor failure (observed, what) or None)"""
    if isinstance(rs, str) or "error" in rs:
        return "specification rejected (judged by C02)", None, None
    interp, comp = rs.get("interpreted"), rs.get("numba")
    if isinstance(interp, str) or isinstance(comp, str) or interp is None or comp is None:
        return "a setter raised (error behaviour is judged by C02)", None, None
    scale = max([1.0] + [abs(float(x)) for x in np.asarray(case["data"], dtype=float).ravel() if np.isfinite(x)])
    tie = None
    if model is not None:
        k = c02.compare_arrays(model, comp, scale, div0)
        if k is not None:
            tie = f"entry {k}: model of the compiled setter {float(model[k]) if k >= 0 else 'shape'} != real compiled setter " \
                  f"{float(np.asarray(comp, dtype=float).ravel()[k]) if k >= 0 else np.asarray(comp).shape}"
    exp = np.array(interp, dtype=float).copy()
    flat = exp.reshape(-1)
    for k in div0:
        flat[k] = np.nan  # the expression divides by zero there: any non-finite entry
    fail = None
    if not c02.agree(comp, exp, scale):
        a, b = np.asarray(comp, dtype=float).ravel(), np.asarray(interp, dtype=float).ravel()
        with np.errstate(invalid="ignore"):
            d = np.abs(a - b) if a.shape == b.shape else np.array([np.inf])
        i_ = int(np.argmax(np.where(np.isfinite(d), d, np.inf)))
        fail = ({"index": i_, "compiled": float(a[i_]) if a.shape == b.shape else list(a.shape),
                 "interpreted": float(b[i_]) if a.shape == b.shape else list(b.shape)},
                "compiled ghost-cell setter and interpreted set_ghost_cells give different padded arrays")
    return "compared", tie, fail


def setter_leg(ctx, srng, scases, sreqs, answers):
    res_s = run_many("harness.c02", "real_ghost", [(c, True, False) for c in scases], env={"NUMBA_DISABLE_JIT": "1"}, procs=16)
    jit_ids = sorted(srng.sample(range(len(scases)), min(ctx.budget(8, 80), len(scases))))
    res_j = dict(zip(jit_ids, run_many("harness.c02", "real_ghost", [(scases[i], True, False) for i in jit_ids],
                                       env={"NUMBA_DISABLE_JIT": "0"}, procs=8)))
    for ci, (c, ri) in enumerate(zip(scases, sreqs)):
        key = c02.case_key(c)
        st, val = answers[ri]
        model, div0 = None, ()
        if st == "ok":
            model, div0 = [unq(x) for x in val["a"]], tuple(val["div0"])
            ctx.hist("setter-stores", str(min(int(val["stores"]), 512).bit_length()))
        else:
            ctx.disagree("setter", key, f"model error {val}", None)
        for mode, rs in (("source", res_s[ci]), ("jit", res_j.get(ci))):
            if rs is None:
                continue
            outcome, tie, fail = judge_setter(c, rs, model, div0)
            ctx.hist("setter-outcome", f"{mode}: {outcome}")
            if outcome != "compared":
                continue
            ctx.count(dict(key, mode=mode), nontrivial=len(set(key["data"])) > 2, leg="setter")
            ctx.hist("setter-grid", f"{c['grid']['cls']}/{len(c['grid']['shape'])}d/rank{c['rank']}")
            ctx.impl_traces += 1
            ctx.monitor_evals += 1
            rec = dict(key, mode=mode, packed=c02.pack(c))
            if tie:
                ctx.disagree("setter", rec, "BC.compiledSetterLog (sequential loops on the live array, chain)",
                             "make_ghost_cell_setter of the numba backend", tie)
            if fail:
                ctx.monitor_fail("setter", rec, fail[0], "compiled setter = interpreted setter", fail[1],
                                 key={"route": f"numba-setter({mode})", "symptom": "differs-from-interpreted-setter"})


# ------------------------------------------------------------------------------------------
# alias leg: the `out=` contract incl. `out` = the input itself (memory model Model/OutAlias.lean)
ALIAS_WITNESS = {"bounds": [[0.0, 6.0]], "shape": [6], "data": [0.0, 1.0, 4.0, 9.0, 16.0, 25.0], "spec": {"value": 1.0}, "op": "laplace"}


def gen_alias_case(rng):
    nd = 1 if rng.random() < 0.7 else 2
    shape = [rng.randint(2, 7) for _ in range(nd)]
    bounds = []
    for n_ in shape:
        lo = rng.choice([-2.0, 0.0, 0.5])
        bounds.append([lo, lo + n_ * rng.choice([0.25, 0.5, 1.0, 2.0])])
    kind = rng.choice(["value", "derivative", "curvature", "mixed"])
    v = rng.randint(-8, 8) / 4
    spec = {"type": "mixed", "value": rng.randint(0, 6) / 2, "const": v} if kind == "mixed" else {kind: v}
    n_tot = int(np.prod(shape))
    return {"bounds": bounds, "shape": shape, "data": [float(rng.randint(-9, 9)) for _ in range(n_tot)], "spec": spec,
            "op": rng.choice(["laplace", "laplace", "gradient_squared"])}


def alias_case(case):
    """every way of calling the operator with an `out` argument, incl. `out` = the input array / the field itself;
    returns dict name -> array or 'EXC ...'"""
    import logging
    import warnings
    import pde
    from pde import get_backend

    logging.getLogger("pde").setLevel(logging.ERROR)
    warnings.simplefilter("ignore")
    grid = pde.CartesianGrid(case["bounds"], case["shape"])
    shape = tuple(case["shape"])
    data = np.array(case["data"], dtype=float).reshape(shape)
    bc, opn = case["spec"], case["op"]
    out = {}
    f = pde.ScalarField(grid, data.copy())
    out["ref"] = np.array(getattr(f, opn)(bc).data, dtype=float)
    out["padded"] = np.array(f._data_full, dtype=float)  # the call set the ghost cells in the field's own buffer

    def attempt(name, fn):
        try:
            out[name] = np.array(fn(), dtype=float)
        except Exception as e:  # noqa
            out[name] = f"EXC {type(e).__name__}: {e}"[:300]

    def field_sep():
        g, o = pde.ScalarField(grid, data.copy()), pde.ScalarField(grid, np.full(shape, np.nan))
        r = getattr(g, opn)(bc, out=o)
        assert r is o, "returned object is not `out`"
        return o.data

    def field_alias(method):
        def run_():
            g = pde.ScalarField(grid, data.copy())
            r = getattr(g, opn)(bc, out=g) if method else g.apply_operator(opn, bc, out=g)
            assert r is g, "returned object is not `out`"
            return g.data.copy()
        return run_

    attempt("field.method(out=other field)", field_sep)
    attempt("field.method(out=the field itself)", field_alias(True))
    attempt("field.apply_operator(out=the field itself)", field_alias(False))
    for bname in ("numpy", "numba", "scipy"):
        try:
            if opn not in get_backend(bname).get_registered_operators(grid):
                continue
            b_op = grid.make_operator(opn, bc=bc, backend=bname)
        except Exception as e:  # noqa
            out[f"_skip make_operator({bname})"] = f"EXC {type(e).__name__}: {e}"[:300]  # e.g. scipy: uniform discretization only
            continue

        def w_sep(b_op=b_op):
            o = np.full(shape, np.nan)
            r = b_op(data.copy(), out=o)
            assert r is o, "returned array is not `out`"
            return o

        def w_alias(b_op=b_op):
            a = data.copy()
            r = b_op(a, out=a)
            assert r is a, "returned array is not `out`"
            return a

        attempt(f"make_operator({bname})(arr)", lambda b_op=b_op: b_op(data.copy()))
        attempt(f"make_operator({bname})(arr,out=other)", w_sep)
        attempt(f"make_operator({bname})(arr,out=arr)", w_alias)
    return out


def judge_alias(case, rr):
    """monitor failures [(route, observed, key)]: every `out` variant must reproduce the result without `out`"""
    fails = []
    if isinstance(rr, str) or isinstance(rr.get("ref"), str):
        return [("worker", str(rr)[-300:], {"route": "alias-worker", "symptom": "raised"})]
    ref = rr["ref"]
    scale = 1.0 + float(np.max(np.abs(ref))) if np.isfinite(ref).all() else 1.0
    for name, arr in rr.items():
        if name in ("ref", "padded") or name.startswith("_skip"):
            continue
        if isinstance(arr, str):
            fails.append((name, arr, {"route": name, "symptom": "raised-with-out"}))
        elif arr.shape != ref.shape or arr_far(arr, ref, 1e-10 * scale):
            fails.append((name, {"with out": [float(x) for x in arr.ravel()], "without out": [float(x) for x in ref.ravel()]},
                          {"route": name, "symptom": "result-with-out-differs"}))
    return fails


def alias_leg(ctx):
    from harness.common.lean import LeanBatch

    arng = ctx.sub_rng("alias")
    acases = [dict(ALIAS_WITNESS)] + [gen_alias_case(arng) for _ in range(ctx.budget(60, 600))]
    res = run_many("harness.c03", "alias_case", acases, env={"NUMBA_DISABLE_JIT": "1"}, procs=12)
    jit_ids = [0] + sorted(arng.sample(range(1, len(acases)), min(ctx.budget(4, 40), len(acases) - 1)))
    res_j = dict(zip(jit_ids, run_many("harness.c03", "alias_case", [acases[i] for i in jit_ids], env={"NUMBA_DISABLE_JIT": "0"}, procs=6)))
    batch = LeanBatch(ctx.workdir)
    mreq = {}
    for ci, (c, rr) in enumerate(zip(acases, res)):
        if len(c["shape"]) == 1 and c["op"] == "laplace" and isinstance(rr, dict) and not isinstance(rr.get("padded"), str):
            dx = Fraction(c["bounds"][0][1] - c["bounds"][0][0]) / c["shape"][0]
            mreq[ci] = batch.add("c03.alias", {"padded": [q(float(x)) for x in rr["padded"]], "scale": q(1 / (dx * dx)), "junk": q(777.0)})
    answers = batch.run() if mreq else []
    for ci, c in enumerate(acases):
        for mode, rr in (("source", res[ci]), ("jit", res_j.get(ci))):
            if rr is None:
                continue
            rec = dict(c, mode=mode)
            ctx.count(rec, nontrivial=len(set(c["data"])) > 1, leg="alias")
            ctx.hist("alias", f"{len(c['shape'])}d:{c['op']}:{next(iter(c['spec']))}")
            ctx.impl_traces += 1
            ctx.monitor_evals += 1
            for route, observed, fkey in judge_alias(c, rr):
                ctx.monitor_fail("alias", dict(rec, route=route), observed, "the result does not depend on `out` (absent, separate, or the input itself)",
                                 f"route {route}: evaluation with `out` differs from evaluation without", key=fkey)
            if mode == "source" and ci in mreq and isinstance(rr, dict):
                st, val = answers[mreq[ci]]
                if st != "ok":
                    ctx.disagree("alias", rec, f"model error {val}", None)
                    continue
                pairs = [("wrapper_aliased", "make_operator(numba)(arr,out=arr)"), ("wrapper_fresh", "make_operator(numba)(arr,out=other)"),
                         ("field_separate", "field.method(out=other field)")]
                for mk, rk in pairs:
                    real = rr.get(rk)
                    model = np.array([float(unq(x)) for x in val[mk]])
                    if isinstance(real, str) or real is None or arr_far(model, real, 1e-10 * (1 + float(np.max(np.abs(model))))):
                        ctx.disagree("alias", dict(rec, route=rk), [float(x) for x in model], real if isinstance(real, (str, type(None))) else [float(x) for x in real],
                                     f"memory model OutAlias.{mk} and the real route differ")
                real_a = rr.get("field.method(out=the field itself)")
                model_a = np.array([float(unq(x)) for x in val["field_aliased"]])
                same = (not isinstance(real_a, str)) and real_a is not None and not arr_far(model_a, real_a, 1e-10 * (1 + float(np.max(np.abs(model_a)))))
                ctx.hist("alias-inplace-model", "OutAlias.fieldRoute with out = self reproduces the real numbers" if same
                         else "real code no longer computes in place for out = self (model of the deviation is stale)")


# ------------------------------------------------------------------------------------------
# user-controlled conditions ({"type": "user"}, data through `args` at call time): every route must give what the ordinary
# condition with the same data gives ("value" = Dirichlet, "derivative" = Neumann, "virtual_point" = the ghost value itself)
def gen_user_case(rng):
    nd = 1 if rng.random() < 0.5 else 2
    shape = [rng.randint(2, 6) for _ in range(nd)]
    bounds = []
    for n_ in shape:
        lo = rng.choice([-2.0, 0.0, 0.5])
        bounds.append([lo, lo + n_ * rng.choice([0.25, 0.5, 1.0, 2.0])])
    n_tot = int(np.prod(shape))
    return {"bounds": bounds, "shape": shape, "data": [float(rng.randint(-9, 9)) for _ in range(n_tot)],
            "target": rng.choice(["value", "derivative", "derivative", "virtual_point"]), "g": rng.randint(-8, 8) / 4,
            "op": rng.choice(["laplace", "laplace", "gradient_squared"])}


def user_case(case):
    """routes for a user-controlled condition; dict name -> array or 'EXC ...' (+ 'ref': the ordinary condition)"""
    import logging
    import warnings
    import pde
    from pde import get_backend

    logging.getLogger("pde").setLevel(logging.ERROR)
    warnings.simplefilter("ignore")
    try:
        from pde.backends.numba.utils import numba_dict
    except Exception:  # noqa
        numba_dict = dict
    grid = pde.CartesianGrid(case["bounds"], case["shape"])
    shape = tuple(case["shape"])
    nd = len(shape)
    data = np.array(case["data"], dtype=float).reshape(shape)
    tgt, g, opn = case["target"], float(case["g"]), case["op"]
    user_bc = {"type": "user"}
    out = {}
    if tgt == "virtual_point":
        full = np.full(tuple(n + 2 for n in shape), g)
        full[(slice(1, -1),) * nd] = data
        o = np.empty(shape)
        try:
            grid.make_operator_no_bc(opn, backend="scipy")(full, o)
        except Exception:  # noqa  (scipy: uniform discretization only, not every operator)
            grid.make_operator_no_bc(opn, backend="numba")(full, o)
        out["ref"] = o
    else:
        out["ref"] = np.array(getattr(pde.ScalarField(grid, data.copy()), opn)({tgt: g}).data, dtype=float)

    def attempt(name, fn):
        try:
            out[name] = np.array(fn(), dtype=float)
        except Exception as e:  # noqa
            out[name] = f"EXC {type(e).__name__}: {e}"[:300]

    for bname in ("numpy", "numba", "scipy"):
        try:
            if opn not in get_backend(bname).get_registered_operators(grid):
                continue
        except Exception:  # noqa
            continue
        try:  # a backend that cannot build the operator for the ORDINARY condition on this grid is not a route here
            grid.make_operator(opn, bc={"value": 0.0}, backend=bname)
        except Exception as e:  # noqa
            out[f"_skip backend {bname}"] = f"EXC {type(e).__name__}: {e}"[:300]
            continue
        wrap = numba_dict if bname == "numba" else dict
        attempt(f"field.method(user, args, backend={bname})",
                lambda bname=bname: getattr(pde.ScalarField(grid, data.copy()), opn)(user_bc, args={tgt: g}, backend=bname).data)
        try:
            b_op = grid.make_operator(opn, bc=user_bc, backend=bname)
        except Exception as e:  # noqa
            out[f"_skip make_operator({bname})"] = f"EXC {type(e).__name__}: {e}"[:300]
            continue
        attempt(f"make_operator({bname})(arr, args)", lambda b_op=b_op, wrap=wrap: b_op(data.copy(), args=wrap({tgt: g})))

        def w_out(b_op=b_op, wrap=wrap):
            o = np.full(shape, np.nan)
            b_op(data.copy(), o, wrap({tgt: g}))
            return o
        attempt(f"make_operator({bname})(arr, out, args)", w_out)
    for bname in ("numba",):
        def setter_route(bname=bname):
            bcs = grid.get_boundary_conditions(user_bc)
            full = np.zeros(tuple(n + 2 for n in shape))
            full[(slice(1, -1),) * nd] = data
            wrap = numba_dict if bname == "numba" else dict
            get_backend(bname).make_ghost_cell_setter(bcs)(full, args=wrap({tgt: g}))
            o = np.empty(shape)
            grid.make_operator_no_bc(opn, backend=bname)(full, o)
            return o
        attempt(f"ghost-cell setter({bname}) + make_operator_no_bc", setter_route)

    def interp_route():
        f = pde.ScalarField(grid, data.copy())
        f.set_ghost_cells(user_bc, args={tgt: g})
        return f.apply_operator(opn, bc=None).data
    attempt("field.set_ghost_cells(user, args) + apply_operator(bc=None)", interp_route)
    if nd == 1:
        # the ghost cells themselves (tie with `BC.userGhost`): interpreted and compiled setter, lower and upper side
        try:
            f = pde.ScalarField(grid, data.copy())
            f.set_ghost_cells(user_bc, args={tgt: g})
            full_i = np.array(f._data_full, dtype=float)
            full_c = np.zeros(shape[0] + 2)
            full_c[1:-1] = data
            get_backend("numba").make_ghost_cell_setter(grid.get_boundary_conditions(user_bc))(full_c, args=numba_dict({tgt: g}))
            out["_ghosts"] = {"interpreted": [float(full_i[0]), float(full_i[-1])], "compiled": [float(full_c[0]), float(full_c[-1])],
                              "cells": [float(data[0]), float(data[-1])]}
        except Exception as e:  # noqa
            out["_ghosts"] = f"EXC {type(e).__name__}: {e}"[:300]
    return out


def judge_user(case, rr):
    fails = []
    if isinstance(rr, str) or isinstance(rr.get("ref"), str):
        return [("worker", str(rr)[-300:], {"route": "user-worker", "symptom": "raised"})]
    ref = rr["ref"]
    scale = 1.0 + float(np.max(np.abs(ref))) if np.isfinite(ref).all() else 1.0
    for name, arr in rr.items():
        if name == "ref" or name.startswith("_skip") or name == "_ghosts":
            continue
        if isinstance(arr, str):
            fails.append((name, arr, {"route": name, "symptom": "raised-with-user-condition"}))
        elif arr.shape != ref.shape or arr_far(arr, ref, 1e-10 * scale):
            fails.append((name, {"user condition": [float(x) for x in arr.ravel()], "ordinary condition": [float(x) for x in ref.ravel()]},
                          {"route": name, "symptom": "user-condition-differs-from-ordinary"}))
    return fails


def user_leg(ctx):
    urng = ctx.sub_rng("userbc")
    ucases = [gen_user_case(urng) for _ in range(ctx.budget(40, 400))]
    res = run_many("harness.c03", "user_case", ucases, env={"NUMBA_DISABLE_JIT": "1"}, procs=12)
    jit_ids = sorted(urng.sample(range(len(ucases)), min(ctx.budget(4, 30), len(ucases))))
    res_j = dict(zip(jit_ids, run_many("harness.c03", "user_case", [ucases[i] for i in jit_ids], env={"NUMBA_DISABLE_JIT": "0"}, procs=6)))
    from harness.common.lean import LeanBatch
    batch = LeanBatch(ctx.workdir)
    greq = {}
    for ci, (c, rr) in enumerate(zip(ucases, res)):
        if isinstance(rr, dict) and isinstance(rr.get("_ghosts"), dict):
            dx = Fraction(c["bounds"][0][1] - c["bounds"][0][0]) / c["shape"][0]
            greq[ci] = batch.add("c03.userghost", {"target": c["target"], "dx": q(dx), "v": q(float(c["g"])),
                                                   "cells": [q(x) for x in rr["_ghosts"]["cells"]]})
    ganswers = batch.run() if greq else []
    for ci, c in enumerate(ucases):
        for mode, rr in (("source", res[ci]), ("jit", res_j.get(ci))):
            if rr is None:
                continue
            rec = dict(c, mode=mode)
            if isinstance(rr, dict) and isinstance(rr.get("_ghosts"), str):
                ctx.disagree("userbc", rec, "ghost cells of the setters", rr["_ghosts"], "the setters raised")
            if ci in greq and isinstance(rr, dict) and isinstance(rr.get("_ghosts"), dict):
                st, val = ganswers[greq[ci]]
                if st != "ok":
                    ctx.disagree("userbc", rec, f"model error {val}", None, "c03.userghost")
                else:
                    mu = [float(unq(x)) for x in val["user"]]
                    mo = [float(unq(x)) for x in val["ordinary"]]
                    ctx.hist("userbc-ghost-model", "compared")
                    if mu != mo:
                        ctx.disagree("userbc", rec, mu, mo, "model: userGhost differs from the ordinary condition's ghost value")
                    for which in ("interpreted", "compiled"):
                        real = rr["_ghosts"][which]
                        if any(far(a - b, 1e-12 * (1 + abs(a))) for a, b in zip(mu, real)):
                            ctx.disagree("userbc", dict(rec, setter=which), mu, real, f"BC.userGhost vs the ghost cells of the {which} setter")
            ctx.count(rec, nontrivial=len(set(c["data"])) > 1, leg="userbc")
            ctx.hist("userbc", f"{len(c['shape'])}d:{c['op']}:{c['target']}:{mode}")
            ctx.impl_traces += 1
            ctx.monitor_evals += 1
            if isinstance(rr, dict):
                ctx.hist("userbc-routes", str(sum(1 for k in rr if k != "ref" and not k.startswith("_skip"))))
            for route, observed, fkey in judge_user(c, rr):
                ctx.monitor_fail("userbc", dict(rec, route=route), observed,
                                 "every route with a user-controlled condition gives what the ordinary condition with the same data gives",
                                 f"route {route}: user-controlled condition ({c['target']}) differs from the ordinary condition", key=fkey)


# ------------------------------------------------------------------------------------------
def replay(ctx, rep):
    """re-run the recorded case of its leg on the real code (same inputs; routes: source semantics and, if a JIT route was
    involved, JIT; threads: the recorded thread count against 1 thread and the source run) and judge it with the monitor
    of the run; False iff a failure with the recorded finding key is still observed"""
    c = rep.get("case") or {}
    leg = rep.get("leg")
    rkey = rep.get("key") or {}

    def still(failkeys):
        """failures that reproduce the recorded symptom (all failures if the file has no key)"""
        return [k for k in failkeys if not rkey or all(k.get(a) == b for a, b in rkey.items())]

    if leg == "alias" and "shape" in c:
        case = {k: c[k] for k in ("bounds", "shape", "data", "spec", "op")}
        rr = run_many("harness.c03", "alias_case", [case], env={"NUMBA_DISABLE_JIT": "0" if c.get("mode") == "jit" else "1"}, procs=1)[0]
        fails = judge_alias(case, rr)
        for f in fails:
            print("alias leg:", f[0], f[1])
        return not still([f[2] for f in fails])
    if leg == "userbc" and "shape" in c:
        case = {k: c[k] for k in ("bounds", "shape", "data", "target", "g", "op")}
        rr = run_many("harness.c03", "user_case", [case], env={"NUMBA_DISABLE_JIT": "0" if c.get("mode") == "jit" else "1"}, procs=1)[0]
        fails = judge_user(case, rr)
        for f in fails:
            print("userbc leg:", f[0], f[1])
        return not still([f[2] for f in fails])
    if leg == "setter" and "packed" in c:
        case = c02.unpack(c["packed"])
        jit = c.get("mode") == "jit"
        rs = run_many("harness.c02", "real_ghost", [(case, True, False)], env={"NUMBA_DISABLE_JIT": "0" if jit else "1"}, procs=1)[0]
        outcome, _tie, fail = judge_setter(case, rs, None, ())
        print("setter leg:", outcome, fail)
        return outcome == "compared" and fail is None
    if leg == "threads" and "family" in c:
        fam, seed, nt = c["family"], c["seed"], int(c["threads"])
        nts = sorted({1, nt})
        rr = run_many("harness.c03", "thread_case", [(fam, seed, n_) for n_ in nts],
                      env={"NUMBA_DISABLE_JIT": "0", "NUMBA_NUM_THREADS": "16"}, procs=len(nts))
        rs_ = run_many("harness.c03", "thread_case", [(fam, seed, 0)], env={"NUMBA_DISABLE_JIT": "1"}, procs=1)[0]
        problems, fails = judge_threads(fam, dict(zip(nts, rr)), rs_)
        for p in problems:
            print("thread leg not valid:", p)
        for f in fails:
            print("thread leg:", f[4], f[2])
        return not problems and not still([f[5] for f in fails])
    if leg == "schedule" and "family" in c:
        rr = run_many("harness.c03", "schedule_case", [(c["family"], c["seed"])], env={"NUMBA_DISABLE_JIT": "1"}, procs=1)[0]
        if isinstance(rr, str):
            print("schedule worker failed:", rr[-400:])
            return False
        rec = rr.get(c["op"])
        if rec is None:
            print(f"operator {c['op']} is no longer part of family {c['family']}: cannot be replayed")
            return False
        fails = judge_schedule(c["family"], c["op"], rec)
        for f in fails:
            print("schedule leg:", f[2], f[1])
        return not still([f[3] for f in fails])
    if leg in ("routes", "complex") and "data" in c and "grid" in c:
        case = case_from_record(c)
        if leg == "complex":
            rr = run_many("harness.c03", "complex_routes", [(case, int(c["cseed"]))], env={"NUMBA_DISABLE_JIT": "1"}, procs=1)[0]
            fails = judge_complex(case, rr)
            for f in fails:
                print("complex leg:", f[0], f[1])
            return not still([f[2] for f in fails])
        recorded = list(c.get("routes", [])) + ([c["route"]] if "route" in c else [])
        want_jit = any(r_.endswith("[jit]") for r_ in recorded)
        routes = {}
        for tag, jit in (("source", False),) + ((("jit", True),) if want_jit else ()):
            rr = run_many("harness.c03", "real_routes", [(case, jit)], env={"NUMBA_DISABLE_JIT": "0" if jit else "1"}, procs=1)[0]
            if isinstance(rr, str):
                print(f"worker ({tag}) failed:", rr[-400:])
                return False
            for name, arr in rr.items():
                routes[f"{name}[{tag}]"] = arr
        missing = [r_ for r_ in recorded if r_ not in routes]
        if missing:
            print("recorded routes that no longer exist for this case:", missing)
        fails, refp, scale = judge_routes(case, routes)
        if refp is not None:
            for name, arr in routes.items():
                if not isinstance(arr, str):
                    a = np.asarray(arr, dtype=float).ravel()
                    d = float(np.nanmax(np.abs(a - refp[1]))) if a.shape == refp[1].shape and np.isfinite(a).any() else float("nan")
                    if far(d, 1e-10 * scale):
                        print(f"route {name}: max |difference to {refp[0]}| = {d:.3g} (tolerance {1e-10 * scale:.3g})")
        for f in fails:
            print("routes:", f[0], f[1])
        return not still([f[2] for f in fails])
    print(f"leg {leg!r}: this file records no input that can be re-run on the real code (extractor / model finding); case: {c}")
    return False
