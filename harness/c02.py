"""C02 - boundary conditions hold exactly at the discrete boundary.

Legs:
  ghost  : random (grid, rank, per-side condition, spec format, field) -> full padded array after
           the interpreted `set_ghost_cells`, the numba ghost-cell setter (source semantics with
           NUMBA_DISABLE_JIT=1 for breadth, JIT-compiled for a subset), `field.set_ghost_cells`,
           `field.get_boundary_values`, `get_virtual_point` and `get_virtual_point_data`
           (const, factor, index) - all compared with the Lean model `PdeVerif.BC.setGhostAll` /
           `vpDirichlet .. vpMixedCode` evaluated over exact rationals.  Robin coefficients are
           drawn from {>= 0, negative, +-inf, the singular value -2/dx}, per point for arrays.
  linked : the value arrays of constant conditions are linked to external memory (`link_value`),
           changed in place, and the conditions imposed again (interpreted + compiled setter).
  reject : combinations py-pde does not support (expression conditions for rank >= 1) must be
           refused with NotImplementedError.
  parse  : random specifications in every accepted format -> which condition ends up on which
           side / which error class, compared with `PdeVerif.BCParse.parse`; alias table compared
           entry by entry.
Monitor: the defining equation of every condition on every face point of the real padded array
         (NaN-safe: a non-finite entry is a failure) and "entries that must not be touched are
         untouched"."""
import copy
import itertools
import math
from fractions import Fraction

import numpy as np

from harness.common.num import q, unq
from harness.common.isolated import run_many

PID = "C02"
LEVEL = "proof"
REQUIRED_THEOREMS = [
    "dirichlet_exact", "neumann_exact", "robin_exact", "robin_infinite_is_dirichlet0", "curvature_exact",
    "periodic_exact", "antiperiodic_exact", "exprValue_exact", "exprDerivative_exact", "exprMixed_exact",
    "robin_singular_unsatisfiable", "vpMixedCode_finite", "vpMixedCode_inf", "vpMixedCode_singular",
    "robin_code_exact", "robin_code_infinite",
    "setGhost_dirichlet", "setGhost_neumann", "setGhost_mixed", "setGhost_mixed_nonfinite", "setGhost_robin_finite",
    "setGhost_robin_infinite", "setGhost_robin_singular", "setGhost_curvature", "setGhost_periodic",
    "setGhost_exprValue", "setGhost_exprDerivative", "setGhost_exprMixed", "divByZero_iff", "normal_only_touches_normal",
    "setGhost_writes_exactly_face", "setGhost_valid_unchanged", "setGhostAll_frame", "setGhostAll_written",
    "setGhostAll_perm", "holdsAt_of_fixed", "setGhostAll_fixed", "setGhostAll_holds", "setGhostAll_dirichlet",
    "setGhostAll_robin", "setGhostAll_normal_untouched",
    "parse_most_specific_wins", "unknown_key_ignored", "lowHigh_is_pair", "seq_is_pair", "formats_agree", "lowHigh_incomplete_is_error",
    "seq_wrong_length_is_error", "unspecified_is_error", "unspecified_side_is_error", "auto_periodic_resolves",
    "periodicity_consistent", "parse_periodicity_consistent", "parse_length", "alias_table_classes",
    # Props/C02b: the complete setter of a grid
    "boundaryFaces_compatible", "setBoundaries_holds", "setBoundaries_fixed", "setBoundaries_frame",
    "setBoundaries_order_irrelevant", "setBoundaries_robin", "setBoundaries_exprMixed",
    "setBoundariesLinked_holds", "setBoundariesLinked_value", "setBoundariesLinked_current",
    "parse_dict_axis", "parse_dict_pair",
]
RULE = ("ghost leg: seed-derived grids of all classes (1-3 axes, 1-4 cells per axis, dyadic spacings, periodic flags, "
        "holes), field rank 0-2, one condition per side drawn from every class/alias the side admits (value, "
        "derivative, mixed, curvature, normal_*, *_expression, periodic, anti-periodic) with homogeneous / tensor / "
        "per-face-array / expression values; Robin coefficients non-negative, negative, +-inf and the singular value "
        "-2/dx (whole value or single entries of an array); written in a random accepted format (side keys, axis key, "
        "wildcard, named side, {'low','high'} dictionary, two-element tuple/list, legacy per-axis list, type-dict / "
        "name-dict / bare string, plus keys the grid does not know); the padded array is pre-filled with distinct "
        "markers in all ghost cells; distinct by the whole case, non-trivial if at least one inhomogeneous or "
        "non-default value is present. linked leg: the same cases with constant values linked to arrays that are then "
        "overwritten. parse leg: random specifications in every format incl. malformed ones (missing side, wrong "
        "periodicity, unknown name, duplicate alias key, incomplete low/high, wrong sequence length, falsy values, "
        "unknown keys); distinct by (grid names, data).")
ASSUMPTIONS = [
    "expression values are polynomials in the boundary coordinates and t with integer coefficients, so the exact value is known",
    "float results are compared with the exact model at 1e-11 relative to the scale of the data; markers and untouched entries exactly",
    "all generated numbers are dyadic, so `2 + dx*gamma == 0` in floating point iff it holds exactly; coefficients that are "
    "only nearly singular in floating point are not generated",
    "an infinite Robin coefficient is judged by the limit form of the condition (boundary value 0), as documented for MixedBC",
]
TRUSTED_EXTRA = ["sympy/numba expression compilation for *_expression conditions is external (validated only)"]
EXTRA_PROP_FILES = ["C02b"]  # the complete setter of a grid (faces generated from the grid); linked values
MIN_LEGS = {"ghost": 300, "parse": 500, "linked": 20, "reject": 10}

KINDS_LOCAL = ["dirichlet", "neumann", "mixed", "curvature"]
ALIASES = {
    "dirichlet": ["value", "dirichlet"], "neumann": ["derivative", "neumann"], "mixed": ["mixed", "robin"],
    "curvature": ["curvature", "second_derivative", "extrapolate"],
    "n_dirichlet": ["normal_value", "normal_dirichlet", "dirichlet_normal"],
    "n_neumann": ["normal_derivative", "normal_neumann", "neumann_normal"],
    "n_mixed": ["normal_mixed", "normal_robin"], "n_curvature": ["normal_curvature"],
    "exprValue": ["value_expression", "value_expr"], "exprDerivative": ["derivative_expression", "derivative_expr"],
    "exprMixed": ["mixed_expression", "mixed_expr", "robin_expression", "robin_expr"],
}


# ------------------------------------------------------------------------------------------
# grids
def make_grid(gd):
    import pde

    c = gd["cls"]
    if c == "UnitGrid":
        return pde.UnitGrid(gd["shape"], periodic=gd["periodic"])
    if c == "CartesianGrid":
        return pde.CartesianGrid(gd["bounds"], gd["shape"], periodic=gd["periodic"])
    if c == "PolarSymGrid":
        return pde.PolarSymGrid(tuple(gd["bounds"][0]) if gd["bounds"][0][0] else gd["bounds"][0][1], gd["shape"][0])
    if c == "SphericalSymGrid":
        return pde.SphericalSymGrid(tuple(gd["bounds"][0]) if gd["bounds"][0][0] else gd["bounds"][0][1], gd["shape"][0])
    if c == "CylindricalSymGrid":
        r = tuple(gd["bounds"][0]) if gd["bounds"][0][0] else gd["bounds"][0][1]
        return pde.CylindricalSymGrid(r, tuple(gd["bounds"][1]), gd["shape"], periodic_z=gd["periodic"][1])
    raise ValueError(c)


def gen_grid(rng, min_cells=1):
    c = rng.choice(["UnitGrid", "CartesianGrid", "CartesianGrid", "CartesianGrid", "PolarSymGrid",
                    "SphericalSymGrid", "CylindricalSymGrid"])
    nax = {"PolarSymGrid": 1, "SphericalSymGrid": 1, "CylindricalSymGrid": 2}.get(c) or rng.choice([1, 1, 2, 2, 3])
    shape = [rng.randint(min_cells, 4 if nax < 3 else 3) for _ in range(nax)]
    bounds, periodic = [], []
    for i in range(nax):
        dx = rng.choice([0.25, 0.5, 1.0, 2.0, 0.125, 1.5, 0.75])
        if c == "UnitGrid":
            dx, lo = 1.0, 0.0
        elif c in ("PolarSymGrid", "SphericalSymGrid") or (c == "CylindricalSymGrid" and i == 0):
            lo = rng.choice([0.0, 0.0, 0.5, 1.0, 2.25])
        else:
            lo = rng.choice([0.0, -1.0, 0.5, -2.75, 3.0])
        bounds.append([lo, lo + dx * shape[i]])
        if c in ("PolarSymGrid", "SphericalSymGrid") or (c == "CylindricalSymGrid" and i == 0):
            periodic.append(False)
        else:
            periodic.append(rng.random() < 0.3)
    return {"cls": c, "shape": shape, "bounds": bounds, "periodic": periodic}


# ------------------------------------------------------------------------------------------
# polynomial expressions with exact values
def gen_poly(rng, names, with_t):
    """list of (coef, {name: power}) ; names may include 't'"""
    vs = list(names) + (["t"] if with_t else [])
    terms = [(rng.randint(-3, 3) or 1, {})]
    for _ in range(rng.randint(0, 2)):
        if not vs:
            break
        mon = {}
        for _ in range(rng.randint(1, 2)):
            v = rng.choice(vs)
            mon[v] = mon.get(v, 0) + 1
        terms.append((rng.randint(-2, 2) or 1, mon))
    return terms


def poly_text(terms):
    out = []
    for c, mon in terms:
        fac = [str(c)] + [f"{v}**{p}" if p > 1 else v for v, p in sorted(mon.items())]
        out.append("*".join(fac))
    return " + ".join(f"({t})" for t in out)


def poly_eval(terms, env):
    tot = Fraction(0)
    for c, mon in terms:
        x = Fraction(c)
        for v, p in mon.items():
            x *= Fraction(env[v]) ** p
        tot += x
    return tot


# ------------------------------------------------------------------------------------------
def _dyadic(x):
    d = Fraction(x).denominator
    return d & (d - 1) == 0


def _fl(x, inf):
    """float of an exact value with its infinity flag (0, +1, -1)"""
    return float(x) if not inf else math.copysign(math.inf, inf)


def gen_side(rng, gd, grid_axes, dim, axis, rank, t, ctx_hist, extended=False):
    """one local (non-periodic) condition; returns dict(kind, normal, v, c (Fraction arrays of the
    full value shape), vinf (None or flags 0/+1/-1 marking infinite entries of v), spec (what py-pde
    gets), alias).  `extended=False` reproduces the generator the other checks (C03, C05, C18) were
    built on; `extended=True` adds negative / infinite / singular Robin coefficients."""
    shape = gd["shape"]
    nax = len(shape)
    normal = rank >= 1 and rng.random() < 0.35
    vrank = rank - 1 if normal else rank
    face_shape = [shape[j] for j in range(nax) if j != axis]
    vshape = [dim] * vrank + face_shape
    kinds = list(KINDS_LOCAL)
    if shape[axis] < 2:
        kinds.remove("curvature")
    use_expr_bc = rank == 0 and rng.random() < 0.25
    if use_expr_bc:
        kind = rng.choice(["exprValue", "exprDerivative", "exprMixed"])
    else:
        kind = rng.choice(kinds)
    # coordinates of the face points (exact)
    other = [j for j in range(nax) if j != axis]
    dxs = [Fraction(gd["bounds"][j][1] - gd["bounds"][j][0]) / shape[j] for j in range(nax)]
    centres = {j: [Fraction(gd["bounds"][j][0]) + (Fraction(2 * i + 1, 2)) * dxs[j] for i in range(shape[j])] for j in other}
    sing = -2 / dxs[axis]  # the coefficient for which the discrete Robin equation is singular
    n = int(np.prod(vshape)) if vshape else 1
    last = {}

    def value_array(mode):
        """returns (exact array of shape vshape as nested list flattened row-major, python value for the spec, tag)"""
        if mode == "scalar":
            x = Fraction(rng.randint(-6, 6), rng.choice([1, 2, 4]))
            last.update(base=[x], rep=n, mode=mode)
            return [x] * n, float(x), "scalar"
        if mode == "tensor":  # shape (dim,)*vrank, broadcast along the face
            tn = dim ** vrank
            tv = [Fraction(rng.randint(-6, 6), rng.choice([1, 2])) for _ in range(tn)]
            fn = int(np.prod(face_shape)) if face_shape else 1
            flat = [tv[i] for i in range(tn) for _ in range(fn)]
            last.update(base=tv, rep=fn, mode=mode)
            return flat, np.array([float(x) for x in tv]).reshape([dim] * vrank), "tensor"
        if mode == "array":  # full shape
            fv = [Fraction(rng.randint(-8, 8), rng.choice([1, 2, 4])) for _ in range(n)]
            last.update(base=fv, rep=1, mode=mode)
            return fv, np.array([float(x) for x in fv]).reshape(vshape), "per-face-array"
        raise ValueError(mode)

    def rebuild(base, binf, rep, mode):
        """(flat exact values, flat infinity flags, python value) of a value given by its independent entries"""
        flat = [x for x in base for _ in range(rep)]
        finf = [i for i in binf for _ in range(rep)]
        fl = [_fl(x, i) for x, i in zip(base, binf)]
        if mode == "scalar":
            return flat, finf, fl[0]
        return flat, finf, np.array(fl).reshape([dim] * vrank if mode == "tensor" else vshape)

    def expr_value(names_allowed, with_t):
        terms = gen_poly(rng, names_allowed, with_t)
        flat = []
        for pos in itertools.product(*[range(shape[j]) for j in other]):
            env = {grid_axes[j]: centres[j][pos[k]] for k, j in enumerate(other)}
            env["t"] = Fraction(t)
            flat.append(poly_eval(terms, env))
        return flat, poly_text(terms), "expression"

    other_names = [grid_axes[j] for j in other]
    if use_expr_bc:
        v, vspec, tag = expr_value(other_names, True)
        c, cspec = None, None
        if kind == "exprMixed":
            if not extended:
                # keep gamma*dx + 2 away from zero: gamma >= 0
                g = Fraction(rng.randint(0, 4), rng.choice([1, 2]))
                v, vspec = [g] * len(v), str(float(g))
            else:
                r = rng.random()
                if r < 0.45:  # a constant of either sign
                    g = Fraction(rng.randint(-4, 4), rng.choice([1, 2]))
                    v, vspec, gtag = [g] * len(v), str(float(g)), "const"
                elif r < 0.53 and _dyadic(sing):  # the singular coefficient: the expression divides by zero
                    v, vspec, gtag = [sing] * len(v), str(float(sing)), "singular"
                else:  # the coefficient is an expression itself (keeps the polynomial drawn above)
                    gtag = "expression"
                if gtag != "singular" and any(x * dxs[axis] + 2 == 0 for x in v):
                    gtag = "accidentally-singular"
                ctx_hist("gamma", "exprMixed:" + gtag)
            c, cspec, _ = expr_value(other_names, True)
        alias = rng.choice(ALIASES[kind])
        spec = {"type": alias, "value": vspec}
        if c is not None:
            spec["const"] = cspec
        elif rng.random() < 0.5:
            spec = {alias: vspec}
        ctx_hist("value", f"{kind}:{tag}")
        return {"kind": kind, "normal": False, "v": v, "c": c, "vinf": None, "spec": spec, "alias": alias,
                "vshape": vshape, "text": vspec, "ctext": cspec}
    modes = ["scalar", "scalar"]
    if vrank > 0:
        modes += ["tensor", "tensor"]
    if face_shape or vrank > 0:
        modes += ["array", "array"]
    mode = rng.choice(modes)
    if vrank == 0 and rng.random() < 0.2:
        v, vspec, tag = expr_value(other_names, False)  # string value of a const BC (`_parse_value`)
    else:
        v, vspec, tag = value_array(mode)
    c, cspec = None, None
    vinf = None
    if kind == "mixed":
        gmode = "nonneg"
        if extended:
            r = rng.random()
            gmode = "nonneg" if r < 0.35 else "signed" if r < 0.65 else "inf" if r < 0.9 else "singular"
            if gmode == "singular" and not _dyadic(sing):
                gmode = "signed"
        if isinstance(vspec, str):  # expression: replace by a scalar gamma
            g = Fraction(rng.randint(0, 4), 2)
            v, vspec, tag = [g] * len(v), float(g), "scalar"
            last.update(base=[g], rep=n, mode="scalar")
        if gmode == "nonneg":
            # gamma >= 0 keeps 2 + dx*gamma away from 0
            v = [abs(x) for x in v]
            if isinstance(vspec, np.ndarray):
                vspec = np.abs(vspec)
            elif isinstance(vspec, float):
                vspec = abs(vspec)
        elif gmode in ("inf", "singular"):
            base, rep, bmode = list(last["base"]), last["rep"], last["mode"]
            binf = [0] * len(base)
            hit = [i for i in range(len(base)) if rng.random() < 0.5] or [rng.randrange(len(base))]
            for i in hit:
                if gmode == "inf":
                    base[i], binf[i] = Fraction(0), rng.choice([1, 1, -1])
                else:
                    base[i] = sing
            v, vinf, vspec = rebuild(base, binf, rep, bmode)
            if not any(vinf):
                vinf = None
        if extended:
            if gmode != "singular" and any(x * dxs[axis] + 2 == 0 and not (vinf and vinf[i]) for i, x in enumerate(v)):
                gmode = "accidentally-singular"
            ctx_hist("gamma", "mixed:" + gmode)
        c, cspec, _ = value_array(rng.choice(modes))
    akey = ("n_" if normal else "") + kind
    alias = rng.choice(ALIASES[akey])
    zero = all(x == 0 for x in v) and not vinf and (c is None or all(x == 0 for x in c))
    r = rng.random()
    if zero and c is None and r < 0.5:
        spec = alias  # bare string: value 0
    elif c is not None or r < 0.6:
        spec = {"type": alias, "value": vspec}
        if c is not None:
            spec["const"] = cspec
    else:
        spec = {alias: vspec}
    ctx_hist("value", f"{akey}:{tag}")
    return {"kind": kind, "normal": normal, "v": v, "c": c, "vinf": vinf, "spec": spec, "alias": alias, "vshape": vshape,
            "text": str(vspec) if isinstance(vspec, str) else None}


SIDE_NAMES = {
    "UnitGrid": [("left", 0, False), ("right", 0, True), ("bottom", 1, False), ("top", 1, True), ("back", 2, False), ("front", 2, True)],
    "CartesianGrid": [("left", 0, False), ("right", 0, True), ("bottom", 1, False), ("top", 1, True), ("back", 2, False), ("front", 2, True)],
    "PolarSymGrid": [("inner", 0, False), ("outer", 0, True)],
    "SphericalSymGrid": [("inner", 0, False), ("outer", 0, True)],
    "CylindricalSymGrid": [("inner", 0, False), ("outer", 0, True), ("bottom", 1, False), ("top", 1, True)],
}
AXES = {"UnitGrid": "xyz", "CartesianGrid": "xyz", "PolarSymGrid": ["r"], "SphericalSymGrid": ["r"],
        "CylindricalSymGrid": ["r", "z"]}
DIM = {"PolarSymGrid": 2, "SphericalSymGrid": 3, "CylindricalSymGrid": 3}


BOGUS_KEYS = ["z", "y", "w", "x--", "x+-", "X", "top", "bottom", "front", "back", "inner", "outer", "left", "right",
              "upper", "foo", "r", "z+", "y-", "all", "low-", "high+"]


def unknown_keys(gd):
    """keys that mean nothing on this grid (another grid's axis or side name, misspellings)"""
    nax = len(gd["shape"])
    axes = list(AXES[gd["cls"]])[:nax]
    known = set(axes) | {a + e for a in axes for e in "-+"} | {n for n, a, _ in SIDE_NAMES[gd["cls"]] if a < nax}
    return [k for k in BOGUS_KEYS if k not in known]


def gen_case(rng, hist, extended=False):
    """`extended=False`: the generator the other checks were built on (unchanged random stream);
    `extended=True` (C02): additionally negative/infinite/singular Robin coefficients, the
    {'low','high'} / two-element-sequence / legacy-list formats and keys the grid does not know"""
    gd = gen_grid(rng)
    nax = len(gd["shape"])
    axes = list(AXES[gd["cls"]])[:nax]
    dim = DIM.get(gd["cls"], nax)
    rank = rng.choice([0, 0, 1, 1, 2])
    t = rng.choice([0.0, 0.5, 2.0, -1.25])
    sides = {}
    spec = {}
    fmt_used = []
    seq_type = rng.choice([tuple, list]) if extended else tuple
    legacy = extended and rng.random() < 0.1
    legacy_list = []
    for ax in range(nax):
        if gd["periodic"][ax]:
            anti = rng.random() < 0.3
            name = "anti-periodic" if anti else "periodic"
            for up in (False, True):
                sides[(ax, up)] = {"kind": "antiperiodic" if anti else "periodic", "normal": False, "v": None,
                                   "c": None, "vinf": None, "vshape": [], "alias": name}
            spec[axes[ax]] = name
            legacy_list.append(seq_type([name, name]) if extended and rng.random() < 0.3 else name)
            fmt_used.append("axis")
            hist("value", name)
            continue
        lo = gen_side(rng, gd, axes, dim, ax, rank, t, hist, extended)
        same = rng.random() < 0.25
        hi = dict(lo) if same else gen_side(rng, gd, axes, dim, ax, rank, t, hist, extended)
        sides[(ax, False)], sides[(ax, True)] = lo, hi
        r = rng.random()
        names = {(a, u): n for n, a, u in SIDE_NAMES[gd["cls"]]}
        if extended:
            lowhigh = {"low": lo["spec"], "high": hi["spec"]}
            pair = seq_type([lo["spec"], hi["spec"]])
            legacy_list.append(lo["spec"] if same and rng.random() < 0.5 else rng.choice([lowhigh, pair]))
            r2 = rng.random()
            if r2 < 0.14:
                spec[axes[ax]] = lowhigh
                fmt_used.append("axis:low/high")
                continue
            if r2 < 0.28:
                spec[axes[ax]] = pair
                fmt_used.append("axis:" + seq_type.__name__)
                continue
            if r2 < 0.33 and "*" not in spec and nax == 1:
                spec["*"] = rng.choice([lowhigh, pair])
                fmt_used.append("wildcard:pair")
                continue
        if same and r < 0.6:
            spec[axes[ax]] = lo["spec"]
            fmt_used.append("axis")
        elif r < 0.3 and "*" not in spec:
            # wildcard for the lower side's condition + override of the upper side (wildcard only valid
            # if every other non-specified side can take it: restrict to 1 axis grids or last axis)
            spec[axes[ax] + "-"] = lo["spec"]
            spec[names[(ax, True)]] = hi["spec"]
            fmt_used.append("side+named")
        elif r < 0.55:
            spec[names[(ax, False)]] = lo["spec"]
            spec[axes[ax] + "+"] = hi["spec"]
            fmt_used.append("named+side")
        elif r < 0.7:
            # axis entry overridden by a more specific one
            spec[axes[ax]] = lo["spec"]
            spec[axes[ax] + "+"] = hi["spec"]
            fmt_used.append("axis+override")
        else:
            spec[axes[ax] + "-"] = lo["spec"]
            spec[axes[ax] + "+"] = hi["spec"]
            fmt_used.append("sides")
    # wildcard variant: move one axis-level entry into "*" when it is the only non-side-specific entry
    axis_entries = [k for k in spec if k in axes]
    if len(axis_entries) == 1 and nax == 1 and rng.random() < 0.5:
        spec["*"] = spec.pop(axis_entries[0])
        fmt_used.append("wildcard")
    if extended:
        if legacy:
            # deprecated but accepted: one entry per axis in a list; on a 1-axis grid also the two sides directly
            if nax == 1 and not gd["periodic"][0] and rng.random() < 0.4:
                spec = seq_type([sides[(0, False)]["spec"], sides[(0, True)]["spec"]])
                fmt_used = ["legacy:two-sides"]
            else:
                spec = seq_type(legacy_list)
                fmt_used = ["legacy:list"]
        elif rng.random() < 0.3:
            # keys the grid does not know are ignored (with a warning)
            for k in rng.sample(unknown_keys(gd), rng.randint(1, 2)):
                spec[k] = rng.choice(["value", {"derivative": 2.0}, "periodic", {"type": "mixed", "value": 1.0, "const": 3.0},
                                      {"low": "value", "high": "neumann"}])
            fmt_used.append("+unknown-key")
    for f in fmt_used:
        hist("format", f)
    # field data: integers in the valid cells, distinct markers everywhere else
    fshape = [dim] * rank + [n + 2 for n in gd["shape"]]
    data = np.zeros(fshape)
    it = np.nditer(data, flags=["multi_index"], op_flags=["readwrite"])
    k = 0
    for x in it:
        idx = it.multi_index[rank:]
        valid = all(1 <= idx[j] <= gd["shape"][j] for j in range(nax))
        x[...] = rng.randint(-9, 9) if valid else 1000 + k
        k += 1
    return {"grid": gd, "rank": rank, "dim": dim, "t": t, "sides": sides, "spec": spec, "data": data,
            "axes": axes}


def pack(case):
    import base64, pickle
    return base64.b64encode(pickle.dumps(case)).decode()


def unpack(text):
    import base64, pickle
    return pickle.loads(base64.b64decode(text))


def case_key(case):
    return {"grid": case["grid"], "rank": case["rank"], "t": case["t"],
            "spec": repr(case["spec"]), "data": [float(x) for x in case["data"].ravel()]}


def _exc(e):
    return f"EXC: {type(e).__name__}: {str(e)[:300]}"


def _exc_name(text):
    parts = [x.strip() for x in str(text).split(":")]
    return next((x for x in parts if x.endswith(("Error", "Exception", "Warning"))), parts[0])


def agree(real, exp, scale):
    """NaN-safe comparison (1e-11 relative to max(scale, |expected|) per entry) with an expected array in
    which NaN marks "the real code divides by zero here" (the real entry must then be non-finite)"""
    real, exp = np.asarray(real, dtype=float), np.asarray(exp, dtype=float)
    if real.shape != exp.shape:
        return False
    fin = np.isfinite(exp)
    with np.errstate(invalid="ignore"):
        ok = np.abs(real - exp)[fin] <= 1e-11 * np.maximum(scale, np.abs(exp[fin]))
        return bool(np.all(ok)) and not bool(np.any(np.isfinite(real[~fin])))


def side_float_values(s):
    """float array (shape vshape) of the value of a constant condition, infinities included"""
    vinf = s.get("vinf") or [0] * len(s["v"])
    return np.array([_fl(x, i) for x, i in zip(s["v"], vinf)]).reshape(s["vshape"] or ())


# ------------------------------------------------------------------------------------------
# real code (runs in worker processes)
def real_ghost(arg):
    """returns dict route -> padded array, or the string 'EXC: ...' where the real code raised"""
    import pde
    from pde import get_backend

    import logging
    import warnings

    logging.getLogger("pde").setLevel(logging.ERROR)
    warnings.simplefilter("ignore")
    case, want_numba = arg[0], arg[1]
    grid = make_grid(case["grid"])
    rank = case["rank"]
    nax = grid.num_axes
    out = {}
    args = {"t": case["t"]}
    try:
        bcs = grid.get_boundary_conditions(case["spec"], rank=rank)
    except Exception as e:  # noqa
        return {"error": f"{type(e).__name__}: {e}"}
    try:
        d = case["data"].copy()
        bcs.set_ghost_cells(d, args=args)
        out["interpreted"] = d
    except Exception as e:  # noqa
        out["interpreted"] = _exc(e)
    # field method + boundary values of every face
    cls = [pde.ScalarField, pde.VectorField, pde.Tensor2Field][rank]
    try:
        f = cls(grid, data=case["data"].copy(), with_ghost_cells=True)
        f.set_ghost_cells(case["spec"], args=args)
        out["field"] = f._data_full.copy()
        out["bvals"] = {(ax, up): np.array(f.get_boundary_values(ax, up, bc=None), dtype=float)
                        for ax in range(nax) for up in (False, True)}
    except Exception as e:  # noqa
        out["field"] = _exc(e)
    if arg[2] if len(arg) > 2 else False:
        # get_boundary_values imposing the conditions itself (no `args`: only for conditions that do not depend on t)
        try:
            f = cls(grid, data=case["data"].copy(), with_ghost_cells=True)
            out["bvals_bc"] = {(0, True): np.array(f.get_boundary_values(0, True, bc=case["spec"]), dtype=float)}
            out["bvals_bc_full"] = f._data_full.copy()
        except Exception as e:  # noqa
            out["bvals_bc"] = _exc(e)
    # virtual point data / get_virtual_point of each local condition
    vp, vpt = {}, {}
    valid = tuple([slice(None)] * rank + [slice(1, -1)] * nax)
    arr_valid = case["data"][valid]
    for ax, b in enumerate(bcs):
        for up, s in ((False, b.low), (True, b.high)):
            if not hasattr(s, "get_virtual_point_data"):
                continue
            try:
                data = s.get_virtual_point_data()
                vp[(ax, up)] = [np.array(x, dtype=float) if not isinstance(x, (int, np.integer)) else int(x) for x in data]
            except Exception as e:  # noqa
                vp[(ax, up)] = _exc(e)
            if s.normal:
                continue
            try:
                fshape = [grid.shape[j] for j in range(nax) if j != ax]
                res = np.empty([grid.dim] * rank + fshape)
                for pos in itertools.product(*[range(k) for k in fshape]):
                    idx = list(pos)
                    idx.insert(ax, grid.shape[ax] if up else -1)
                    res[(Ellipsis,) + tuple(pos)] = s.get_virtual_point(arr_valid, tuple(idx))
                vpt[(ax, up)] = res
            except Exception as e:  # noqa
                vpt[(ax, up)] = _exc(e)
    out["vpdata"] = vp
    out["vpoint"] = vpt
    if want_numba:
        from pde.backends.numba.utils import numba_dict

        try:
            setter = get_backend("numba").make_ghost_cell_setter(bcs)
            d2 = case["data"].copy()
            setter(d2, args=numba_dict(t=float(case["t"])))
            out["numba"] = d2
        except Exception as e:  # noqa
            out["numba"] = _exc(e)
    return out


def real_linked(arg):
    """link the values of constant conditions to arrays, impose, overwrite the arrays in place, impose again"""
    import logging
    import warnings
    from pde import get_backend
    from pde.backends.numba.utils import numba_dict

    logging.getLogger("pde").setLevel(logging.ERROR)
    warnings.simplefilter("ignore")
    case, vals2 = arg
    grid = make_grid(case["grid"])
    args = {"t": case["t"]}
    try:
        bcs = grid.get_boundary_conditions(case["spec"], rank=case["rank"])
    except Exception as e:  # noqa
        return {"error": f"{type(e).__name__}: {e}"}
    links = {}
    try:
        for ax, b in enumerate(bcs):
            for up, s in ((False, b.low), (True, b.high)):
                if (ax, up) in vals2:
                    arr = np.array(side_float_values(case["sides"][(ax, up)]), dtype=float, order="C")
                    s.link_value(arr)
                    links[(ax, up)] = arr
    except Exception as e:  # noqa
        return {"error": "link_value: " + _exc(e)}
    out = {}
    setter = None
    for phase in (1, 2):
        if phase == 2:
            for k, arr in links.items():
                arr[...] = np.array(vals2[k], dtype=float).reshape(arr.shape)
        try:
            d = case["data"].copy()
            bcs.set_ghost_cells(d, args=args)
            out[f"interpreted{phase}"] = d
        except Exception as e:  # noqa
            out[f"interpreted{phase}"] = _exc(e)
        try:
            if setter is None:
                setter = get_backend("numba").make_ghost_cell_setter(bcs)
            d2 = case["data"].copy()
            setter(d2, args=numba_dict(t=float(case["t"])))
            out[f"numba{phase}"] = d2
        except Exception as e:  # noqa
            out[f"numba{phase}"] = _exc(e)
    return out


def real_reject(arg):
    """a specification py-pde does not support: returns the exception class name or 'accepted'"""
    import logging

    logging.getLogger("pde").setLevel(logging.ERROR)
    gd, rank, spec = arg
    grid = make_grid(gd)
    try:
        grid.get_boundary_conditions(spec, rank=rank)
    except Exception as e:  # noqa
        return type(e).__name__
    return "accepted"


# ------------------------------------------------------------------------------------------
def model_request(case):
    faces = []
    gd = case["grid"]
    for (ax, up), s in sorted(case["sides"].items(), key=lambda kv: (kv[0][0], not kv[0][1])):
        dx = Fraction(gd["bounds"][ax][1] - gd["bounds"][ax][0]) / gd["shape"][ax]
        cond = {"kind": s["kind"], "vshape": s["vshape"]}
        if s["v"] is not None:
            cond["v"] = [q(x) for x in s["v"]]
        if s["c"] is not None:
            cond["c"] = [q(x) for x in s["c"]]
        if s["kind"] == "mixed":
            cond["dx"] = q(dx)  # the branch of MixedBC.get_virtual_point_data depends on 2 + dx*gamma
            if s.get("vinf"):
                cond["vinf"] = [int(x) for x in s["vinf"]]
        faces.append({"axis": ax, "upper": up, "normal": s["normal"], "dx": q(dx), "cond": cond})
    return {"shape": gd["shape"], "rank": case["rank"], "dim": case["dim"],
            "data": [q(float(x)) for x in case["data"].ravel()], "faces": faces}


def vpdata_request(case, ax, up):
    s = case["sides"][(ax, up)]
    gd = case["grid"]
    dx = Fraction(gd["bounds"][ax][1] - gd["bounds"][ax][0]) / gd["shape"][ax]
    req = {"kind": s["kind"], "dx": q(dx), "N": gd["shape"][ax], "upper": up}
    if s["v"] is not None:
        req["v"] = [q(x) for x in s["v"]]
    if s["c"] is not None:
        req["c"] = [q(x) for x in s["c"]]
    if s.get("vinf"):
        req["vinf"] = [int(x) for x in s["vinf"]]
    return req


def compare_arrays(model, real, scale, div0=()):
    """index of the first differing entry or None; markers/untouched entries must agree exactly;
    NaN-safe (a non-finite entry of the real array differs from every model value), except at the
    indices `div0`, where the model says the real code divides by zero: there the entry must be
    non-finite"""
    real = np.asarray(real, dtype=float).ravel()
    if len(model) != len(real):
        return -1
    div0 = set(div0)
    for i, (m, r) in enumerate(zip(model, real)):
        if i in div0:
            if math.isfinite(r):
                return i
            continue
        mf = float(m)
        if not (abs(mf - r) <= 1e-11 * max(scale, abs(mf))):
            return i
    return None


SINGULAR_WHAT = "robin: d_n c + g c = b fails at a singular coefficient (2 + dx*g = 0)"


def monitor(case, arr):
    """defining equations on every face point of the real padded array + untouched entries;
    NaN-safe; returns the first failure that is not at a singular Robin coefficient if there is one"""
    gd, rank, dim = case["grid"], case["rank"], case["dim"]
    nax = len(gd["shape"])
    shape = gd["shape"]
    orig = case["data"]
    arr = np.asarray(arr, dtype=float)
    if arr.shape != orig.shape:
        return {"what": "shape of the padded array changed", "kind": None, "shape": list(arr.shape)}
    written = np.zeros(arr.shape, dtype=bool)
    tol = 1e-9
    singular_failure = None
    for (ax, up), s in case["sides"].items():
        N = shape[ax]
        dxq = Fraction(gd["bounds"][ax][1] - gd["bounds"][ax][0]) / N
        dx = float(dxq)
        g_i = N + 1 if up else 0
        n_i = N if up else 1
        n2_i = N - 1 if up else 2
        o_i = 1 if up else N
        vrank = rank - 1 if s["normal"] else rank
        comps = list(itertools.product(range(dim), repeat=rank))
        other = [j for j in range(nax) if j != ax]
        vs = None if s["v"] is None else np.array([float(x) for x in s["v"]]).reshape(s["vshape"] or [1])
        cs = None if s["c"] is None else np.array([float(x) for x in s["c"]]).reshape(s["vshape"] or [1])
        vq = None if s["v"] is None else np.array(s["v"], dtype=object).reshape(s["vshape"] or [1])
        vinf = None if not s.get("vinf") else np.array(s["vinf"]).reshape(s["vshape"] or [1])
        for comp in comps:
            if s["normal"] and comp[-1] != ax:
                continue
            for pos in itertools.product(*[range(1, shape[j] + 1) for j in other]):
                sp = list(pos)
                full = lambda c: tuple(comp) + tuple(sp[:ax] + [c] + sp[ax:])
                vi = tuple(comp[:vrank]) + tuple(p - 1 for p in pos)
                if not s["vshape"]:
                    vi = (0,)
                ghost, cell = float(arr[full(g_i)]), float(arr[full(n_i)])
                written[full(g_i)] = True
                k = s["kind"]
                sc = max(1.0, abs(ghost), abs(cell)) if math.isfinite(ghost) and math.isfinite(cell) else 1.0
                singular = False
                if k in ("dirichlet", "exprValue"):
                    lhs, rhs, what = (ghost + cell) / 2, float(vs[vi]), "value: (ghost+cell)/2 = v"
                elif k in ("neumann", "exprDerivative"):
                    lhs, rhs, what = (ghost - cell) / dx, float(vs[vi]), "derivative: (ghost-cell)/dx = d"
                elif k in ("mixed", "exprMixed"):
                    if vinf is not None and vinf[vi]:
                        lhs, rhs, what = (ghost + cell) / 2, 0.0, "robin with infinite coefficient: (ghost+cell)/2 = 0"
                    else:
                        singular = 2 + dxq * vq[vi] == 0
                        gam = float(vs[vi])
                        lhs, rhs, what = (ghost - cell) / dx + gam * (ghost + cell) / 2, float(cs[vi]), "robin: d_n c + g c = b"
                        sc = max(sc, abs(gam) * sc)
                elif k == "curvature":
                    c2 = float(arr[full(n2_i)])
                    lhs, rhs, what = (ghost - 2 * cell + c2) / dx ** 2, float(vs[vi]), "curvature: (ghost-2c1+c2)/dx^2 = k"
                    sc = max(sc, abs(c2) if math.isfinite(c2) else 1.0) / dx ** 2
                elif k == "periodic":
                    lhs, rhs, what = ghost, float(arr[full(o_i)]), "periodic: ghost = opposite cell"
                elif k == "antiperiodic":
                    lhs, rhs, what = ghost, -float(arr[full(o_i)]), "anti-periodic: ghost = -opposite cell"
                else:
                    continue
                if not (abs(lhs - rhs) <= tol * max(sc, abs(rhs))):
                    fail = {"what": SINGULAR_WHAT if singular else what, "axis": ax, "upper": up,
                            "index": [int(i) for i in full(g_i)], "lhs": float(lhs), "rhs": float(rhs), "kind": k,
                            "normal": s["normal"], "singular": bool(singular), "ghost": float(ghost), "cell": float(cell)}
                    if not singular:
                        return fail
                    singular_failure = singular_failure or fail
    untouched = ~written
    same = (arr == orig) | (np.isnan(arr) & np.isnan(orig))
    if not bool(np.all(same[untouched])):
        bad = np.argwhere(untouched & ~same)[0]
        return {"what": "entry that must stay untouched was modified", "index": [int(i) for i in bad], "kind": None,
                "before": float(orig[tuple(bad)]), "after": float(arr[tuple(bad)])}
    return singular_failure


def vpoint_monitor(case, ax, up, vpt):
    """the defining equation of face (ax, up) for the virtual points `vpt` returned by `get_virtual_point`"""
    g, _ = face_slices(case, ax, up)
    arr = np.array(case["data"], dtype=float)
    if np.shape(vpt) != arr[g].shape:
        return {"what": "shape of the virtual points", "kind": case["sides"][(ax, up)]["kind"], "shape": list(np.shape(vpt))}
    arr[g] = vpt
    return monitor(dict(case, sides={(ax, up): case["sides"][(ax, up)]}), arr)


def face_slices(case, ax, up):
    """(ghost, near) index tuples selecting the whole face in the padded array (all components)"""
    rank, nax = case["rank"], len(case["grid"]["shape"])
    N = case["grid"]["shape"][ax]
    g = [slice(None)] * rank + [slice(1, -1)] * nax
    n = list(g)
    g[rank + ax] = N + 1 if up else 0
    n[rank + ax] = N if up else 1
    return tuple(g), tuple(n)


def failure_key(route, m, case):
    """narrow key of a monitor failure (matched against known_findings.json)"""
    key = {"route": route, "kind": m.get("kind")}
    if m.get("singular"):
        if m["kind"] == "mixed":
            key.update(call_site="MixedBC.get_virtual_point_data", symptom="singular-coefficient-imposes-value-0")
        else:
            key.update(call_site="ExpressionBC.set_ghost_cells", symptom="singular-coefficient-division-by-zero")
    return key


# ------------------------------------------------------------------------------------------
# parse leg
PARSE_BOGUS = ["z", "w", "x--", "X", "front", "back", "upper", "foo", "all", "y", "top", "inner", "phi", "theta", "radius-"]


def gen_parse_case(rng, hist):
    cls = rng.choice(["CartesianGrid", "CartesianGrid", "PolarSymGrid", "SphericalSymGrid", "CylindricalSymGrid"])
    nax = {"PolarSymGrid": 1, "SphericalSymGrid": 1, "CylindricalSymGrid": 2}.get(cls) or rng.choice([1, 2, 3])
    gd = {"cls": cls, "shape": [2] * nax, "bounds": [[1.0 if cls != "CartesianGrid" and i == 0 and rng.random() < 0.3 else 0.0, 3.0] for i in range(nax)],
          "periodic": [False if (cls in ("PolarSymGrid", "SphericalSymGrid") or (cls == "CylindricalSymGrid" and i == 0)) else rng.random() < 0.4 for i in range(nax)]}
    axes = list(AXES[cls])[:nax]
    alt = {"PolarSymGrid": [["radius", "r"], ["phi", "φ"]], "SphericalSymGrid": [["radius", "r"], ["theta", "θ"], ["phi", "φ"]],
           "CylindricalSymGrid": [["phi", "φ"]]}.get(cls, [])
    sides = [[n, a, u] for n, a, u in SIDE_NAMES[cls] if a < nax]
    vid_counter = [0]
    seq_type = rng.choice([tuple, list])
    side_names = {n for n, _, _ in sides}

    def spec_for(per_hint):
        vid_counter[0] += 1
        vid = vid_counter[0]
        r = rng.random()
        if per_hint and r < 0.6:
            return ({"t": "periodic"}, "periodic")
        if per_hint and r < 0.75:
            return ({"t": "antiperiodic"}, "anti-periodic")
        if r < 0.03:
            return ({"t": "periodic"}, "periodic")
        if r < 0.09:
            name = rng.choice(["value", "neumann", "derivative"])
            return ({"t": "auto", "name": name, "vid": 0}, "auto_periodic_" + name)
        if r < 0.12:
            return ({"t": "named", "name": "bogus_name", "vid": vid}, {"bogus_name": vid})
        kind = rng.choice(["dirichlet", "neumann", "mixed", "curvature", "exprValue", "exprDerivative"])
        name = rng.choice(ALIASES[kind])
        if kind.startswith("expr"):
            return ({"t": "named", "name": name, "vid": vid}, {name: str(vid)})
        if rng.random() < 0.3:
            return ({"t": "named", "name": name, "vid": 0}, name)
        if rng.random() < 0.5:
            return ({"t": "named", "name": name, "vid": vid}, {"type": name, "value": vid})
        return ({"t": "named", "name": name, "vid": vid}, {name: vid})

    def inner_spec(per_hint):
        """a condition inside a composite entry: mostly a valid local condition"""
        while True:
            m, p = spec_for(per_hint)
            if (m["t"] == "named" and m["name"] != "bogus_name") or rng.random() < 0.2:
                return m, p

    def lowhigh_for(per_hint):
        lo = None if rng.random() < 0.05 else inner_spec(per_hint and rng.random() < 0.3)
        hi = None if (rng.random() < 0.05 and lo is not None) else inner_spec(per_hint and rng.random() < 0.3)
        extra = rng.random() < 0.05
        py = {}
        if lo is not None:
            py["low"] = lo[1]
        if hi is not None:
            py["high"] = hi[1]
        if extra:
            py["unused"] = 0
        hist("parse-entry", "low/high" + ("" if lo and hi and not extra else ":incomplete"))
        return ({"t": "lowhigh", "lo": lo and lo[0], "hi": hi and hi[0], "extra": extra}, py)

    def entry_for(per_hint, axis_level=True):
        """(model entry, python value) written for an axis or `*` (`axis_level`), or for a side / named boundary,
        where anything but a single condition is an error unless both sides get equal values"""
        r = rng.random()
        if r < (0.6 if axis_level and not per_hint else 0.93):
            hist("parse-entry", "one")
            return spec_for(per_hint)
        if r < (0.8 if axis_level else 0.965):
            return lowhigh_for(per_hint)
        k = rng.choice([2, 2, 2, 2, 2, 2, 2, 2, 0, 1, 3])
        if k == 2 and rng.random() < 0.2:
            one = spec_for(per_hint)
            items = [one, one]  # two identical conditions
        else:
            items = [inner_spec(per_hint and rng.random() < 0.5) for _ in range(k)]
        hist("parse-entry", f"{seq_type.__name__}:{k}")
        return ({"t": "seq", "l": [m for m, _ in items]}, seq_type([p for _, p in items]))

    r0 = rng.random()
    if r0 < 0.13:
        m, p = spec_for(all(gd["periodic"]))
        top_m, top_p = {"all": m}, p
        hist("parse-format", "single-for-all")
    elif r0 < 0.19:
        m, p = lowhigh_for(all(gd["periodic"]))
        top_m, top_p = {"lowhigh": m}, p
        hist("parse-format", "legacy:low/high-for-all")
    elif r0 < 0.29:
        k = rng.choice([nax, nax, nax, nax, nax + 1, max(nax - 1, 1), 2])
        items = [entry_for(gd["periodic"][i % nax] and rng.random() < 0.9) for i in range(k)]
        top_m, top_p = {"list": [m for m, _ in items]}, seq_type([p for _, p in items])
        hist("parse-format", "legacy:list")
    else:
        d_m, d_p = [], {}
        keys = []
        for ax in range(nax):
            per = gd["periodic"][ax]
            r = rng.random()
            cand = []
            if r < 0.35:
                cand = [axes[ax]]
            elif r < 0.6:
                cand = [axes[ax] + "-", axes[ax] + "+"]
            elif r < 0.75:
                cand = [axes[ax], axes[ax] + rng.choice("-+")]
            elif r < 0.9:
                cand = [n for n, a, u in SIDE_NAMES[cls] if a == ax] + ([axes[ax] + "-"] if rng.random() < 0.3 else [])
            else:
                cand = [axes[ax] + "-"]  # one side missing (error unless wildcard)
            # alternative axis names
            for pat, rep in alt:
                if rep == axes[ax] and rng.random() < 0.3:
                    cand = [c.replace(rep, pat, 1) if c.startswith(rep) and c[len(rep):] in ("", "-", "+") else c for c in cand]
                    if rng.random() < 0.15:
                        cand.append(rep)  # duplicate -> key error if the replaced name is present too
            keys.append((cand, per))
        if rng.random() < 0.3:
            keys.append((["*"], False))
        if rng.random() < 0.25:
            # keys the grid does not know (ignored), incl. alternative names of coordinates that are not axes
            known = set(axes) | {a + e for a in axes for e in "-+"} | {n for n, _, _ in sides} | {p + e for p, r_ in alt if r_ in axes for e in ("", "-", "+")}
            pool = [k for k in PARSE_BOGUS if k not in known]
            keys.append((rng.sample(pool, rng.randint(1, 2)), False))
        for cand, per in keys:
            for k in cand:
                if k in d_p:
                    continue
                # a one-sided entry on a periodic axis is usually wrong on purpose only sometimes
                m, p = entry_for(per and (rng.random() < 0.9), axis_level=(k == "*" or not k.endswith(("-", "+"))) and k not in side_names)
                d_m.append([k, m])
                d_p[k] = p
        top_m, top_p = {"dict": d_m}, d_p
        hist("parse-format", "dict")
    return {"grid": gd, "axes": axes, "alt": alt, "sides": sides, "periodic": gd["periodic"], "top_model": top_m,
            "top_py": top_p}


def real_parse(case):
    from pde.grids.boundaries.axes import BoundariesList
    from pde.grids.boundaries.axis import BoundaryPeriodic
    from pde.grids.boundaries.local import BCDataError
    from pde.grids.boundaries.axes import PeriodicityError

    import logging
    import warnings

    logging.getLogger("pde").setLevel(logging.ERROR)
    grid = make_grid(case["grid"])
    try:
        with warnings.catch_warnings():
            warnings.simplefilter("ignore")
            bcs = BoundariesList.from_data(case["top_py"], grid=grid, rank=0)
    except PeriodicityError:
        return "error:periodicity"
    except BCDataError:
        return "error:bcdata"
    except KeyError:
        return "error:key"
    except Exception as e:  # noqa
        return f"error:other:{type(e).__name__}:{e}"
    res = []
    for b in bcs:
        if isinstance(b, BoundaryPeriodic):
            res.append("anti-periodic" if b.flip_sign else "periodic")
        else:
            pair = []
            for s in (b.low, b.high):
                if hasattr(s, "_input"):
                    vid = int(float(s._input["value_expr"]))
                else:
                    vid = int(np.asarray(s.value).ravel()[0])
                pair.append([type(s).__name__, vid])
            res.append(pair)
    return res


def parse_monitor(p, real):
    """every accepted specification yields one condition per axis that agrees with the grid's periodicity"""
    if isinstance(real, str):
        return None
    if len(real) != len(p["axes"]):
        return {"what": "number of resolved axes", "call_site": "BoundariesList.from_data"}
    for ax, r in enumerate(real):
        if (r in ("periodic", "anti-periodic")) != p["periodic"][ax]:
            return {"what": "accepted condition contradicts grid periodicity", "call_site": "get_boundary_axis"}
    return None


DOC_ALIAS_CLASS = {"dirichlet": "DirichletBC", "neumann": "NeumannBC", "mixed": "MixedBC", "curvature": "CurvatureBC",
                   "n_dirichlet": "NormalDirichletBC", "n_neumann": "NormalNeumannBC", "n_mixed": "NormalMixedBC",
                   "n_curvature": "NormalCurvatureBC", "exprValue": "ExpressionValueBC",
                   "exprDerivative": "ExpressionDerivativeBC", "exprMixed": "ExpressionMixedBC"}


def alias_monitor():
    """(real table, first documented alias that denotes another class or None)"""
    from pde.grids.boundaries.local import registered_boundary_condition_names

    real_alias = sorted((k, v.__name__) for k, v in registered_boundary_condition_names().items())
    doc = dict(sum([[(a, k) for a in v] for k, v in ALIASES.items()], []))
    for a, k in doc.items():
        got = dict(real_alias).get(a)
        if got != DOC_ALIAS_CLASS[k]:
            return real_alias, {"alias": a, "got": got, "expected": DOC_ALIAS_CLASS[k]}
    return real_alias, None


# ------------------------------------------------------------------------------------------
def _model_scale(model):
    small = [abs(float(x)) for x in model if abs(float(x)) < 900]
    return max(1.0, max(small) if small else 1.0)


def _depends_on_t(case):
    return any(s["kind"].startswith("expr") and "t" in (s.get("text") or "") + (s.get("ctext") or "")
               for s in case["sides"].values())


def gen_linked(rng, case, hist):
    """second set of values (full value shape) for the constant conditions whose value gets linked:
    {(ax, up): (exact values, infinity flags)}; {} if the case has no such condition"""
    out = {}
    for key, s in case["sides"].items():
        if s["kind"] not in ("dirichlet", "neumann", "mixed", "curvature") or rng.random() < 0.25:
            continue
        n = len(s["v"])
        if s["kind"] == "mixed":
            v2 = [Fraction(rng.randint(0, 8), rng.choice([1, 2, 4])) for _ in range(n)]
            inf2 = [(rng.choice([1, -1]) if rng.random() < 0.2 else 0) for _ in range(n)]
            v2 = [Fraction(0) if i else x for x, i in zip(v2, inf2)]
        else:
            v2 = [Fraction(rng.randint(-8, 8), rng.choice([1, 2, 4])) for _ in range(n)]
            inf2 = [0] * n
        out[key] = (v2, inf2)
        hist("linked", ("n_" if s["normal"] else "") + s["kind"])
    return out


def linked_case2(case, vals2):
    """the case after the linked arrays have been overwritten"""
    c2 = dict(case)
    c2["sides"] = {k: dict(s) for k, s in case["sides"].items()}
    for key, (v2, inf2) in vals2.items():
        c2["sides"][key]["v"] = list(v2)
        c2["sides"][key]["vinf"] = list(inf2) if any(inf2) else None
    return c2


def linked_request(case, vals2, phase):
    """request of the handler `c02.linked` (= `setBoundariesLinked` of Model/BC.lean): the conditions whose value is
    linked refer to a slot of the store, the store holds the content of the linked arrays at the time of the call
    (phase 1: the values as given, phase 2: the overwritten arrays)"""
    req = model_request(case)
    items = sorted(case["sides"].items(), key=lambda kv: (kv[0][0], not kv[0][1]))
    store = []
    for face, (key, s) in zip(req["faces"], items):
        assert (face["axis"], face["upper"]) == key
        if key not in vals2:
            continue
        if phase == 1:
            v, vinf = s["v"], s.get("vinf")
        else:
            v, vinf = vals2[key]
        slot = {"vshape": s["vshape"], "ncomp": case["rank"] - 1 if s["normal"] else case["rank"], "v": [q(x) for x in v]}
        if vinf and any(vinf):
            slot["vinf"] = [int(x) for x in vinf]
        face["cond"]["slot"] = len(store)
        face["cond"].pop("v", None)       # the condition does not own a value any more
        face["cond"].pop("vinf", None)
        store.append(slot)
    req["store"] = store
    return req


def linked_failure_key(route, phase, m, case):
    key = {"route": route, "phase": phase, "kind": m.get("kind")}
    if m.get("singular"):
        return dict(failure_key(route, m, case), phase=phase)
    if m.get("kind") == "curvature" and route == "numba" and phase == 2:
        key.update(call_site="numba _get_virtual_point_data_2ndorder", symptom="linked-value-frozen-at-compile-time")
    elif m.get("kind") == "mixed":
        key.update(call_site="MixedBC.link_value", symptom="const-not-broadcast-to-linked-value-shape")
    return key


def gen_reject(rng):
    """expression conditions on vector/tensor fields: not supported by py-pde -> NotImplementedError"""
    while True:
        gd = gen_grid(rng)
        if not all(gd["periodic"]):
            break
    nax = len(gd["shape"])
    axes = list(AXES[gd["cls"]])[:nax]
    rank = rng.choice([1, 2])
    ax = rng.choice([i for i in range(nax) if not gd["periodic"][i]])
    others = [a for i, a in enumerate(axes) if i != ax]
    text = poly_text(gen_poly(rng, others, True))
    kind = rng.choice(["exprValue", "exprDerivative", "exprMixed", "const-string", "const-string"])
    if kind == "const-string":
        bad = {rng.choice(["value", "derivative", "curvature", "normal_value"]): poly_text(gen_poly(rng, others, False))}
    elif kind == "exprMixed":
        bad = {"type": rng.choice(ALIASES[kind]), "value": "1", "const": text}
    else:
        bad = {rng.choice(ALIASES[kind]): text}
    if rank == 1 and kind == "const-string" and "normal_value" in bad:
        # a normal condition on a vector field has a scalar value: a string IS supported there
        bad = {"value": bad["normal_value"]}
    spec = {}
    for i in range(nax):
        spec[axes[i]] = "periodic" if gd["periodic"][i] else "derivative"
    spec[axes[ax] + rng.choice("-+")] = bad
    return {"grid": gd, "rank": rank, "spec": spec, "kind": kind}


def run(ctx):
    from harness.common.lean import LeanBatch
    from harness.common import lean as lean_mod
    import logging
    import pde  # noqa

    logging.getLogger("pde").setLevel(logging.ERROR)

    rng = ctx.rng
    n_ghost = ctx.budget(500, 6000)
    n_jit = ctx.budget(24, 200)
    n_parse = ctx.budget(900, 9000)
    n_link = ctx.budget(70, 700)
    n_link_jit = ctx.budget(10, 80)
    n_reject = ctx.budget(40, 300)
    batch = LeanBatch(ctx.workdir)

    # ---- alias table ------------------------------------------------------------------------
    i_alias = batch.add("c02.aliases", {})

    # ---- ghost leg -----------------------------------------------------------------------------
    cases = [gen_case(rng, ctx.hist, extended=True) for _ in range(n_ghost)]
    reqs = [batch.add("c02.ghost2", model_request(c)) for c in cases]
    vpreqs = [{key: batch.add("c02.vpdata", vpdata_request(c, *key)) for key, s in c["sides"].items()
               if s["kind"] in ("dirichlet", "neumann", "mixed", "curvature", "periodic", "antiperiodic")} for c in cases]
    # real code: all cases with source semantics of the numba kernels, a subset compiled
    res_s = run_many("harness.c02", "real_ghost", [(c, True, not _depends_on_t(c)) for c in cases],
                     env={"NUMBA_DISABLE_JIT": "1"}, procs=16)
    jit_ids = sorted(rng.sample(range(len(cases)), min(n_jit, len(cases))))
    res_j = run_many("harness.c02", "real_ghost", [(cases[i], True, False) for i in jit_ids], env={"NUMBA_DISABLE_JIT": "0"}, procs=16)
    res_j = dict(zip(jit_ids, res_j))

    # ---- linked leg ----------------------------------------------------------------------------
    lcases = []
    while len(lcases) < n_link:
        c = gen_case(rng, lambda *a, **k: None, extended=True)
        v2 = gen_linked(rng, c, ctx.hist)
        if v2:
            lcases.append((c, v2))
    lreqs = [(batch.add("c02.linked", linked_request(c, v2, 1)), batch.add("c02.linked", linked_request(c, v2, 2)))
             for c, v2 in lcases]
    # the same two states evaluated without links (conditions owning the values): must give the same arrays
    lreqs_own = [(batch.add("c02.ghost2", model_request(c)), batch.add("c02.ghost2", model_request(linked_case2(c, v2))))
                 for c, v2 in lcases]
    largs = [(c, {k: [_fl(x, i) for x, i in zip(*v)] for k, v in v2.items()}) for c, v2 in lcases]
    lres_s = run_many("harness.c02", "real_linked", largs, env={"NUMBA_DISABLE_JIT": "1"}, procs=16)
    ljit_ids = list(range(min(n_link_jit, len(lcases))))
    lres_j = dict(zip(ljit_ids, run_many("harness.c02", "real_linked", [largs[i] for i in ljit_ids],
                                         env={"NUMBA_DISABLE_JIT": "0"}, procs=16)))

    # ---- reject leg ----------------------------------------------------------------------------
    rcases = [gen_reject(rng) for _ in range(n_reject)]
    rres = run_many("harness.c02", "real_reject", [(r["grid"], r["rank"], r["spec"]) for r in rcases], procs=8)

    # ---- parse leg -----------------------------------------------------------------------------
    pcases = [gen_parse_case(rng, ctx.hist) for _ in range(n_parse)]
    preqs = [batch.add("c02.parse", {"axes": p["axes"], "alt": p["alt"], "sides": p["sides"], "periodic": p["periodic"],
                                     "top": p["top_model"]}) for p in pcases]
    answers = batch.run()

    # alias table
    real_alias, bad_alias = alias_monitor()
    st, val = answers[i_alias]
    model_alias = sorted((a, b) for a, b in val) if st == "ok" else None
    ctx.count({"leg": "aliases"}, nontrivial=True, leg="aliases")
    ctx.impl_traces += 1
    ctx.monitor_evals += 1
    if model_alias != real_alias:
        diff = sorted(set(real_alias) ^ set(model_alias or []))
        ctx.disagree("aliases", {"table": "registered_boundary_condition_names"}, model_alias, real_alias, f"differing entries {diff}")
    if bad_alias:
        # property-level: an alias that denotes a different class than documented
        ctx.monitor_fail("aliases", {"alias": bad_alias["alias"], "leg": "aliases"}, bad_alias["got"], bad_alias["expected"],
                         "alias denotes another condition class", key={"call_site": "registered_boundary_condition_names"})

    def judge(c, ckey, leg, rname, arr, model, div0, singular, mode, extra_case=None, keyfn=failure_key):
        """compare one route's padded array with the model and run the monitor on it; `div0` = flat
        indices where the model says the real code divides by zero (entry non-finite or ZeroDivisionError),
        `singular` = the case contains a singular Robin coefficient (a ValueError saying so is a correct refusal)"""
        base = {"spec": repr(c["spec"]), "grid": c["grid"], "rank": c["rank"], "t": c["t"], "data": ckey["data"]}
        ctx.impl_traces += 1
        ctx.monitor_evals += 1
        rec = dict(base, route=rname, mode=mode, leg=leg, pickle_case=pack(c))
        rec.update(extra_case or {})
        if isinstance(arr, str):
            if singular and "ValueError" in arr and "singular" in arr.lower():
                ctx.hist("outcome", "singular coefficient rejected with ValueError")
                return
            if div0 and "ZeroDivisionError" in arr:
                ctx.hist("outcome", "division by zero in an expression raised ZeroDivisionError")
                return
            ctx.monitor_fail(leg + ":" + rname, rec, arr, "conditions are imposed", "imposing accepted conditions raised an exception",
                             key={"route": rname, "symptom": "exception", "exception": _exc_name(arr)})
            return
        bad = compare_arrays(model, arr, _model_scale(model), div0)
        if bad is not None:
            flat = np.asarray(arr, dtype=float).ravel()
            idx = np.unravel_index(bad, np.asarray(arr).shape) if bad >= 0 else None
            ctx.disagree(leg + ":" + rname, base,
                         {"index": None if idx is None else [int(i) for i in idx], "value": str(model[bad]) if bad >= 0 else None,
                          "division_by_zero_expected": bool(bad in set(div0))},
                         {"value": float(flat[bad]) if bad >= 0 else None, "len": len(flat)}, "padded arrays differ")
        m = monitor(c, arr)
        if m:
            ctx.monitor_fail(leg + ":" + rname, rec, m, "condition holds on every face point; other entries untouched", m["what"],
                             key=keyfn(rname, m, c))

    def model_of(ri):
        st, val = answers[ri]
        if st != "ok":
            return None, val, None
        # "grid": the request listed every face of the grid in setter order and was evaluated through
        # `setBoundaries` (the definition the composed theorems of Props/C02b are about)
        ctx.hist("model definition", "setBoundaries" if val.get("grid") else "setGhostAll (incomplete face list)")
        if not val.get("grid"):
            ctx.disagree("ghost:model-definition", {"request": ri}, "complete list of the grid's faces in setter order",
                         "other", "the model request was not evaluated through setBoundaries")
        return [unq(x) for x in val["a"]], list(val["div0"]), list(val["sing"])

    def judge_ghost_case(ci, c, ri):
        key = case_key(c)
        nontriv = any((s["v"] is not None and (any(x != 0 for x in s["v"]) or s.get("vinf"))) or s["kind"] in ("periodic", "antiperiodic")
                      for s in c["sides"].values())
        ctx.count(key, nontrivial=nontriv, leg="ghost")
        ctx.hist("grid", f"{c['grid']['cls']}/{len(c['grid']['shape'])}d/rank{c['rank']}")
        model, div0, singular = model_of(ri)
        rs = res_s[ci]
        if isinstance(rs, str) or "error" in rs:
            ctx.disagree("ghost", {"spec": repr(c["spec"]), "grid": c["grid"], "rank": c["rank"]}, "accepted",
                         rs if isinstance(rs, str) else rs["error"], "real code rejected a specification the generator considers valid")
            return
        if model is None:
            ctx.disagree("ghost", key, f"model error {div0}", "ok")
            return
        if div0:
            ctx.hist("outcome", "model: expression divides by zero")
        if singular:
            ctx.hist("outcome", "model: singular Robin coefficient")
        routes = [("interpreted", rs["interpreted"], "source"), ("field.set_ghost_cells", rs["field"], "source"),
                  ("numba-setter(source)", rs["numba"], "source")]
        if "bvals_bc_full" in rs:
            routes.append(("get_boundary_values(bc)", rs["bvals_bc_full"], "source"))
        elif isinstance(rs.get("bvals_bc"), str):
            routes.append(("get_boundary_values(bc)", rs["bvals_bc"], "source"))
        if ci in res_j:
            rj = res_j[ci]
            routes.append(("numba-setter(jit)", rj if isinstance(rj, str) else rj.get("numba", rj.get("error", "EXC: ?: no result")), "jit"))
            ctx.hist("route", "numba-jit")
        for rname, arr, mode in routes:
            judge(c, key, "ghost", rname, arr, model, div0, singular, mode)
        marr = np.array([float(x) for x in model])
        marr[list(div0)] = np.nan  # the real code divides by zero there: any non-finite entry
        marr = marr.reshape(c["data"].shape)
        # field.get_boundary_values = (ghost + cell)/2 of the model's array, on every face
        for src, tab in (("get_boundary_values", rs.get("bvals")), ("get_boundary_values(bc)", rs.get("bvals_bc"))):
            if not isinstance(tab, dict):
                continue
            for (ax, up), bv in tab.items():
                g, n = face_slices(c, ax, up)
                exp = (marr[g] + marr[n]) / 2
                ctx.impl_traces += 1
                if not agree(bv, exp, _model_scale(model)):
                    ctx.disagree("ghost:" + src, {"spec": repr(c["spec"]), "grid": c["grid"], "rank": c["rank"], "axis": ax, "upper": up},
                                 exp.tolist(), bv.tolist(), "boundary values differ from (ghost+cell)/2 of the model")
                s = c["sides"][(ax, up)]
                if s["kind"] == "dirichlet" and not s["normal"]:
                    # monitor: the value condition read through the public accessor
                    ctx.monitor_evals += 1
                    want = np.array([float(x) for x in s["v"]]).reshape(s["vshape"] or ())
                    if bv.shape != np.shape(want) or not bool(np.all(np.abs(bv - want) <= 1e-9 * np.maximum(1.0, np.abs(want)))):
                        ctx.monitor_fail("ghost:" + src, {"spec": repr(c["spec"]), "grid": c["grid"], "rank": c["rank"], "t": c["t"],
                                                          "data": key["data"], "route": src, "mode": "source", "leg": "ghost",
                                                          "axis": ax, "upper": up, "pickle_case": pack(c)},
                                         bv.tolist(), want.tolist(), "get_boundary_values differs from the imposed value",
                                         key={"route": src, "kind": "dirichlet"})
        # get_virtual_point of constant conditions = the ghost entries of the model
        for (ax, up), vpt in rs["vpoint"].items():
            s = c["sides"][(ax, up)]
            ctx.impl_traces += 1
            if isinstance(vpt, str):
                if not (singular and "ValueError" in vpt and "singular" in vpt.lower()):
                    ctx.disagree("ghost:get_virtual_point", {"spec": repr(c["spec"]), "grid": c["grid"], "axis": ax, "upper": up},
                                 "ok", vpt, "get_virtual_point raised")
                continue
            g, _ = face_slices(c, ax, up)
            exp = marr[g]
            if not agree(vpt, exp, _model_scale(model)):
                ctx.disagree("ghost:get_virtual_point", {"spec": repr(c["spec"]), "grid": c["grid"], "rank": c["rank"], "axis": ax, "upper": up},
                             exp.tolist(), vpt.tolist(), "virtual points differ")
            # monitor: the virtual points returned for this face satisfy the face's defining equation
            ctx.monitor_evals += 1
            m = vpoint_monitor(c, ax, up, vpt)
            if m:
                ctx.monitor_fail("ghost:get_virtual_point", {"spec": repr(c["spec"]), "grid": c["grid"], "rank": c["rank"], "t": c["t"],
                                                             "data": key["data"], "route": "get_virtual_point", "mode": "source",
                                                             "leg": "ghost", "axis": ax, "upper": up, "pickle_case": pack(c)},
                                 m, "the virtual point satisfies the condition", m["what"], key=failure_key("get_virtual_point", m, c))
        # get_virtual_point_data (const, factor, index) of every constant / periodic condition
        for (ax, up), vri in vpreqs[ci].items():
            s = c["sides"][(ax, up)]
            vp = rs["vpdata"].get((ax, up))
            stv, mv = answers[vri]
            ctx.impl_traces += 1
            vkey = {"spec": repr(c["spec"]), "grid": c["grid"], "rank": c["rank"], "axis": ax, "upper": up, "kind": s["kind"]}
            if stv != "ok":
                ctx.disagree("vpdata", vkey, f"model error {mv}", "ok")
                continue
            if vp is None or isinstance(vp, str):
                if not (isinstance(vp, str) and singular and "ValueError" in vp and "singular" in vp.lower()):
                    ctx.disagree("vpdata", vkey, "data", vp, "get_virtual_point_data missing or raised")
                continue
            rows = [[float(unq(x)) for x in r] for r in mv["rows"]]
            vshape = s["vshape"] if s["kind"] not in ("periodic", "antiperiodic") else []
            ncol = 3 if s["kind"] == "curvature" else 2
            if len(vp) != (5 if ncol == 3 else 3):
                ctx.disagree("vpdata", vkey, f"{2 * ncol - 1} items", f"{len(vp)} items", "layout of get_virtual_point_data")
                continue
            real_cols = [vp[0], vp[1]] + ([vp[3]] if ncol == 3 else [])
            idx_real = [int(vp[2])] + ([int(vp[4])] if ncol == 3 else [])
            idx_model = [int(mv["index"])] + ([int(mv["index2"])] if ncol == 3 else [])
            if idx_real != idx_model:
                ctx.disagree("vpdata", vkey, idx_model, idx_real, "index of the cell(s) read")
            for col in range(ncol):
                want = np.array([r[col] for r in rows]).reshape(vshape or ())
                got = np.asarray(real_cols[col], dtype=float)
                try:
                    # homogeneous data has the tensor shape only: add the face axes
                    got = np.broadcast_to(got.reshape(got.shape + (1,) * (want.ndim - got.ndim)), want.shape)
                    ok = bool(np.all(np.abs(got - want) <= 1e-11 * np.maximum(1.0, np.abs(want))))
                except ValueError:
                    ok = False
                if not ok:
                    ctx.disagree("vpdata", vkey, want.tolist(), np.asarray(real_cols[col]).tolist(),
                                 ["const", "factor", "factor2"][col] + " of get_virtual_point_data")
                    break

    # ---- linked leg: judged after the link (phase 1) and after overwriting the linked arrays (phase 2)
    def judge_linked_case(li, c, v2, r1, r2):
        key = case_key(c)
        ctx.count({"case": key, "values2": {str(k): [str(x) for x in v[0]] + [str(i) for i in v[1]] for k, v in v2.items()}},
                  nontrivial=True, leg="linked")
        c2 = linked_case2(c, v2)
        for mode, res in (("source", lres_s[li]), ("jit", lres_j.get(li))):
            if res is None:
                continue
            if isinstance(res, str) or "error" in res:
                ctx.disagree("linked", {"spec": repr(c["spec"]), "grid": c["grid"], "rank": c["rank"]}, "accepted",
                             res if isinstance(res, str) else res["error"], "real code rejected the specification or link_value")
                continue
            for phase, cc, ri in ((1, c, r1), (2, c2, r2)):
                model, div0, singular = model_of(ri)
                if model is None:
                    ctx.disagree("linked", key, f"model error {div0}", "ok")
                    continue
                for route in ("interpreted", "numba"):
                    # the compiled setter of a LINKED mixed condition tests `np.isinf(value)` only: at a singular
                    # coefficient it divides by zero (the interpreted path takes the corrected branch)
                    d0 = sorted(set(div0) | set(singular)) if route == "numba" else div0
                    got = res[f"{route}{phase}"]
                    if route == "numba" and mode == "jit" and isinstance(got, str) and "TypingError" in got \
                            and any(c["sides"][k]["vshape"] == [] for k in v2):
                        # observation (mirrors the code that exists): the value getter of a linked 0-d array (point
                        # boundary of a 1-axis grid, scalar value) does not compile - a loud refusal, nothing is imposed
                        ctx.hist("outcome", "linked 0-d value: compiled setter refuses with TypingError")
                        ctx.impl_traces += 1
                        continue
                    judge(cc, key, "linked", f"{route}{phase}({mode})", got, model, d0, singular, mode,
                          extra_case={"pickle_values2": pack(v2), "phase": phase, "pickle_case": pack(c)},
                          keyfn=lambda rn, m, case, route=route, phase=phase: linked_failure_key(route, phase, m, case))

    def guarded(leg, case, fn):
        """a result of the real code that the harness cannot even interpret is a disagreement with the model, not a
        defect of the check"""
        try:
            fn()
        except lean_mod.BrokenCheck:
            raise
        except Exception as e:  # noqa
            import traceback
            ctx.disagree(leg, {"spec": repr(case["spec"]), "grid": case["grid"], "rank": case["rank"]}, "a result of the modelled layout",
                         traceback.format_exc()[-600:], f"result of the real code could not be interpreted ({type(e).__name__})")

    for ci, (c, ri) in enumerate(zip(cases, reqs)):
        guarded("ghost", c, lambda ci=ci, c=c, ri=ri: judge_ghost_case(ci, c, ri))

    for li, ((c, v2), (r1, r2)) in enumerate(zip(lcases, lreqs)):
        guarded("linked", c, lambda li=li, c=c, v2=v2, r1=r1, r2=r2: judge_linked_case(li, c, v2, r1, r2))
        # `setBoundariesLinked` with the store of each phase = `setBoundaries` of conditions owning those values
        for ph, (rl, ro) in enumerate(zip((r1, r2), lreqs_own[li]), 1):
            ctx.hist("model definition", "setBoundariesLinked")
            if answers[rl] != answers[ro]:
                ctx.disagree("linked:model-definition", {"spec": repr(c["spec"]), "grid": c["grid"], "phase": ph},
                             str(answers[rl])[:300], str(answers[ro])[:300], "setBoundariesLinked differs from setBoundaries")
    # ---- reject leg
    for r, got in zip(rcases, rres):
        rkey = {"grid": r["grid"], "rank": r["rank"], "spec": repr(r["spec"])}
        ctx.count(rkey, nontrivial=True, leg="reject")
        ctx.hist("reject", f"{r['kind']}/rank{r['rank']}:{got}")
        ctx.impl_traces += 1
        if got != "NotImplementedError":
            ctx.disagree("reject", rkey, "NotImplementedError", got, "expression condition for a vector/tensor field")

    for p, ri in zip(pcases, preqs):
        key = {"grid": p["grid"]["cls"], "periodic": p["periodic"], "top": repr(p["top_py"])}
        real = real_parse(p)
        st, val = answers[ri]
        ctx.impl_traces += 1
        ctx.hist("parse-outcome", real if isinstance(real, str) and real.startswith("error") else "ok")
        ctx.count(key, nontrivial=not (isinstance(real, str)), leg="parse")
        if st != "ok" or val != real:
            if isinstance(real, str) and real.startswith("error:other"):
                ctx.disagree("parse", key, val, real, "unexpected exception class")
            else:
                ctx.disagree("parse", key, val, real, "resolved conditions differ")
        # monitor for the parse level: every side has exactly one condition or an error was raised
        ctx.monitor_evals += 1
        m = parse_monitor(p, real)
        if m:
            ctx.monitor_fail("parse", dict(key, leg="parse", pickle_parse=pack(p)), real, "one condition per axis, periodic iff the grid is",
                             m["what"], key={"call_site": m["call_site"]})


def replay(ctx, rep):
    """re-run the recorded case on the real code - same leg, same route, same execution mode
    (compiled / source semantics) - and judge the recorded symptom; False iff it still fails"""
    c = rep["case"]
    leg = c.get("leg") or ("ghost" if c.get("pickle_case") else None)
    if leg == "aliases":
        _, bad = alias_monitor()
        print("alias table:", "documented classes" if bad is None else bad)
        return bad is None
    if leg == "parse":
        p = unpack(c["pickle_parse"])
        real = real_parse(p)
        m = parse_monitor(p, real)
        print(f"specification {p['top_py']!r} on {p['grid']}: resolved {real}; monitor {'holds' if m is None else m}")
        return m is None
    if leg not in ("ghost", "linked") or not c.get("pickle_case"):
        print("this replay file does not record a case of a known leg; it cannot be replayed:", {k: v for k, v in c.items() if not k.startswith("pickle")})
        return False
    case = unpack(c["pickle_case"])
    route, mode = c.get("route", "interpreted"), c.get("mode", "source")
    env = {"NUMBA_DISABLE_JIT": "0" if mode == "jit" else "1"}
    if leg == "ghost":
        res = run_many("harness.c02", "real_ghost", [(case, True, route == "get_boundary_values(bc)")], env=env, procs=1)[0]
        if isinstance(res, str) or "error" in res:
            print("real code failed:", res)
            return False
        if route == "get_virtual_point":
            vpt = res["vpoint"].get((c["axis"], c["upper"]))
            if vpt is None or isinstance(vpt, str):
                print(f"route {route}: {vpt}")
                return False
            m = vpoint_monitor(case, c["axis"], c["upper"], vpt)
            print(f"route {route} ({mode}): monitor {'holds' if m is None else m}")
            return m is None
        if route.startswith("get_boundary_values"):
            tab = res.get("bvals_bc" if route.endswith("(bc)") else "bvals")
            arr = res.get("bvals_bc_full") if route.endswith("(bc)") else res.get("field")
            if "axis" in c and isinstance(tab, dict) and (c["axis"], c["upper"]) in tab:
                s = case["sides"][(c["axis"], c["upper"])]
                bv = tab[(c["axis"], c["upper"])]
                want = np.array([float(x) for x in s["v"]]).reshape(s["vshape"] or ())
                ok = bv.shape == np.shape(want) and bool(np.all(np.abs(bv - want) <= 1e-9 * np.maximum(1.0, np.abs(want))))
                print(f"route {route} ({mode}): boundary values {bv.tolist()} imposed {want.tolist()}: {'agree' if ok else 'DIFFER'}")
                return ok
        else:
            arr = res[{"interpreted": "interpreted", "field.set_ghost_cells": "field"}.get(route, "numba")]
        cc = case
    else:
        v2 = unpack(c["pickle_values2"])
        phase = int(c.get("phase", 2))
        res = run_many("harness.c02", "real_linked", [(case, {k: [_fl(x, i) for x, i in zip(*v)] for k, v in v2.items()})],
                       env=env, procs=1)[0]
        if isinstance(res, str) or "error" in res:
            print("real code failed:", res)
            return False
        arr = res[("interpreted" if route.startswith("interpreted") else "numba") + str(phase)]
        cc = case if phase == 1 else linked_case2(case, v2)
    if isinstance(arr, str) or arr is None:
        print(f"route {route} ({mode}): {arr}")
        return False
    m = monitor(cc, arr)
    print(f"route {route} ({mode}): monitor {'holds' if m is None else m}")
    return m is None
