"""C02 - boundary conditions hold exactly at the discrete boundary.

Legs:
  ghost  : random (grid, rank, per-side condition, spec format, field) -> full padded array after
           the interpreted `set_ghost_cells`, the numba ghost-cell setter (source semantics with
           NUMBA_DISABLE_JIT=1 for breadth, JIT-compiled for a subset), `field.set_ghost_cells`,
           plus `get_virtual_point_data` / `get_virtual_point` - all compared with the Lean model
           `PdeVerif.BC.setGhostAll` evaluated over exact rationals.
  parse  : random specification dictionaries -> which condition ends up on which side / which
           error class, compared with `PdeVerif.BCParse.parse`; alias table compared entry by entry.
Monitor: the defining equation of every condition on every face point of the real padded array
         and "entries that must not be touched are untouched"."""
import itertools
import math
from fractions import Fraction

import numpy as np

from harness.common.num import q, unq
from harness.common.isolated import run_many

PID = "C02"
LEVEL = "proof"
REQUIRED_THEOREMS = [
    "dirichlet_exact", "neumann_exact", "robin_exact", "robin_infinite_is_dirichlet0", "curvature_exact",
    "periodic_exact", "antiperiodic_exact", "exprValue_exact", "exprDerivative_exact", "exprMixed_exact",
    "setGhost_dirichlet", "setGhost_neumann", "setGhost_mixed", "setGhost_curvature", "setGhost_periodic",
    "setGhost_exprValue", "setGhost_exprDerivative", "normal_only_touches_normal",
    "setGhost_writes_exactly_face", "setGhost_valid_unchanged", "setGhostAll_frame", "setGhostAll_written",
    "setGhostAll_perm", "parse_most_specific_wins", "unspecified_is_error", "auto_periodic_resolves",
    "periodicity_consistent", "parse_length", "alias_table_classes",
]
RULE = ("ghost leg: seed-derived grids of all classes (1-3 axes, 1-4 cells per axis, dyadic spacings, periodic flags, "
        "holes), field rank 0-2, one condition per side drawn from every class/alias the side admits (value, "
        "derivative, mixed, curvature, normal_*, *_expression, periodic, anti-periodic) with homogeneous / tensor / "
        "per-face-array / expression values, written in a random accepted format (side keys, axis key, wildcard, named "
        "side, type-dict / name-dict / bare string); the padded array is pre-filled with distinct markers in all ghost "
        "cells; distinct by the whole case, non-trivial if at least one inhomogeneous or non-default value is present. "
        "parse leg: random specification dictionaries incl. malformed ones (missing side, wrong periodicity, unknown "
        "name, duplicate alias key); distinct by (grid names, dict).")
ASSUMPTIONS = [
    "expression values are polynomials in the boundary coordinates and t with integer coefficients, so the exact value is known",
    "float results are compared with the exact model at 1e-11 relative to the scale of the data; markers and untouched entries exactly",
]
TRUSTED_EXTRA = ["sympy/numba expression compilation for *_expression conditions is external (validated only)"]

KINDS_LOCAL = ["dirichlet", "neumann", "mixed", "curvature"]
ALIASES = {
    "dirichlet": ["value", "dirichlet"], "neumann": ["derivative", "neumann"], "mixed": ["mixed", "robin"],
    "curvature": ["curvature", "second_derivative", "extrapolate"],
    "n_dirichlet": ["normal_value", "normal_dirichlet", "dirichlet_normal"],
    "n_neumann": ["normal_derivative", "normal_neumann", "neumann_normal"],
    "n_mixed": ["normal_mixed", "normal_robin"], "n_curvature": ["normal_curvature"],
    "exprValue": ["value_expression", "value_expr"], "exprDerivative": ["derivative_expression", "derivative_expr"],
    "exprMixed": ["mixed_expression", "mixed_expr", "robin_expression", "robin_expr"],
}


# ------------------------------------------------------------------------------------------
# grids
def make_grid(gd):
    import pde

    c = gd["cls"]
    if c == "UnitGrid":
        return pde.UnitGrid(gd["shape"], periodic=gd["periodic"])
    if c == "CartesianGrid":
        return pde.CartesianGrid(gd["bounds"], gd["shape"], periodic=gd["periodic"])
    if c == "PolarSymGrid":
        return pde.PolarSymGrid(tuple(gd["bounds"][0]) if gd["bounds"][0][0] else gd["bounds"][0][1], gd["shape"][0])
    if c == "SphericalSymGrid":
        return pde.SphericalSymGrid(tuple(gd["bounds"][0]) if gd["bounds"][0][0] else gd["bounds"][0][1], gd["shape"][0])
    if c == "CylindricalSymGrid":
        r = tuple(gd["bounds"][0]) if gd["bounds"][0][0] else gd["bounds"][0][1]
        return pde.CylindricalSymGrid(r, tuple(gd["bounds"][1]), gd["shape"], periodic_z=gd["periodic"][1])
    raise ValueError(c)


def gen_grid(rng, min_cells=1):
    c = rng.choice(["UnitGrid", "CartesianGrid", "CartesianGrid", "CartesianGrid", "PolarSymGrid",
                    "SphericalSymGrid", "CylindricalSymGrid"])
    nax = {"PolarSymGrid": 1, "SphericalSymGrid": 1, "CylindricalSymGrid": 2}.get(c) or rng.choice([1, 1, 2, 2, 3])
    shape = [rng.randint(min_cells, 4 if nax < 3 else 3) for _ in range(nax)]
    bounds, periodic = [], []
    for i in range(nax):
        dx = rng.choice([0.25, 0.5, 1.0, 2.0, 0.125, 1.5, 0.75])
        if c == "UnitGrid":
            dx, lo = 1.0, 0.0
        elif c in ("PolarSymGrid", "SphericalSymGrid") or (c == "CylindricalSymGrid" and i == 0):
            lo = rng.choice([0.0, 0.0, 0.5, 1.0, 2.25])
        else:
            lo = rng.choice([0.0, -1.0, 0.5, -2.75, 3.0])
        bounds.append([lo, lo + dx * shape[i]])
        if c in ("PolarSymGrid", "SphericalSymGrid") or (c == "CylindricalSymGrid" and i == 0):
            periodic.append(False)
        else:
            periodic.append(rng.random() < 0.3)
    return {"cls": c, "shape": shape, "bounds": bounds, "periodic": periodic}


# ------------------------------------------------------------------------------------------
# polynomial expressions with exact values
def gen_poly(rng, names, with_t):
    """list of (coef, {name: power}) ; names may include 't'"""
    vs = list(names) + (["t"] if with_t else [])
    terms = [(rng.randint(-3, 3) or 1, {})]
    for _ in range(rng.randint(0, 2)):
        if not vs:
            break
        mon = {}
        for _ in range(rng.randint(1, 2)):
            v = rng.choice(vs)
            mon[v] = mon.get(v, 0) + 1
        terms.append((rng.randint(-2, 2) or 1, mon))
    return terms


def poly_text(terms):
    out = []
    for c, mon in terms:
        fac = [str(c)] + [f"{v}**{p}" if p > 1 else v for v, p in sorted(mon.items())]
        out.append("*".join(fac))
    return " + ".join(f"({t})" for t in out)


def poly_eval(terms, env):
    tot = Fraction(0)
    for c, mon in terms:
        x = Fraction(c)
        for v, p in mon.items():
            x *= Fraction(env[v]) ** p
        tot += x
    return tot


# ------------------------------------------------------------------------------------------
def gen_side(rng, gd, grid_axes, dim, axis, rank, t, ctx_hist):
    """one local (non-periodic) condition; returns dict(kind, normal, v, c (Fraction arrays of the
    full value shape), spec (what py-pde gets), alias)"""
    shape = gd["shape"]
    nax = len(shape)
    normal = rank >= 1 and rng.random() < 0.35
    vrank = rank - 1 if normal else rank
    face_shape = [shape[j] for j in range(nax) if j != axis]
    vshape = [dim] * vrank + face_shape
    kinds = list(KINDS_LOCAL)
    if shape[axis] < 2:
        kinds.remove("curvature")
    use_expr_bc = rank == 0 and rng.random() < 0.25
    if use_expr_bc:
        kind = rng.choice(["exprValue", "exprDerivative", "exprMixed"])
    else:
        kind = rng.choice(kinds)
    # coordinates of the face points (exact)
    other = [j for j in range(nax) if j != axis]
    dxs = [Fraction(gd["bounds"][j][1] - gd["bounds"][j][0]) / shape[j] for j in range(nax)]
    centres = {j: [Fraction(gd["bounds"][j][0]) + (Fraction(2 * i + 1, 2)) * dxs[j] for i in range(shape[j])] for j in other}

    def value_array(mode):
        """returns (exact array of shape vshape as nested list flattened row-major, python value for the spec, tag)"""
        n = int(np.prod(vshape)) if vshape else 1
        if mode == "scalar":
            x = Fraction(rng.randint(-6, 6), rng.choice([1, 2, 4]))
            return [x] * n, float(x), "scalar"
        if mode == "tensor":  # shape (dim,)*vrank, broadcast along the face
            tn = dim ** vrank
            tv = [Fraction(rng.randint(-6, 6), rng.choice([1, 2])) for _ in range(tn)]
            fn = int(np.prod(face_shape)) if face_shape else 1
            flat = [tv[i] for i in range(tn) for _ in range(fn)]
            return flat, np.array([float(x) for x in tv]).reshape([dim] * vrank), "tensor"
        if mode == "array":  # full shape
            fv = [Fraction(rng.randint(-8, 8), rng.choice([1, 2, 4])) for _ in range(n)]
            return fv, np.array([float(x) for x in fv]).reshape(vshape), "per-face-array"
        raise ValueError(mode)

    def expr_value(names_allowed, with_t):
        terms = gen_poly(rng, names_allowed, with_t)
        flat = []
        for pos in itertools.product(*[range(shape[j]) for j in other]):
            env = {grid_axes[j]: centres[j][pos[k]] for k, j in enumerate(other)}
            env["t"] = Fraction(t)
            flat.append(poly_eval(terms, env))
        return flat, poly_text(terms), "expression"

    other_names = [grid_axes[j] for j in other]
    if use_expr_bc:
        v, vspec, tag = expr_value(other_names, True)
        c, cspec = None, None
        if kind == "exprMixed":
            # keep gamma*dx + 2 away from zero: gamma >= 0
            g = Fraction(rng.randint(0, 4), rng.choice([1, 2]))
            v, vspec = [g] * len(v), str(float(g))
            c, cspec, _ = expr_value(other_names, True)
        alias = rng.choice(ALIASES[kind])
        spec = {"type": alias, "value": vspec}
        if c is not None:
            spec["const"] = cspec
        elif rng.random() < 0.5:
            spec = {alias: vspec}
        ctx_hist("value", f"{kind}:{tag}")
        return {"kind": kind, "normal": False, "v": v, "c": c, "spec": spec, "alias": alias, "vshape": vshape,
                "text": vspec}
    modes = ["scalar", "scalar"]
    if vrank > 0:
        modes += ["tensor", "tensor"]
    if face_shape or vrank > 0:
        modes += ["array", "array"]
    mode = rng.choice(modes)
    if vrank == 0 and rng.random() < 0.2:
        v, vspec, tag = expr_value(other_names, False)  # string value of a const BC (`_parse_value`)
    else:
        v, vspec, tag = value_array(mode)
    c, cspec = None, None
    if kind == "mixed":
        # gamma >= 0 keeps 2 + dx*gamma away from 0
        v = [abs(x) for x in v]
        if isinstance(vspec, np.ndarray):
            vspec = np.abs(vspec)
        elif isinstance(vspec, float):
            vspec = abs(vspec)
        else:  # expression: replace by a scalar gamma
            g = Fraction(rng.randint(0, 4), 2)
            v, vspec, tag = [g] * len(v), float(g), "scalar"
        c, cspec, _ = value_array(rng.choice(modes))
    akey = ("n_" if normal else "") + kind
    alias = rng.choice(ALIASES[akey])
    zero = all(x == 0 for x in v) and (c is None or all(x == 0 for x in c))
    r = rng.random()
    if zero and c is None and r < 0.5:
        spec = alias  # bare string: value 0
    elif c is not None or r < 0.6:
        spec = {"type": alias, "value": vspec}
        if c is not None:
            spec["const"] = cspec
    else:
        spec = {alias: vspec}
    ctx_hist("value", f"{akey}:{tag}")
    return {"kind": kind, "normal": normal, "v": v, "c": c, "spec": spec, "alias": alias, "vshape": vshape,
            "text": str(vspec) if isinstance(vspec, str) else None}


SIDE_NAMES = {
    "UnitGrid": [("left", 0, False), ("right", 0, True), ("bottom", 1, False), ("top", 1, True), ("back", 2, False), ("front", 2, True)],
    "CartesianGrid": [("left", 0, False), ("right", 0, True), ("bottom", 1, False), ("top", 1, True), ("back", 2, False), ("front", 2, True)],
    "PolarSymGrid": [("inner", 0, False), ("outer", 0, True)],
    "SphericalSymGrid": [("inner", 0, False), ("outer", 0, True)],
    "CylindricalSymGrid": [("inner", 0, False), ("outer", 0, True), ("bottom", 1, False), ("top", 1, True)],
}
AXES = {"UnitGrid": "xyz", "CartesianGrid": "xyz", "PolarSymGrid": ["r"], "SphericalSymGrid": ["r"],
        "CylindricalSymGrid": ["r", "z"]}
DIM = {"PolarSymGrid": 2, "SphericalSymGrid": 3, "CylindricalSymGrid": 3}


def gen_case(rng, hist):
    gd = gen_grid(rng)
    nax = len(gd["shape"])
    axes = list(AXES[gd["cls"]])[:nax]
    dim = DIM.get(gd["cls"], nax)
    rank = rng.choice([0, 0, 1, 1, 2])
    t = rng.choice([0.0, 0.5, 2.0, -1.25])
    sides = {}
    spec = {}
    fmt_used = []
    for ax in range(nax):
        if gd["periodic"][ax]:
            anti = rng.random() < 0.3
            name = "anti-periodic" if anti else "periodic"
            for up in (False, True):
                sides[(ax, up)] = {"kind": "antiperiodic" if anti else "periodic", "normal": False, "v": None,
                                   "c": None, "vshape": [], "alias": name}
            spec[axes[ax]] = name
            fmt_used.append("axis")
            hist("value", name)
            continue
        lo = gen_side(rng, gd, axes, dim, ax, rank, t, hist)
        same = rng.random() < 0.25
        hi = dict(lo) if same else gen_side(rng, gd, axes, dim, ax, rank, t, hist)
        sides[(ax, False)], sides[(ax, True)] = lo, hi
        r = rng.random()
        names = {(a, u): n for n, a, u in SIDE_NAMES[gd["cls"]]}
        if same and r < 0.6:
            spec[axes[ax]] = lo["spec"]
            fmt_used.append("axis")
        elif r < 0.3 and "*" not in spec:
            # wildcard for the lower side's condition + override of the upper side (wildcard only valid
            # if every other non-specified side can take it: restrict to 1 axis grids or last axis)
            spec[axes[ax] + "-"] = lo["spec"]
            spec[names[(ax, True)]] = hi["spec"]
            fmt_used.append("side+named")
        elif r < 0.55:
            spec[names[(ax, False)]] = lo["spec"]
            spec[axes[ax] + "+"] = hi["spec"]
            fmt_used.append("named+side")
        elif r < 0.7:
            # axis entry overridden by a more specific one
            spec[axes[ax]] = lo["spec"]
            spec[axes[ax] + "+"] = hi["spec"]
            fmt_used.append("axis+override")
        else:
            spec[axes[ax] + "-"] = lo["spec"]
            spec[axes[ax] + "+"] = hi["spec"]
            fmt_used.append("sides")
    # wildcard variant: move one axis-level entry into "*" when it is the only non-side-specific entry
    axis_entries = [k for k in spec if k in axes]
    if len(axis_entries) == 1 and nax == 1 and rng.random() < 0.5:
        spec["*"] = spec.pop(axis_entries[0])
        fmt_used.append("wildcard")
    for f in fmt_used:
        hist("format", f)
    # field data: integers in the valid cells, distinct markers everywhere else
    fshape = [dim] * rank + [n + 2 for n in gd["shape"]]
    data = np.zeros(fshape)
    it = np.nditer(data, flags=["multi_index"], op_flags=["readwrite"])
    k = 0
    for x in it:
        idx = it.multi_index[rank:]
        valid = all(1 <= idx[j] <= gd["shape"][j] for j in range(nax))
        x[...] = rng.randint(-9, 9) if valid else 1000 + k
        k += 1
    return {"grid": gd, "rank": rank, "dim": dim, "t": t, "sides": sides, "spec": spec, "data": data,
            "axes": axes}


def pack(case):
    import base64, pickle
    return base64.b64encode(pickle.dumps(case)).decode()


def unpack(text):
    import base64, pickle
    return pickle.loads(base64.b64decode(text))


def case_key(case):
    return {"grid": case["grid"], "rank": case["rank"], "t": case["t"],
            "spec": repr(case["spec"]), "data": [float(x) for x in case["data"].ravel()]}


# ------------------------------------------------------------------------------------------
# real code (runs in worker processes)
def real_ghost(arg):
    """returns dict route -> padded array (list) or 'EXC: ...'"""
    import pde
    from pde import get_backend

    import logging

    logging.getLogger("pde").setLevel(logging.ERROR)
    case, want_numba = arg
    grid = make_grid(case["grid"])
    rank = case["rank"]
    out = {}
    args = {"t": case["t"]}
    try:
        bcs = grid.get_boundary_conditions(case["spec"], rank=rank)
    except Exception as e:  # noqa
        return {"error": f"{type(e).__name__}: {e}"}
    d = case["data"].copy()
    bcs.set_ghost_cells(d, args=args)
    out["interpreted"] = d
    # field method
    cls = [pde.ScalarField, pde.VectorField, pde.Tensor2Field][rank]
    f = cls(grid, data=case["data"].copy(), with_ghost_cells=True)
    f.set_ghost_cells(case["spec"], args=args)
    out["field"] = f._data_full.copy()
    # virtual point data / get_virtual_point of each local condition
    vp = {}
    for ax, b in enumerate(bcs):
        for up, s in ((False, b.low), (True, b.high)):
            try:
                data = s.get_virtual_point_data()
                vp[(ax, up)] = [np.array(x, dtype=float) if not isinstance(x, (int, np.integer)) else int(x) for x in data]
            except Exception:
                pass
    out["vpdata"] = vp
    if want_numba:
        from pde.backends.numba.utils import numba_dict

        setter = get_backend("numba").make_ghost_cell_setter(bcs)
        d2 = case["data"].copy()
        setter(d2, args=numba_dict(t=float(case["t"])))
        out["numba"] = d2
    return out


# ------------------------------------------------------------------------------------------
def model_request(case):
    faces = []
    gd = case["grid"]
    for (ax, up), s in sorted(case["sides"].items(), key=lambda kv: (kv[0][0], not kv[0][1])):
        dx = Fraction(gd["bounds"][ax][1] - gd["bounds"][ax][0]) / gd["shape"][ax]
        cond = {"kind": s["kind"], "vshape": s["vshape"]}
        if s["v"] is not None:
            cond["v"] = [q(x) for x in s["v"]]
        if s["c"] is not None:
            cond["c"] = [q(x) for x in s["c"]]
        faces.append({"axis": ax, "upper": up, "normal": s["normal"], "dx": q(dx), "cond": cond})
    return {"shape": gd["shape"], "rank": case["rank"], "dim": case["dim"],
            "data": [q(float(x)) for x in case["data"].ravel()], "faces": faces}


def compare_arrays(model, real, scale):
    """index of the first differing entry or None; markers/untouched entries must agree exactly"""
    real = np.asarray(real, dtype=float).ravel()
    if len(model) != len(real):
        return -1
    for i, (m, r) in enumerate(zip(model, real)):
        mf = float(m)
        if abs(mf - r) > 1e-11 * max(scale, abs(mf)):
            return i
    return None


def monitor(case, arr):
    """defining equations on every face point of the real padded array + untouched entries"""
    gd, rank, dim = case["grid"], case["rank"], case["dim"]
    nax = len(gd["shape"])
    shape = gd["shape"]
    orig = case["data"]
    arr = np.asarray(arr)
    written = np.zeros(arr.shape, dtype=bool)
    tol = 1e-9
    for (ax, up), s in case["sides"].items():
        N = shape[ax]
        dx = float(gd["bounds"][ax][1] - gd["bounds"][ax][0]) / N
        g_i = N + 1 if up else 0
        n_i = N if up else 1
        n2_i = N - 1 if up else 2
        o_i = 1 if up else N
        vrank = rank - 1 if s["normal"] else rank
        comps = list(itertools.product(range(dim), repeat=rank))
        other = [j for j in range(nax) if j != ax]
        vs = None if s["v"] is None else np.array([float(x) for x in s["v"]]).reshape(s["vshape"] or [1])
        cs = None if s["c"] is None else np.array([float(x) for x in s["c"]]).reshape(s["vshape"] or [1])
        for comp in comps:
            if s["normal"] and comp[-1] != ax:
                continue
            for pos in itertools.product(*[range(1, shape[j] + 1) for j in other]):
                sp = list(pos)
                full = lambda c: tuple(comp) + tuple(sp[:ax] + [c] + sp[ax:])
                vi = tuple(comp[:vrank]) + tuple(p - 1 for p in pos)
                if not s["vshape"]:
                    vi = (0,)
                ghost, cell = arr[full(g_i)], arr[full(n_i)]
                written[full(g_i)] = True
                k = s["kind"]
                sc = max(1.0, abs(ghost), abs(cell))
                if k in ("dirichlet", "exprValue"):
                    lhs, rhs, what = (ghost + cell) / 2, vs[vi], "value: (ghost+cell)/2 = v"
                elif k in ("neumann", "exprDerivative"):
                    lhs, rhs, what = (ghost - cell) / dx, vs[vi], "derivative: (ghost-cell)/dx = d"
                elif k in ("mixed", "exprMixed"):
                    lhs, rhs, what = (ghost - cell) / dx + vs[vi] * (ghost + cell) / 2, cs[vi], "robin: d_n c + g c = b"
                elif k == "curvature":
                    c2 = arr[full(n2_i)]
                    lhs, rhs, what = (ghost - 2 * cell + c2) / dx ** 2, vs[vi], "curvature: (ghost-2c1+c2)/dx^2 = k"
                    sc = max(sc, abs(c2)) / dx ** 2
                elif k == "periodic":
                    lhs, rhs, what = ghost, arr[full(o_i)], "periodic: ghost = opposite cell"
                elif k == "antiperiodic":
                    lhs, rhs, what = ghost, -arr[full(o_i)], "anti-periodic: ghost = -opposite cell"
                else:
                    continue
                if abs(lhs - rhs) > tol * max(sc, abs(rhs)):
                    return {"what": what, "axis": ax, "upper": up, "index": [int(i) for i in full(g_i)],
                            "lhs": float(lhs), "rhs": float(rhs), "kind": k, "normal": s["normal"]}
    untouched = ~written
    if not np.array_equal(arr[untouched], orig[untouched]):
        bad = np.argwhere(untouched & (arr != orig))[0]
        return {"what": "entry that must stay untouched was modified", "index": [int(i) for i in bad],
                "before": float(orig[tuple(bad)]), "after": float(arr[tuple(bad)])}
    return None


# ------------------------------------------------------------------------------------------
# parse leg
def gen_parse_case(rng, hist):
    cls = rng.choice(["CartesianGrid", "CartesianGrid", "PolarSymGrid", "SphericalSymGrid", "CylindricalSymGrid"])
    nax = {"PolarSymGrid": 1, "SphericalSymGrid": 1, "CylindricalSymGrid": 2}.get(cls) or rng.choice([1, 2, 3])
    gd = {"cls": cls, "shape": [2] * nax, "bounds": [[1.0 if cls != "CartesianGrid" and i == 0 and rng.random() < 0.3 else 0.0, 3.0] for i in range(nax)],
          "periodic": [False if (cls in ("PolarSymGrid", "SphericalSymGrid") or (cls == "CylindricalSymGrid" and i == 0)) else rng.random() < 0.4 for i in range(nax)]}
    axes = list(AXES[cls])[:nax]
    alt = {"PolarSymGrid": [["radius", "r"], ["phi", "φ"]], "SphericalSymGrid": [["radius", "r"], ["theta", "θ"], ["phi", "φ"]],
           "CylindricalSymGrid": [["phi", "φ"]]}.get(cls, [])
    sides = [[n, a, u] for n, a, u in SIDE_NAMES[cls] if a < nax]
    vid_counter = [0]

    def spec_for(per_hint):
        vid_counter[0] += 1
        vid = vid_counter[0]
        r = rng.random()
        if per_hint and r < 0.6:
            return ({"t": "periodic"}, "periodic")
        if per_hint and r < 0.75:
            return ({"t": "antiperiodic"}, "anti-periodic")
        if r < 0.05:
            return ({"t": "periodic"}, "periodic")
        if r < 0.15:
            name = rng.choice(["value", "neumann", "derivative"])
            return ({"t": "auto", "name": name, "vid": 0}, "auto_periodic_" + name)
        if r < 0.2:
            return ({"t": "named", "name": "bogus_name", "vid": vid}, {"bogus_name": vid})
        kind = rng.choice(["dirichlet", "neumann", "mixed", "curvature", "exprValue", "exprDerivative"])
        name = rng.choice(ALIASES[kind])
        if kind.startswith("expr"):
            return ({"t": "named", "name": name, "vid": vid}, {name: str(vid)})
        if rng.random() < 0.3:
            return ({"t": "named", "name": name, "vid": 0}, name)
        if rng.random() < 0.5:
            return ({"t": "named", "name": name, "vid": vid}, {"type": name, "value": vid})
        return ({"t": "named", "name": name, "vid": vid}, {name: vid})

    if rng.random() < 0.15:
        m, p = spec_for(all(gd["periodic"]))
        top_m, top_p = {"all": m}, p
        hist("parse-format", "single-for-all")
    else:
        d_m, d_p = [], {}
        keys = []
        for ax in range(nax):
            per = gd["periodic"][ax]
            r = rng.random()
            cand = []
            if r < 0.35:
                cand = [axes[ax]]
            elif r < 0.6:
                cand = [axes[ax] + "-", axes[ax] + "+"]
            elif r < 0.75:
                cand = [axes[ax], axes[ax] + rng.choice("-+")]
            elif r < 0.9:
                cand = [n for n, a, u in SIDE_NAMES[cls] if a == ax] + ([axes[ax] + "-"] if rng.random() < 0.3 else [])
            else:
                cand = [axes[ax] + "-"]  # one side missing (error unless wildcard)
            # alternative axis names
            for pat, rep in alt:
                if rep == axes[ax] and rng.random() < 0.3:
                    cand = [c.replace(rep, pat, 1) if c.startswith(rep) and c[len(rep):] in ("", "-", "+") else c for c in cand]
                    if rng.random() < 0.15:
                        cand.append(rep)  # duplicate -> key error if the replaced name is present too
            keys.append((cand, per))
        if rng.random() < 0.3:
            keys.append((["*"], False))
        for cand, per in keys:
            for k in cand:
                if k in d_p:
                    continue
                # a one-sided entry on a periodic axis is usually wrong on purpose only sometimes
                m, p = spec_for(per and (rng.random() < 0.9))
                d_m.append([k, m])
                d_p[k] = p
        top_m, top_p = {"dict": d_m}, d_p
        hist("parse-format", "dict")
    return {"grid": gd, "axes": axes, "alt": alt, "sides": sides, "periodic": gd["periodic"], "top_model": top_m,
            "top_py": top_p}


def real_parse(case):
    from pde.grids.boundaries.axes import BoundariesList
    from pde.grids.boundaries.axis import BoundaryPeriodic
    from pde.grids.boundaries.local import BCDataError
    from pde.grids.boundaries.axes import PeriodicityError

    import logging

    logging.getLogger("pde").setLevel(logging.ERROR)
    grid = make_grid(case["grid"])
    try:
        bcs = BoundariesList.from_data(case["top_py"], grid=grid, rank=0)
    except PeriodicityError:
        return "error:periodicity"
    except BCDataError:
        return "error:bcdata"
    except KeyError:
        return "error:key"
    except Exception as e:  # noqa
        return f"error:other:{type(e).__name__}:{e}"
    res = []
    for b in bcs:
        if isinstance(b, BoundaryPeriodic):
            res.append("anti-periodic" if b.flip_sign else "periodic")
        else:
            pair = []
            for s in (b.low, b.high):
                if hasattr(s, "_input"):
                    vid = int(float(s._input["value_expr"]))
                else:
                    vid = int(np.asarray(s.value).ravel()[0])
                pair.append([type(s).__name__, vid])
            res.append(pair)
    return res


# ------------------------------------------------------------------------------------------
def run(ctx):
    from harness.common.lean import LeanBatch
    import logging
    import pde  # noqa

    logging.getLogger("pde").setLevel(logging.ERROR)

    rng = ctx.rng
    n_ghost = ctx.budget(500, 6000)
    n_jit = ctx.budget(24, 200)
    n_parse = ctx.budget(800, 8000)
    batch = LeanBatch(ctx.workdir)

    # ---- alias table ------------------------------------------------------------------------
    i_alias = batch.add("c02.aliases", {})

    # ---- ghost leg -----------------------------------------------------------------------------
    cases = []
    for _ in range(n_ghost):
        c = gen_case(rng, ctx.hist)
        cases.append(c)
    reqs = [batch.add("c02.ghost", model_request(c)) for c in cases]
    # real code: all cases with source semantics of the numba kernels, a subset compiled
    res_s = run_many("harness.c02", "real_ghost", [(c, True) for c in cases], env={"NUMBA_DISABLE_JIT": "1"}, procs=16)
    jit_ids = sorted(rng.sample(range(len(cases)), min(n_jit, len(cases))))
    res_j = run_many("harness.c02", "real_ghost", [(cases[i], True) for i in jit_ids], env={"NUMBA_DISABLE_JIT": "0"}, procs=16)
    res_j = dict(zip(jit_ids, res_j))

    # ---- parse leg -----------------------------------------------------------------------------
    pcases = [gen_parse_case(rng, ctx.hist) for _ in range(n_parse)]
    preqs = [batch.add("c02.parse", {"axes": p["axes"], "alt": p["alt"], "sides": p["sides"], "periodic": p["periodic"],
                                     "top": p["top_model"]}) for p in pcases]
    answers = batch.run()

    # alias table
    from pde.grids.boundaries.local import registered_boundary_condition_names

    real_alias = sorted((k, v.__name__) for k, v in registered_boundary_condition_names().items())
    st, val = answers[i_alias]
    model_alias = sorted((a, b) for a, b in val) if st == "ok" else None
    ctx.count({"leg": "aliases"}, nontrivial=True, leg="aliases")
    ctx.impl_traces += 1
    if model_alias != real_alias:
        diff = sorted(set(real_alias) ^ set(model_alias or []))
        ctx.disagree("aliases", {"table": "registered_boundary_condition_names"}, model_alias, real_alias, f"differing entries {diff}")
        # property-level: an alias that denotes a different class than documented
        doc = dict(sum([[(a, k) for a in v] for k, v in ALIASES.items()], []))
        cls_of = {"dirichlet": "DirichletBC", "neumann": "NeumannBC", "mixed": "MixedBC", "curvature": "CurvatureBC",
                  "n_dirichlet": "NormalDirichletBC", "n_neumann": "NormalNeumannBC", "n_mixed": "NormalMixedBC",
                  "n_curvature": "NormalCurvatureBC", "exprValue": "ExpressionValueBC",
                  "exprDerivative": "ExpressionDerivativeBC", "exprMixed": "ExpressionMixedBC"}
        for a, k in doc.items():
            got = dict(real_alias).get(a)
            if got != cls_of[k]:
                ctx.monitor_fail("aliases", {"alias": a}, got, cls_of[k], "alias denotes another condition class",
                                 key={"call_site": "registered_boundary_condition_names"})
                break

    for ci, (c, ri) in enumerate(zip(cases, reqs)):
        key = case_key(c)
        nontriv = any((s["v"] is not None and any(x != 0 for x in s["v"])) or s["kind"] in ("periodic", "antiperiodic")
                      for s in c["sides"].values())
        ctx.count(key, nontrivial=nontriv, leg="ghost")
        ctx.hist("grid", f"{c['grid']['cls']}/{len(c['grid']['shape'])}d/rank{c['rank']}")
        st, val = answers[ri]
        rs = res_s[ci]
        if isinstance(rs, str) or "error" in rs:
            ctx.disagree("ghost", {"spec": repr(c["spec"]), "grid": c["grid"], "rank": c["rank"]}, "accepted",
                         rs if isinstance(rs, str) else rs["error"], "real code rejected a specification the generator considers valid")
            continue
        if st != "ok":
            ctx.disagree("ghost", key, f"model error {val}", "ok")
            continue
        model = [unq(x) for x in val]
        scale = max(1.0, max(abs(float(x)) for x in model if abs(float(x)) < 900) if any(abs(float(x)) < 900 for x in model) else 1.0)
        routes = {"interpreted": rs["interpreted"], "field.set_ghost_cells": rs["field"], "numba-setter(source)": rs["numba"]}
        if ci in res_j and not isinstance(res_j[ci], str) and "numba" in res_j[ci]:
            routes["numba-setter(jit)"] = res_j[ci]["numba"]
            ctx.hist("route", "numba-jit")
        elif ci in res_j:
            ctx.disagree("ghost", key, "ok", str(res_j[ci])[:500], "compiled ghost-cell setter failed")
        for rname, arr in routes.items():
            ctx.impl_traces += 1
            bad = compare_arrays(model, arr, scale)
            if bad is not None:
                flat = np.asarray(arr, dtype=float).ravel()
                idx = np.unravel_index(bad, np.asarray(arr).shape) if bad >= 0 else None
                ctx.disagree("ghost:" + rname, {"spec": repr(c["spec"]), "grid": c["grid"], "rank": c["rank"], "t": c["t"],
                                                "data": key["data"]},
                             {"index": None if idx is None else [int(i) for i in idx], "value": str(model[bad]) if bad >= 0 else None},
                             {"value": float(flat[bad]) if bad >= 0 else None, "len": len(flat)}, "padded arrays differ")
            ctx.monitor_evals += 1
            m = monitor(c, arr)
            if m:
                ctx.monitor_fail("ghost:" + rname, {"spec": repr(c["spec"]), "grid": c["grid"], "rank": c["rank"], "t": c["t"],
                                                    "data": key["data"], "route": rname, "pickle_case": pack(c)},
                                 m, "condition holds on every face point; other entries untouched", m["what"],
                                 key={"route": rname, "kind": m.get("kind")})
        # virtual point data of homogeneous scalar-valued local conditions
        for (ax, up), s in c["sides"].items():
            vp = rs["vpdata"].get((ax, up))
            if vp is None or s["kind"] not in ("dirichlet", "neumann", "mixed", "curvature", "periodic", "antiperiodic"):
                continue
            N = c["grid"]["shape"][ax]
            exp_idx = (0 if up else N - 1) if s["kind"] in ("periodic", "antiperiodic") else (N - 1 if up else 0)
            if int(vp[2]) != exp_idx:
                ctx.disagree("vpdata", {"spec": repr(c["spec"]), "axis": ax, "upper": up}, exp_idx, int(vp[2]), "index of the cell read")

    for p, ri in zip(pcases, preqs):
        key = {"grid": p["grid"]["cls"], "periodic": p["periodic"], "top": repr(p["top_py"])}
        real = real_parse(p)
        st, val = answers[ri]
        ctx.impl_traces += 1
        ctx.hist("parse-outcome", real if isinstance(real, str) and real.startswith("error") else "ok")
        ctx.count(key, nontrivial=not (isinstance(real, str)), leg="parse")
        if st != "ok" or val != real:
            if isinstance(real, str) and real.startswith("error:other"):
                ctx.disagree("parse", key, val, real, "unexpected exception class")
            else:
                ctx.disagree("parse", key, val, real, "resolved conditions differ")
        # monitor for the parse level: every side has exactly one condition or an error was raised
        ctx.monitor_evals += 1
        if not isinstance(real, str):
            if len(real) != len(p["axes"]):
                ctx.monitor_fail("parse", key, real, "one result per axis", "number of resolved axes", key={"call_site": "BoundariesList.from_data"})
            for ax, r in enumerate(real):
                if (r in ("periodic", "anti-periodic")) != p["periodic"][ax]:
                    ctx.monitor_fail("parse", key, real, "periodicity matches the grid", "accepted condition contradicts grid periodicity",
                                     key={"call_site": "get_boundary_axis"})


def replay(ctx, rep):
    """re-run the monitor of a failing ghost case on the real code (all interpreted routes)"""
    c = rep["case"]
    if not c.get("pickle_case"):
        print("this replay file records a parse/alias case:", c)
        if "top" in c:
            return False
        return False
    case = unpack(c["pickle_case"])
    res = real_ghost((case, True))
    ok = True
    for route in ("interpreted", "field", "numba"):
        m = monitor(case, res[route])
        print(f"route {route}: monitor {'holds' if m is None else m}")
        ok = ok and m is None
    return ok
