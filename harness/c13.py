"""C13 - stochastic steps add exactly the documented noise, reproducibly.

Legs (all execute the real solvers through `eq.solve(..., tracker=None)`):
  local     : harness-defined `SDEBase` subclass with a local rate `a + b*u + c*u^3` (any field type,
              any grid), variance through the anchored `SDEBase.make_noise_variance` (scalar / per tensor
              component / per field of a collection) or field dependent (`g0 + g2*u^2`, overriding
              `make_noise_variance` the way examples/advanced_pdes/stratonovich.py does); euler, milstein and
              implicit; all interpretations.  A twin `numpy` Generator seeded like the one handed to the
              equation draws the standard-normal arrays in the same order and shape; the Lean model
              (`PdeVerif.Noise.Sys.run` at Float, same operation order) must reproduce the final state.
  recorded  : the package's own equations (`PDE` with expressions incl. operators and collections,
              `DiffusionPDE`, `KPZInterfacePDE`, a `PDE` subclass with multiplicative noise); the evolution
              rates the real run evaluated are recorded and handed to the model as its rate function.
  exact     : dyadic inputs whose square roots are rational, model evaluated at Rat.
  numba     : numba backend - source semantics (NUMBA_DISABLE_JIT=1, `np.random.randn` of the legacy global
              state, twin `RandomState`) and compiled (numba's own generator seeded inside a jitted function;
              it is observed to produce the legacy stream - if not, only the statistical check is applied);
              statistical check of the variance of the increments (generous bounds).
  malformed : noise arrays that cannot be broadcast, unknown interpretation, implicit solver with the
              realization interface, adaptive stepping: an error is expected.
Monitors on the real code for every case: (1) an independent numpy re-statement of the documented update
applied step by step with the twin's draws (semi-implicit solver: the fixed point of
`x = u + sqrt(var*dt/V)*xi + dt*rate(x)` for tight `maxerror`, the documented iteration with the documented
stopping rule otherwise - every converged case is judged; a ConvergenceError must be matched by the documented
iteration not converging), (2) two runs with the same seed are bit-identical, (3) the equation's generator ends
in the state of the twin after exactly n draws, (4) entries with vanishing variance follow the deterministic run
exactly, (5) step count, (6) a valid case never raises.  Comparisons are written so that a non-finite value
counts as a difference.  Every case carries its execution mode (`jit` flag: compiled, otherwise numba source
semantics under NUMBA_DISABLE_JIT=1); `replay` re-runs the recorded case in a fresh interpreter in that mode."""
import math

import numpy as np

from harness.common.num import q, unq, fbits, unfbits
from harness.common.isolated import run_many

PID = "C13"
LEVEL = "proof"
EXTRA_PROP_FILES = ["C13b"]  # whole runs of collections, N-step sums, generator-threaded loop
REQUIRED_THEOREMS = [
    "em_step_formula", "milstein_step_formula", "semi_implicit_adds_same_increment",
    "zero_variance_is_deterministic", "one_draw_per_step", "milstein_term_is_textbook",
    "stratonovich_drift", "variance_layout_per_field", "variance_layout_per_component",
    "run_succ", "run_depends_only_on_prefix", "run_explicit_total", "run_zero_variance",
    "milstein_step_is_textbook", "em_step_is_textbook", "drift_is_textbook",
    "semi_implicit_ignores_interpretation", "hasDrift_iff_alpha_ne_zero",
    "sys_euler_step_formula", "sys_milstein_step_formula", "milstein_term_is_textbook_ring",
    "milstein_eq_em_plus_correction", "stratonovich_drift_milstein", "variance_layout_per_field_full",
    "run_uses_successive_draws", "run_euler_documented", "run_milstein_documented", "run_implicit_documented",
    # Props/C13b.lean
    "collection_run_per_field", "collSys_hyps", "run_explicit_documented", "run_explicit_sum", "docIncr_sum",
    "runGen_eq_run", "runGen_one_call_per_step", "runGen_explicit_total", "runGen_explicit_sum", "draws_spec",
    "quad_variance_hyps", "quadVarDiff_is_derivative", "quad_runGen_sum", "quadSys_runGen_sum",
    "collection_run_implicit_per_field", "field_run_per_component", "fieldSys_hyps",
]
RULE = ("seed-derived (grid of any class incl. polar/spherical/cylindrical with non-uniform cell volumes, field type "
        "scalar/vector/tensor/collection, rate, variance kind scalar/per-component/per-field/field-dependent, "
        "interpretation, solver euler/milstein/implicit, dt, 1-20 steps, generator seed and how it is handed over, "
        "optionally two consecutive solve calls on one equation); distinct by the whole case; non-trivial if some "
        "variance is non-zero and the state moved")
ASSUMPTIONS = [
    "model trajectory vs real trajectory compared at 1e-12 relative to max(1,|state|) (bit-identical cases are counted)",
    "the numpy Generator itself is external: the twin generator is the same numpy code seeded identically",
    "numba backend: exact replay relies on numba's generator reproducing numpy's legacy stream (self-tested per run; "
    "statistical bounds otherwise)",
    "reading of C13's parenthesis for the semi-implicit solver: 'the same increment' is the noise increment "
    "sqrt(variance*dt/cell volume)*xi added to the state the fixed-point iteration starts from; the drift of the "
    "Stratonovich/anti-Ito interpretations is claimed for the explicit solvers only.  The real semi-implicit solver "
    "never reads noise_interpretation (it integrates the Ito equation whatever was requested): modelled and monitored "
    "as it is, reported as an observation (notes/C13.md), NOT judged as a violation under this reading",
    "a semi-implicit run with a loose maxerror is judged against the documented iteration with the documented stopping "
    "rule (mean squared change < maxerror**2, maxiter), not against the exact fixed point",
]
TRUSTED_EXTRA = ["numpy.random.Generator / RandomState (external)", "IEEE double arithmetic and sqrt of Lean's Float equal numpy's"]

ALPHA = {"ito": 0.0, "itô": 0.0, "stratonovich": 0.5, "anti-ito": 1.0, "anti-itô": 1.0,
         "hänggi-klimontovich": 1.0, "hanggi-klimontovich": 1.0}
SHORT = {"UnitGrid": "unit", "CartesianGrid": "cartesian", "PolarSymGrid": "polar",
         "SphericalSymGrid": "spherical", "CylindricalSymGrid": "cylindrical"}
DIM = {"PolarSymGrid": 2, "SphericalSymGrid": 3, "CylindricalSymGrid": 3}
RTOL_MODEL = 1e-12
RTOL_MONITOR = 1e-10


# ------------------------------------------------------------------------------------------------
# real-code side (runs in worker processes)
def make_grid(gd):
    import pde

    c = gd["cls"]
    b = gd["bounds"]
    if c == "UnitGrid":
        return pde.UnitGrid(gd["shape"], periodic=gd["periodic"])
    if c == "CartesianGrid":
        return pde.CartesianGrid(b, gd["shape"], periodic=gd["periodic"])
    if c == "PolarSymGrid":
        return pde.PolarSymGrid(tuple(b[0]) if b[0][0] else b[0][1], gd["shape"][0])
    if c == "SphericalSymGrid":
        return pde.SphericalSymGrid(tuple(b[0]) if b[0][0] else b[0][1], gd["shape"][0])
    if c == "CylindricalSymGrid":
        r = tuple(b[0]) if b[0][0] else b[0][1]
        return pde.CylindricalSymGrid(r, tuple(b[1]), gd["shape"], periodic_z=gd["periodic"][1])
    raise ValueError(c)


def grid_dim(gd):
    return DIM.get(gd["cls"]) or len(gd["shape"])


def make_state(grid, fd, data):
    """field(s) of the requested ranks holding `data` (flat, C order over (components, cells))"""
    import pde

    cls = [pde.ScalarField, pde.VectorField, pde.Tensor2Field]
    ncell = int(np.prod(grid.shape))
    fields, pos = [], 0
    for rank in fd["ranks"]:
        nc = grid.dim ** rank
        arr = np.array(data[pos * ncell:(pos + nc) * ncell], dtype=float).reshape((grid.dim,) * rank + tuple(grid.shape))
        fields.append(cls[rank](grid, arr))
        pos += nc
    if fd["kind"] == "collection":
        return pde.FieldCollection(fields)
    return fields[0]


_CLASSES = {}


def classes():
    """equation classes defined on top of the package's public base classes"""
    if _CLASSES:
        return _CLASSES
    import pde
    from pde.pdes.base import SDEBase

    def quad_variance(self, state, ret_diff):
        lead = state.data.shape[:state.data.ndim - state.grid.num_axes]
        shp = lead + (1,) * state.grid.num_axes
        G0 = np.array(self.quad["g0"], dtype=float).reshape(shp)
        G2 = np.array(self.quad["g2"], dtype=float).reshape(shp)
        TG2 = 2 * G2
        if ret_diff:
            def noise_variance(state_data, t):
                return G0 + G2 * (state_data * state_data), TG2 * state_data
        else:
            def noise_variance(state_data, t):
                return G0 + G2 * (state_data * state_data)
        return noise_variance

    class LocalSDE(SDEBase):
        """du = (a + b u + c u^3) dt + noise, one coefficient triple per component"""

        def __init__(self, a, b, c, *, noise, interp, rng, quad=None, real=None):
            super().__init__(noise=noise, noise_interpretation=interp, rng=rng)
            self.coef = (a, b, c)
            self.quad = quad
            self.real = real
            if real is not None:
                self.use_noise_realization = True

        def _arrays(self, state):
            lead = state.data.shape[:state.data.ndim - state.grid.num_axes]
            shp = lead + (1,) * state.grid.num_axes
            return [np.array(x, dtype=float).reshape(shp) for x in self.coef]

        def evolution_rate(self, state, t=0):
            A, B, C = self._arrays(state)
            u = state.data
            out = state.copy()
            out.data[...] = A + B * u + C * (u * u * u)
            return out

        def make_evolution_rate(self, state, backend):
            A, B, C = self._arrays(state)

            def rhs(u, t):
                return A + B * u + C * (u * u * u)

            return rhs

        def make_noise_variance(self, state, *, backend, ret_diff=False):
            if self.quad is None:
                return super().make_noise_variance(state, backend=backend, ret_diff=ret_diff)
            return quad_variance(self, state, ret_diff)

        def make_noise_realization(self, state, backend):
            lead = state.data.shape[:state.data.ndim - state.grid.num_axes]
            R = np.array(self.real, dtype=float).reshape(lead + (1,) * state.grid.num_axes)

            def noise_realization(state_data, t):
                return R * state_data

            return noise_realization

    class QuadPDE(pde.PDE):
        """`PDE` with multiplicative noise, as in examples/advanced_pdes/stratonovich.py"""
        quad = None

        def make_noise_variance(self, state, *, backend, ret_diff=False):
            return quad_variance(self, state, ret_diff)

    _CLASSES.update(LocalSDE=LocalSDE, QuadPDE=QuadPDE)
    return _CLASSES


def noise_argument(case):
    """the `noise=` argument of the equation for a case"""
    nz = case["noise"]
    k = nz["kind"]
    if k == "scalar":
        return nz["value"]
    if k in ("per-component", "per-field", "raw"):
        return np.array(nz["values"], dtype=float).reshape(nz.get("nshape", [len(nz["values"])]))
    if k == "dict":
        return dict(nz["values"])
    if k == "quad":
        return 1.0  # only the flag: the variance comes from make_noise_variance
    raise ValueError(k)


def make_rng(case, legacy=False):
    """the generator object handed to the equation and its twin"""
    seed, how = case["seed"], case.get("rng_as", "generator")
    if how == "int":
        return seed, np.random.default_rng(seed)
    g, tw = np.random.default_rng(seed), np.random.default_rng(seed)
    if how == "advanced":
        g.random(case.get("advance", 3))
        tw.random(case.get("advance", 3))
    return g, tw


def make_eq(case, rng, zero_noise=False):
    """the equation object; `zero_noise`: same equation with `noise=0` (deterministic path)"""
    import pde

    e = case["eq"]
    nz = case["noise"]
    noise = 0 if zero_noise else noise_argument(case)
    quad = None if (zero_noise or nz["kind"] != "quad") else {"g0": nz["g0"], "g2": nz["g2"]}
    interp = case["interp"]
    fam = e["family"]
    if fam == "local":
        return classes()["LocalSDE"](e["a"], e["b"], e["c"], noise=noise, interp=interp, rng=rng, quad=quad,
                                     real=None if zero_noise else e.get("real"))
    if fam == "PDE":
        if quad is not None:
            eq = classes()["QuadPDE"](e["rhs"], bc=e.get("bc", "auto_periodic_neumann"), noise=noise,
                                      noise_interpretation=interp, rng=rng)
            eq.quad = quad
            return eq
        return pde.PDE(e["rhs"], bc=e.get("bc", "auto_periodic_neumann"), noise=noise,
                       noise_interpretation=interp, rng=rng)
    if fam == "diffusion":
        eq = pde.DiffusionPDE(diffusivity=e["D"], noise=noise, bc=e.get("bc", "auto_periodic_neumann"), rng=rng)
        eq.noise_interpretation = interp
        return eq
    if fam == "kpz":
        eq = pde.KPZInterfacePDE(nu=e["nu"], lmbda=e["lmbda"], noise=noise, bc=e.get("bc", "auto_periodic_neumann"), rng=rng)
        eq.noise_interpretation = interp
        return eq
    raise ValueError(fam)


def solver_kwargs(case):
    kw = {}
    if case["solver"] == "implicit":
        if "maxerror" in case:
            kw["maxerror"] = case["maxerror"]
        if "maxiter" in case:
            kw["maxiter"] = case["maxiter"]
    if case.get("adaptive"):
        kw["adaptive"] = True
    return kw


def solve_once(case, grid, rng, record=None, zero_noise=False, backend=None, steps=None):
    """one or several consecutive `solve` calls on one equation object; returns (final data, eq, steps done)"""
    eq = make_eq(case, rng, zero_noise=zero_noise)
    if record is not None:
        orig = eq.evolution_rate

        def recording(state, t=0):
            r = orig(state, t)
            record.append(np.array(r.data, dtype=float).ravel().copy())
            return r

        eq.evolution_rate = recording
    state = make_state(grid, case["field"], case["u0"])
    dt = case["dt"]
    parts = case.get("split") or [case["steps"]]
    if steps is not None:
        parts = [steps]
    done = 0
    for n in parts:
        state = eq.solve(state, t_range=n * dt, dt=dt, solver=case["solver"], backend=backend or case.get("backend", "numpy"),
                         tracker=None, **solver_kwargs(case))
        done += int(eq.diagnostics["solver"]["steps"])
    return np.array(state.data, dtype=float), eq, done


def expected_variance(case, grid, u):
    """(variance, d variance / d field) on the data array `u` - independent re-statement of the
    documented layout: one value per tensor component / per field of a collection, or field dependent"""
    nz = case["noise"]
    fd = case["field"]
    lead = u.shape[:u.ndim - grid.num_axes]
    ones = np.ones(u.shape)
    k = nz["kind"]
    if k == "quad":
        shp = lead + (1,) * grid.num_axes
        g0 = np.array(nz["g0"], dtype=float).reshape(shp)
        g2 = np.array(nz["g2"], dtype=float).reshape(shp)
        return g0 + g2 * u ** 2, 2 * g2 * u
    if k == "scalar":
        return nz["value"] * ones, 0 * ones
    v = np.empty(u.shape)
    if fd["kind"] == "collection":
        vals = nz["values"]
        if k == "dict":
            vals = [dict(nz["values"]).get(name, 0) for name in case["eq"]["rhs"]]
        pos = 0
        for i, rank in enumerate(fd["ranks"]):
            nc = grid.dim ** rank
            v[pos:pos + nc] = vals[i] if len(vals) > 1 else vals[0]
            pos += nc
        return v, 0 * ones
    # single field: value per tensor component (trailing-axes broadcast of a smaller array)
    vals = np.array(nz["values"], dtype=float).reshape(nz.get("nshape", [len(nz["values"])]))
    dshape = (grid.dim,) * fd["ranks"][0]
    for idx in np.ndindex(*dshape):
        v[idx] = vals[idx[len(dshape) - vals.ndim:]] if vals.ndim else float(vals)
    return v, 0 * ones


def py_replay(case, grid, rate_fn, u0, xis, steps, stop_rule=False):
    """the property statement applied step by step (numpy, independent of the Lean model).
    Semi-implicit solver: the state it iterates from is `u + sqrt(var*dt/V)*xi`; `stop_rule=False` iterates
    `x = base + dt*rate(x)` to the fixed point (round-off), `stop_rule=True` stops like the documented solver
    (`maxiter`, mean squared change of one iteration below `maxerror**2`), so that runs with a loose
    `maxerror` can be judged at round-off as well."""
    alpha = ALPHA[case["interp"]]
    dt = case["dt"]
    vol = grid.cell_volumes
    solver = case["solver"]
    real = case["eq"].get("real")
    maxerror2 = case.get("maxerror", 1e-4) ** 2
    maxiter = case.get("maxiter", 100)
    u = u0.copy()
    for k in range(steps):
        xi = xis[k]
        var, dvar = expected_variance(case, grid, u)
        rate = rate_fn(u, k * dt)
        incr = np.sqrt(var * dt / vol) * xi
        if solver == "implicit":
            base = u + incr
            x = base + dt * rate
            if stop_rule:
                for _ in range(maxiter):
                    xn = base + dt * rate_fn(x, (k + 1) * dt)
                    err = float(np.mean((xn - x) ** 2))
                    x = xn
                    if err < maxerror2:
                        break
                else:
                    return None  # the documented iteration does not converge within maxiter
                u = x
                continue
            for _ in range(20000):
                xn = base + dt * rate_fn(x, (k + 1) * dt)
                if np.abs(xn - x).max() <= 1e-15 * max(1.0, np.abs(xn).max()):
                    x = xn
                    break
                x = xn
            u = x
            continue
        new = u + dt * rate + incr + 0.5 * alpha * dt * dvar / vol
        if real is not None:
            lead = u.shape[:u.ndim - grid.num_axes]
            new = new + math.sqrt(dt) * np.array(real, dtype=float).reshape(lead + (1,) * grid.num_axes) * u
        if solver == "milstein":
            dW = math.sqrt(dt) * xi
            new = new + 0.25 * dvar / vol * (dW ** 2 - dt)
        u = new
    return u


def close_arrays(a, b, rtol):
    a = np.asarray(a, dtype=float).ravel()
    b = np.asarray(b, dtype=float).ravel()
    if a.shape != b.shape:
        return False, float("inf")
    if not (np.all(np.isfinite(a)) and np.all(np.isfinite(b))):
        # a non-finite entry is a difference, also when both sides have it at the same place (agreement on
        # NaN proves nothing; cases whose documented trajectory is unstable are dropped before, see `unstable`)
        return False, float("nan")
    scale = max(1.0, float(np.abs(a).max(initial=0.0)), float(np.abs(b).max(initial=0.0)))
    dev = float(np.abs(a - b).max(initial=0.0))
    return bool(dev <= rtol * scale), dev / scale


def real_case(case):
    """run one case on the real code, evaluate the monitors, return what the model comparison needs"""
    import logging
    import warnings

    logging.getLogger("pde").setLevel(logging.ERROR)
    warnings.simplefilter("ignore")
    grid = make_grid(case["grid"])
    out = {"monitor": [], "n_monitors": 0}
    total = sum(case.get("split") or [case["steps"]])
    legacy = case.get("backend", "numpy") == "numba"
    jit_on = _jit_enabled()
    out["exec"] = "jit" if jit_on else "source"
    if bool(case.get("jit")) != jit_on:
        # a case is only meaningful in the execution mode it was generated for (the numba backend draws from
        # numpy's legacy global state in source mode and from numba's own generator when compiled)
        raise RuntimeError(f"case is marked jit={bool(case.get('jit'))} but NUMBA_DISABLE_JIT gives jit={jit_on}")

    def fresh_rng():
        if legacy:
            np.random.seed(case["seed"])
            if jit_on:
                _numba_seed(case["seed"])
            return None, np.random.RandomState(case["seed"])
        return make_rng(case)

    def fail(symptom, observed, expected):
        out["monitor"].append({"symptom": symptom, "observed": observed, "expected": expected})

    # the rate function of the equation, evaluated through its public numpy interface (monitors only)
    eq_m = make_eq(case, None)
    field_m = make_state(grid, case["field"], case["u0"])

    def rate_fn(u, t):
        field_m.data = u
        return np.array(eq_m.evolution_rate(field_m, t).data, dtype=float)

    # --- the run that is compared with the model -------------------------------------------------
    record = [] if case["eq"]["family"] != "local" else None
    rng, twin = fresh_rng()
    try:
        final, eq, done = solve_once(case, grid, rng, record=record)
    except Exception as e:  # noqa
        out["error"] = f"{type(e).__name__}: {e}"
        if type(e).__name__ == "ConvergenceError" and case["solver"] == "implicit":
            shape = field_m.data.shape
            draw = (lambda: twin.randn(*shape)) if legacy else (lambda: twin.standard_normal(shape))
            xs = [draw() for _ in range(total + 1)]
            out.update(no_convergence=True, xi=[x.ravel().tolist() for x in xs],
                       vol=np.broadcast_to(grid.cell_volumes, grid.shape).ravel().tolist())
            # monitor: the documented iteration (same state to iterate from, documented stopping rule) must
            # fail to converge as well
            out["n_monitors"] += 1
            with np.errstate(all="ignore"):
                exp = py_replay(case, grid, rate_fn, np.array(case["u0"], dtype=float).reshape(shape), xs, total,
                                stop_rule=True)
            if exp is not None and np.all(np.isfinite(exp)) and np.abs(exp).max() < 1e6:
                fail("spurious-convergence-error", out["error"],
                     {"the documented iteration converges within maxiter to": exp.ravel().tolist()[:12]})
        else:
            import traceback
            out["traceback"] = traceback.format_exc()[-1200:]
        return out
    shape = final.shape
    if legacy:
        xis = [twin.randn(*shape) for _ in range(total)]
        extra = twin.randn(*shape)
    else:
        xis = [twin.standard_normal(shape) for _ in range(total)]
        state_after = twin.bit_generator.state
        extra = twin.standard_normal(shape)
    out.update(final=final.ravel().tolist(), shape=list(shape), steps_done=done,
               xi=[x.ravel().tolist() for x in xis] + [extra.ravel().tolist()],
               vol=np.broadcast_to(grid.cell_volumes, grid.shape).ravel().tolist(),
               rates=None if record is None else [r.tolist() for r in record])
    u0 = np.array(case["u0"], dtype=float).reshape(shape)

    # the layout the anchored code produces (constant variances only)
    if case["noise"]["kind"] != "quad":
        from pde.backends import get_backend
        try:
            nv = make_eq(case, None).make_noise_variance(make_state(grid, case["field"], case["u0"]),
                                                         backend=get_backend("numpy"))(u0, 0.0)
            lead = shape[:len(shape) - grid.num_axes]
            out["layout"] = np.broadcast_to(nv, lead + (1,) * grid.num_axes).ravel().tolist()
        except Exception as e:  # noqa
            out["layout_error"] = f"{type(e).__name__}: {e}"

    # --- monitor: step count -----------------------------------------------------------------------
    out["n_monitors"] += 1
    if done != total:
        fail("step-count", done, total)

    # --- monitor: generator consumed exactly n draws ---------------------------------------------
    if not legacy:
        out["n_monitors"] += 1
        if eq.rng.bit_generator.state != state_after:
            fail("generator-state-after-run", "differs from the twin after %d draws" % total, "equal")
        if case.get("rng_as", "generator") != "int" and eq.rng is not rng:
            fail("generator-identity", "equation does not use the generator it was given", "same object")

    # --- monitor: same seed, same bits -------------------------------------------------------------
    light = bool(case.get("light"))  # compiled runs: every solve call costs seconds of compilation
    if not light or case.get("same_seed"):
        out["n_monitors"] += 1
        rng2, _ = fresh_rng()
        final2, _, _ = solve_once(case, grid, rng2)
        if final2.tobytes() != final.tobytes():
            fail("same-seed-different-result", float(np.abs(final2 - final).max()), 0.0)

    # --- monitor: documented update, step by step ------------------------------------------------
    # explicit solvers and semi-implicit runs with a tight `maxerror` (or a constant rate) are judged against the
    # fixed point itself; semi-implicit runs with a loose `maxerror` against the documented iteration with the
    # documented stopping rule (every converged case is judged, none is skipped)
    tight = case["solver"] != "implicit" or case.get("maxerror", 1e-4) <= 1e-11 or all(
        b == 0 and c == 0 for b, c in zip(case["eq"].get("b", [1]), case["eq"].get("c", [1])))
    out["implicit_monitor"] = None if case["solver"] != "implicit" else ("fixed-point" if tight else "stop-rule")
    tol = RTOL_MONITOR if case["solver"] != "implicit" else 1e-8

    def documented(n):
        with np.errstate(all="ignore"):
            return py_replay(case, grid, rate_fn, u0, xis, n, stop_rule=not tight)

    out["n_monitors"] += 1
    exp = documented(total)
    if exp is None:
        fail("documented-update", {"final": final.ravel().tolist()[:12]},
             "the documented fixed-point iteration does not converge within maxiter (ConvergenceError expected)")
    elif not (np.all(np.isfinite(exp)) and np.abs(exp).max() < 1e6):
        # the documented update itself leaves the stability region: round-off is amplified without
        # bound, nothing can be compared (the generator avoids this; counted in the evidence)
        out["unstable"] = True
    else:
        ok, dev = close_arrays(exp, final, tol)
        if not ok:
            # locate the first deviating step with shorter runs
            first = None
            if not legacy and not light:
                for n in range(1, total + 1):
                    r_n, _ = make_rng(case)
                    f_n, _, _ = solve_once(case, grid, r_n, steps=n)
                    e_n = documented(n)
                    if e_n is None or not close_arrays(e_n, f_n, tol)[0]:
                        first = n
                        break
            fail("documented-update", {"relative_deviation": dev, "first_deviating_step": first,
                                       "final": final.ravel().tolist()[:12]},
                 {"final": exp.ravel().tolist()[:12]})

    # --- monitor: vanishing variance -> deterministic ------------------------------------------
    var0, _ = expected_variance(case, grid, u0)
    zero_mask = None
    if case["eq"].get("real") is not None:
        pass  # the second noise interface adds its own term
    elif case["noise"]["kind"] == "quad":
        if all(x == 0 for x in case["noise"]["g0"]) and all(x == 0 for x in case["noise"]["g2"]):
            zero_mask = np.ones(shape, dtype=bool)
    elif case["eq"]["family"] == "local" and case["eq"].get("real") is None and case["solver"] != "implicit":
        # (the implicit solver's convergence test couples all entries, so only a fully vanishing variance
        # reproduces the deterministic iteration exactly)
        zero_mask = (var0 == 0)
        if not zero_mask.any():
            zero_mask = None
    if zero_mask is not None and not light:
        out["n_monitors"] += 1
        det, _, _ = solve_once(case, grid, fresh_rng()[0], zero_noise=True)
        if not np.array_equal(det[zero_mask], final[zero_mask]):
            fail("zero-variance-not-deterministic", float(np.abs(det - final)[zero_mask].max()), 0.0)
        out["zero_checked"] = int(zero_mask.sum())
    out["moved"] = bool(np.abs(final - u0).max() > 0)
    out["stochastic"] = bool(eq.diagnostics["solver"].get("stochastic"))
    return out


_SEEDER = []


def _jit_enabled():
    """is numba compiling in this interpreter (NUMBA_DISABLE_JIT unset or 0)?"""
    import numba

    return not bool(numba.config.DISABLE_JIT)


def _numba_seed(seed):
    import numba as nb

    if not _SEEDER:
        @nb.njit
        def _seed(s):
            np.random.seed(s)

        _SEEDER.append(_seed)
    _SEEDER[0](seed)


def numba_selftest(_arg):
    """does numba's generator, seeded inside compiled code, reproduce numpy's legacy stream?"""
    import numba as nb

    @nb.njit
    def draw(n, m):
        return np.random.randn(n, m)

    _numba_seed(12345)
    a, b = draw(3, 5), draw(3, 5)
    rs = np.random.RandomState(12345)
    return bool(np.array_equal(a, rs.randn(3, 5)) and np.array_equal(b, rs.randn(3, 5)))


def numba_stat(arg):
    """statistical check of the increments on the compiled numba backend: zero rate, so that
    final - initial is a sum of n independent increments per entry"""
    import logging
    import warnings
    import pde

    logging.getLogger("pde").setLevel(logging.ERROR)
    warnings.simplefilter("ignore")
    gd, solver, interp, noise, dt, steps, seed = arg
    grid = make_grid(gd)
    _numba_seed(seed)
    np.random.seed(seed)
    n = int(np.prod(grid.shape))
    eq = classes()["LocalSDE"]([0.0], [0.0], [0.0], noise=noise, interp=interp, rng=None)
    state = pde.ScalarField(grid, 0.5)
    res = eq.solve(state, t_range=steps * dt, dt=dt, solver=solver, backend="numba", tracker=None)
    z = (res.data - 0.5) / np.sqrt(noise * dt * steps / grid.cell_volumes)
    return {"n": n, "mean": float(z.mean()), "msq": float((z ** 2).mean()), "steps": int(eq.diagnostics["solver"]["steps"])}


def expect_error(case):
    """malformed stream: the real code must raise"""
    import logging
    import warnings

    logging.getLogger("pde").setLevel(logging.ERROR)
    warnings.simplefilter("ignore")
    grid = make_grid(case["grid"])
    try:
        rng, _ = make_rng(case)
        solve_once(case, grid, rng)
    except Exception as e:  # noqa
        return {"error": type(e).__name__, "msg": str(e)[:200]}
    return {"error": None}


# ------------------------------------------------------------------------------------------------
# generators
def gen_grid(rng, exact=False, max_cells=24):
    while True:
        if exact:
            c = rng.choice(["UnitGrid", "CartesianGrid", "CartesianGrid"])
        else:
            c = rng.choice(["UnitGrid", "CartesianGrid", "CartesianGrid", "PolarSymGrid", "PolarSymGrid",
                            "SphericalSymGrid", "SphericalSymGrid", "CylindricalSymGrid", "CylindricalSymGrid"])
        nax = {"PolarSymGrid": 1, "SphericalSymGrid": 1, "CylindricalSymGrid": 2}.get(c) or rng.choice([1, 1, 2, 2, 3])
        shape = [rng.choice([1, 2, 3, 3, 4, 5, 6, 8]) for _ in range(nax)]
        if int(np.prod(shape)) > (6 if exact else max_cells):
            continue
        bounds, periodic = [], []
        for i in range(nax):
            dx = rng.choice([0.25, 1.0, 4.0]) if exact else rng.choice([0.25, 0.5, 1.0, 2.0, 0.125, 1.5, 0.75, 0.3, 1.1])
            radial = c in ("PolarSymGrid", "SphericalSymGrid") or (c == "CylindricalSymGrid" and i == 0)
            if c == "UnitGrid":
                dx, lo = 1.0, 0.0
            elif radial:
                lo = rng.choice([0.0, 0.0, 0.5, 1.0, 2.25, 0.1])
            else:
                lo = rng.choice([0.0, -1.0, 0.5, -2.75, 3.0])
            bounds.append([lo, lo + dx * shape[i]])
            periodic.append(False if radial else rng.random() < 0.3)
        return {"cls": c, "shape": shape, "bounds": bounds, "periodic": periodic}


def gen_field(rng, gd, max_entries=160):
    dim = grid_dim(gd)
    ncell = int(np.prod(gd["shape"]))
    while True:
        kind = rng.choice(["scalar", "scalar", "vector", "vector", "tensor", "collection", "collection", "collection"])
        if kind == "collection":
            ranks = [rng.choice([0, 0, 0, 1, 1, 2]) for _ in range(rng.choice([1, 2, 2, 3, 4]))]
        else:
            ranks = [{"scalar": 0, "vector": 1, "tensor": 2}[kind]]
        if sum(dim ** r for r in ranks) * ncell <= max_entries:
            return {"kind": kind, "ranks": ranks}


def data_shape(gd, fd):
    dim = grid_dim(gd)
    if fd["kind"] == "collection":
        return [sum(dim ** r for r in fd["ranks"])]
    return [dim] * fd["ranks"][0]


def gen_noise(rng, gd, fd, ncomp, exact=False, allow_quad=True):
    vals = [0.0, 0.25, 1.0, 0.0625, 4.0, 2.25] if exact else [0.0, 0.1, 0.3, 1.0, 0.02, 2.5, 1e-3, 0.7, 1e-12, 1e4]
    nonzero = [v for v in vals if v]
    r = rng.random()
    if allow_quad and r < 0.3:
        if exact:
            g0 = [0.0] * ncomp
            g2 = [rng.choice([0.25, 1.0, 0.0625, 0.0]) for _ in range(ncomp)]
        else:
            g0 = [rng.choice([0.0, 0.0, 0.05, 0.2]) for _ in range(ncomp)]
            g2 = [rng.choice([0.0, 0.1, 0.3, 0.5, 1.0]) for _ in range(ncomp)]
            if rng.random() < 0.12:
                g0, g2 = [0.0] * ncomp, [0.0] * ncomp
        return {"kind": "quad", "g0": g0, "g2": g2}
    if r < 0.5:
        return {"kind": "scalar", "value": rng.choice(nonzero)}
    if fd["kind"] == "collection":
        v = [rng.choice(vals) for _ in fd["ranks"]]
        if not any(v):
            v[rng.randrange(len(v))] = rng.choice(nonzero)
        return {"kind": "per-field", "values": v, "nshape": [len(v)]}
    dshape = data_shape(gd, fd)
    if not dshape:
        return {"kind": "scalar", "value": rng.choice(nonzero)}
    nshape = dshape if (len(dshape) < 2 or rng.random() < 0.7) else dshape[1:]
    v = [rng.choice(vals) for _ in range(int(np.prod(nshape)))]
    if not any(v):
        v[rng.randrange(len(v))] = rng.choice(nonzero)
    return {"kind": "per-component", "values": v, "nshape": list(nshape)}


def stabilise(gd, dt, steps, b, c, noise):
    """generator heuristic only: keep the explicit schemes inside their stability region (small cells make
    the noise amplitude sqrt(var*dt/V) large), so that trajectories can be compared to round-off"""
    vmin = float(np.min(make_grid(gd).cell_volumes))
    if noise["kind"] == "quad":
        lim = 0.05 * vmin / dt
        noise = dict(noise, g2=[x if x <= lim else float("%.2g" % lim) for x in noise["g2"]],
                     g0=[x if x * dt / vmin <= 0.5 else float("%.2g" % (0.5 * vmin / dt)) for x in noise["g0"]])
        vmax = max(noise["g0"]) + 4 * max(noise["g2"])
    else:
        vmax = max([noise.get("value", 0)] + list(noise.get("values", [])))
    amp = 2.0 + 4 * math.sqrt(vmax * dt * steps / vmin)
    if dt * amp ** 2 > 0.3:
        c = [0.0] * len(c)  # a cubic rate would leave the stability region
    if vmax * dt / vmin > 1:
        b = [min(x, 0.0) for x in b]
    return b, c, noise


def gen_local_case(rng, exact=False, backend="numpy"):
    gd = gen_grid(rng, exact=exact)
    fd = gen_field(rng, gd, max_entries=12 if exact else 160)
    dim = grid_dim(gd)
    ncomp = sum(dim ** r for r in fd["ranks"])
    ncell = int(np.prod(gd["shape"]))
    solver = rng.choice(["euler", "euler", "milstein", "milstein", "implicit"])
    interp = rng.choice(["ito", "stratonovich", "anti-ito", "ito", "stratonovich", "anti-ito", "itô", "hänggi-klimontovich"])
    if exact:
        dt = rng.choice([0.25, 0.0625, 1 / 64, 1 / 256])
        steps = rng.choice([1, 2, 3])
        a = [rng.randint(-4, 4) / 4 for _ in range(ncomp)]
        b = [rng.randint(-6, 2) / 4 for _ in range(ncomp)]
        c = [0.0] * ncomp
        u0 = [rng.randint(-12, 12) / 8 for _ in range(ncomp * ncell)]
        if solver == "implicit":
            solver = rng.choice(["euler", "milstein"])  # convergence test at Rat would differ from the float run by rounding
    else:
        dt = rng.choice([1e-3, 0.01, 0.005, 1 / 64, 1 / 256, 0.03, 0.002, 0.1, 1e-6])
        steps = rng.choice([1, 1, 2, 3, 5, 8, 13, 20])
        a = [round(rng.uniform(-1, 1), 3) for _ in range(ncomp)]
        b = [round(rng.uniform(-2, 0.5), 3) for _ in range(ncomp)]
        c = [rng.choice([0.0, 0.0, -0.5, -1.0, round(rng.uniform(-1, 0), 3)]) for _ in range(ncomp)]
        if rng.random() < 0.15:
            a, b, c = [0.0] * ncomp, [0.0] * ncomp, [0.0] * ncomp
        u0 = [rng.uniform(-1.5, 1.5) for _ in range(ncomp * ncell)]
    noise = gen_noise(rng, gd, fd, ncomp, exact=exact)
    if not exact:
        b, c, noise = stabilise(gd, dt, steps, b, c, noise)
    case = {"grid": gd, "field": fd, "eq": {"family": "local", "a": a, "b": b, "c": c},
            "noise": noise, "interp": interp, "solver": solver, "dt": dt,
            "steps": steps, "seed": rng.randint(0, 2 ** 31), "rng_as": rng.choice(["generator", "generator", "int", "advanced"]),
            "u0": u0, "backend": backend}
    if case["rng_as"] == "advanced":
        case["advance"] = rng.randint(1, 7)
    if solver == "implicit":
        case["dt"] = min(dt, rng.choice([0.03, 0.01, 0.005]))
        r = rng.random()
        if r < 0.5:
            case["maxerror"] = 1e-12
            case["maxiter"] = 2000
        elif r < 0.65:
            case["maxerror"] = 1e-6
        elif r < 0.75:
            case["maxerror"] = 1e-12  # too few iterations allowed: ConvergenceError (model: `none`) unless the rate vanishes
            case["maxiter"] = rng.choice([1, 2, 3])
    elif rng.random() < 0.12 and not exact:
        case["eq"]["real"] = [rng.choice([0.0, 0.1, -0.2, 0.05]) for _ in range(ncomp)]
    if steps >= 2 and rng.random() < 0.2:
        k = rng.randint(1, steps - 1)
        case["split"] = [k, steps - k]
    return case


CART = ("UnitGrid", "CartesianGrid")
RECORDED = [
    ("PDE", {"rhs": {"c": "laplace(c) - c"}}, [0], None),
    ("PDE", {"rhs": {"c": "laplace(c) + c - c**3"}}, [0], None),
    ("PDE", {"rhs": {"u": "-u + laplace(v)", "v": "u - v**3"}}, [0, 0], None),
    ("PDE", {"rhs": {"c": "divergence(p)", "p": "-gradient(c) - p"}}, [0, 1], CART + ("PolarSymGrid", "CylindricalSymGrid")),
    ("PDE", {"rhs": {"p": "-p + 0.1 * vector_laplace(p)"}}, [1], CART + ("CylindricalSymGrid",)),
    ("PDE", {"rhs": {"p": "-p + 0.2 * gradient(dot(p, p))"}}, [1], None),
    ("diffusion", {"D": 0.3}, [0], None),
    ("kpz", {"nu": 0.4, "lmbda": 0.7}, [0], CART),
]


def gen_recorded_case(rng):
    while True:
        fam, params, ranks, allowed = rng.choice(RECORDED)
        gd = gen_grid(rng, max_cells=12)
        if min(gd["shape"]) < 2 or (allowed and gd["cls"] not in allowed):
            continue
        break
    fd = {"kind": "collection" if len(ranks) > 1 else ["scalar", "vector", "tensor"][ranks[0]], "ranks": list(ranks)}
    dim = grid_dim(gd)
    ncomp = sum(dim ** r for r in ranks)
    ncell = int(np.prod(gd["shape"]))
    eq = dict(params, family=fam)
    quad_ok = fam == "PDE"
    if len(ranks) > 1:
        r = rng.random()
        names = list(params["rhs"])
        if r < 0.3 and quad_ok:
            nz = gen_noise(rng, gd, fd, ncomp)
            while nz["kind"] != "quad":
                nz = gen_noise(rng, gd, fd, ncomp)
        elif r < 0.55:
            nz = {"kind": "dict", "values": [[rng.choice(names), rng.choice([0.1, 0.5, 1.0])]]}
        elif r < 0.8:
            nz = {"kind": "per-field", "values": [rng.choice([0.0, 0.1, 0.4, 1.0]) for _ in ranks], "nshape": [len(ranks)]}
            if not any(nz["values"]):
                nz["values"][0] = 0.2
        else:
            nz = {"kind": "scalar", "value": rng.choice([0.1, 0.5, 1.0])}
    else:
        if quad_ok and rng.random() < 0.4:
            nz = {"kind": "quad", "g0": [rng.choice([0.0, 0.05])] * ncomp, "g2": [rng.choice([0.2, 0.5, 1.0])] * ncomp}
        else:
            nz = {"kind": "scalar", "value": rng.choice([0.1, 0.5, 1.0, 0.02])}
    dxmin = min((b[1] - b[0]) / n for b, n in zip(gd["bounds"], gd["shape"]))
    dt = min(rng.choice([1e-3, 0.002, 0.005]), 0.1 * dxmin ** 2)
    case = {"grid": gd, "field": fd, "eq": eq, "noise": nz,
            "interp": rng.choice(["ito", "stratonovich", "anti-ito"]), "solver": rng.choice(["euler", "milstein"]),
            "dt": dt, "steps": rng.choice([1, 2, 3, 5, 8, 12]), "seed": rng.randint(0, 2 ** 31),
            "rng_as": rng.choice(["generator", "int"]), "u0": [rng.uniform(-1, 1) for _ in range(ncomp * ncell)],
            "backend": "numpy"}
    if case["steps"] >= 2 and rng.random() < 0.2:
        k = rng.randint(1, case["steps"] - 1)
        case["split"] = [k, case["steps"] - k]
    return case


def gen_malformed(rng):
    base = gen_local_case(rng)
    base.pop("split", None)
    base["eq"].pop("real", None)
    kind = rng.choice(["noise-length", "scalar-field-array-noise", "interpretation", "implicit-realization", "adaptive"])
    dim = grid_dim(base["grid"])
    ncell = int(np.prod(base["grid"]["shape"]))
    if kind == "noise-length":
        if base["field"]["kind"] != "collection" and base["field"]["ranks"][0] == 0:
            base["field"] = {"kind": "collection", "ranks": [0, 0]}
            base["eq"].update(a=[0.0, 0.1], b=[-1.0, -0.5], c=[0.0, 0.0])
            base["u0"] = (base["u0"] * 2)[:2 * ncell]
        if base["field"]["kind"] == "collection":
            n = len(base["field"]["ranks"]) + rng.choice([1, 2])
        else:
            n = dim + 1 + (dim == 1)
            if base["field"]["ranks"][0] == 0:
                kind = "scalar-field-array-noise"
        base["noise"] = {"kind": "raw", "values": [0.1 * (i + 1) for i in range(n)], "nshape": [n]}
    if kind == "scalar-field-array-noise":
        base["field"] = {"kind": "scalar", "ranks": [0]}
        base["eq"].update(a=[0.0], b=[-1.0], c=[0.0])
        base["u0"] = base["u0"][:ncell]
        base["noise"] = {"kind": "raw", "values": [0.1], "nshape": [1]}
    if kind == "interpretation":
        base["interp"] = rng.choice(["Ito", "strato", "anti_ito", ""])
        if base["solver"] == "implicit":  # this solver never reads the interpretation (observation in notes/C13.md)
            base["solver"] = rng.choice(["euler", "milstein"])
    if kind == "implicit-realization":
        base["solver"] = "implicit"
        ncomp = sum(dim ** r for r in base["field"]["ranks"])
        base["eq"]["real"] = [0.1] * ncomp
    if kind == "adaptive":
        base["solver"] = "euler"
        base["adaptive"] = True
    return kind, base


# ------------------------------------------------------------------------------------------------
# model side
def model_request(case, res, mode):
    enc = fbits if mode == "F" else q
    gd, fd = case["grid"], case["field"]
    dim = grid_dim(gd)
    ncomps = [dim ** r for r in fd["ranks"]]
    ncomp = sum(ncomps)
    total = sum(case.get("split") or [case["steps"]])
    req = {"mode": mode, "solver": case["solver"], "interp": case["interp"], "dt": enc(case["dt"]), "steps": total,
           "u0": [enc(x) for x in case["u0"]], "xi": [[enc(x) for x in arr] for arr in res["xi"]]}
    if mode == "F":
        import pde  # bounds as the grid object holds them
        grid = make_grid(gd)
        b = grid.axes_bounds
        if gd["cls"] == "UnitGrid":
            b = [(0.0, float(n)) for n in gd["shape"]]
        req["grid"] = {"cls": SHORT[gd["cls"]], "lo": [enc(float(x[0])) for x in b], "hi": [enc(float(x[1])) for x in b],
                       "n": list(gd["shape"])}
        req["pi"] = enc(math.pi)
    else:
        req["vol"] = [enc(x) for x in res["vol"]]
    e = case["eq"]
    if e["family"] == "local":
        req["rate"] = {"kind": "local", "a": [enc(x) for x in e["a"]], "b": [enc(x) for x in e["b"]], "c": [enc(x) for x in e["c"]]}
        if e.get("real") is not None:
            req["real"] = [enc(x) for x in e["real"]]
    else:
        req["rate"] = {"kind": "recorded", "rates": [[enc(x) for x in r] for r in res["rates"]]}
    nz = case["noise"]
    k = nz["kind"]
    if k == "quad":
        req["var"] = {"kind": "quad", "g0": [enc(x) for x in nz["g0"]], "g2": [enc(x) for x in nz["g2"]]}
    elif fd["kind"] == "collection":
        vals = nz["values"] if k != "scalar" else [nz["value"]]
        if k == "dict":
            vals = [dict(nz["values"]).get(name, 0) for name in e["rhs"]]
        req["var"] = {"kind": "collection", "noise": [enc(x) for x in vals], "ncomps": ncomps}
    else:
        vals = nz["values"] if k != "scalar" else [nz["value"]]
        req["var"] = {"kind": "field", "noise": [enc(x) for x in vals], "nshape": nz.get("nshape", []) if k != "scalar" else [],
                      "dshape": data_shape(gd, fd), "ncomp": ncomp}
    if case["solver"] == "implicit":
        req["maxiter"] = case.get("maxiter", 100)
        req["maxerr"] = enc(case.get("maxerror", 1e-4))
    return req


def dec(mode, xs):
    return [unfbits(x) if mode == "F" else float(unq(x)) for x in xs]


def case_key(case):
    return {k: v for k, v in case.items() if k != "u0"} | {"u0_head": case["u0"][:4]}


def symptom_key(case, symptom):
    return {"solver": case["solver"], "backend": case.get("backend", "numpy"), "symptom": symptom}


def _raised_in_repo(text):
    """does the traceback text of a crashed worker end inside the code under test?"""
    from harness.common import paths

    frames = [l for l in text.splitlines() if l.lstrip().startswith("File ")]
    return any((paths.REPO.rstrip("/") + "/pde/") in l for l in frames)


def worker(job):
    kind, arg = job
    if kind == "case":
        return real_case(arg)
    if kind == "stat":
        return numba_stat(arg)
    if kind == "error":
        return expect_error(arg)
    if kind == "selftest":
        return numba_selftest(arg)
    raise ValueError(kind)


def fan_out(jobs, env, procs):
    """run jobs in `procs` fresh interpreters; jobs are dealt round-robin so that expensive kinds spread"""
    n = len(jobs)
    procs = max(1, min(procs, n))
    perm = [i for r in range(procs) for i in range(r, n, procs)]
    res = run_many("harness.c13", "worker", [jobs[i] for i in perm], env=env, procs=procs)
    out = [None] * n
    for i, r in zip(perm, res):
        out[i] = r
    return out


def judge(ctx, leg, case, res, resp, mode):
    """monitors (already evaluated on the real code by the worker) and model comparison for one case"""
    nz = case["noise"]
    nonzero = (nz["kind"] == "quad" and (any(nz["g0"]) or any(nz["g2"]))) or (nz["kind"] == "scalar" and nz["value"]) or \
              (nz["kind"] in ("per-component", "per-field", "dict", "raw"))
    if isinstance(res, str) or ("error" in res and not res.get("no_convergence")):
        # the real code raised on a valid case: the property fails on this input (replayable)
        if isinstance(res, str) and not _raised_in_repo(res):
            from harness.common.lean import BrokenCheck
            raise BrokenCheck("C13 worker failed outside the code under test:\n" + res[-1500:])
        ctx.count(case_key(case), nontrivial=False, leg=leg)
        ctx.monitor_evals += 1
        err = res[-600:] if isinstance(res, str) else res["error"]
        ctx.monitor_fail(leg, case, {"raised": err, "traceback": None if isinstance(res, str) else res.get("traceback")},
                         "a run without exception", f"{case['solver']}/{case.get('backend', 'numpy')}: raises",
                         key=symptom_key(case, "raises"))
        return
    if res.get("no_convergence"):
        # ConvergenceError of the fixed-point iteration is a modelled outcome (`none`)
        ctx.count(case_key(case), nontrivial=False, leg=leg)
        ctx.hist("implicit", "no-convergence")
        ctx.monitor_evals += res["n_monitors"]
        for m in res["monitor"]:
            ctx.monitor_fail(leg, case, m["observed"], m["expected"],
                             f"{case['solver']}/{case.get('backend', 'numpy')}: {m['symptom']}", key=symptom_key(case, m["symptom"]))
        ctx.impl_traces += 1
        st, val = resp
        if st != "ok" or val["final"] is not None:
            ctx.disagree(leg, case, "model converges" if st == "ok" else f"model error: {val}", res["error"], "convergence of the implicit iteration")
        return
    if res.get("unstable"):
        ctx.count(case_key(case), nontrivial=False, leg=leg)
        ctx.hist("stability", "documented update unstable: not compared")
        return
    ctx.hist("stability", "stable")
    ctx.count(case_key(case), nontrivial=bool(nonzero and res.get("moved")), leg=leg)
    ctx.monitor_evals += res["n_monitors"]
    for m in res["monitor"]:
        ctx.monitor_fail(leg, case, m["observed"], m["expected"],
                         f"{case['solver']}/{case.get('backend', 'numpy')}: {m['symptom']}", key=symptom_key(case, m["symptom"]))
    ctx.hist("solver", f"{case['solver']}:{case['interp']}")
    ctx.hist("grid", f"{SHORT[case['grid']['cls']]}:{len(case['grid']['shape'])}d")
    ctx.hist("field", case["field"]["kind"] + ":" + "".join(str(r) for r in case["field"]["ranks"]))
    ctx.hist("variance", nz["kind"] + (":with-zero-entry" if nz["kind"] in ("per-component", "per-field") and 0 in nz["values"] else ""))
    ctx.hist("steps", sum(case.get("split") or [case["steps"]]))
    ctx.hist("rng", case.get("rng_as", "generator") + (":two-solves" if case.get("split") else ""))
    ctx.hist("equation", case["eq"]["family"] + (":realization" if case["eq"].get("real") is not None else ""))
    if case["solver"] == "implicit":
        ctx.hist("implicit", "converged:maxerror=%g" % case.get("maxerror", 1e-4))
        ctx.hist("implicit-documented-update-judged-by", res.get("implicit_monitor"))
    ctx.hist("execution", res.get("exec"))
    if res.get("zero_checked"):
        ctx.hist("zero-variance-entries-checked", "cases")
    if resp is None:
        return
    ctx.impl_traces += 1
    st, val = resp
    if st != "ok":
        ctx.disagree(leg, case, f"model error: {val}", "runs")
        return
    # volumes and layout
    mvol = dec(mode, val["vol"])
    okv, devv = close_arrays(mvol, res["vol"], 1e-12)
    if not okv:
        ctx.disagree(leg, case, {"vol": mvol}, {"vol": res["vol"]}, "cell volumes")
        return
    if "layout" in res:
        mvars = dec(mode, val["vars"])
        if mvars != res["layout"]:
            ctx.disagree(leg, case, {"per-component variance": mvars}, {"per-component variance": res["layout"]}, "variance layout")
            return
    elif "layout_error" in res:
        ctx.disagree(leg, case, "layout", res["layout_error"], "make_noise_variance raised")
        return
    if val["final"] is None:
        ctx.disagree(leg, case, "model run failed (no convergence / stream dry)", "runs")
        return
    if val["rest"] != 1:
        ctx.disagree(leg, case, {"unconsumed": val["rest"]}, {"unconsumed": 1}, "stream accounting")
        return
    # generator-threaded loop of the model (`Sys.runGen`, theorems of Props/C13b.lean): one call per step must leave
    # exactly the one extra array in the generator and reproduce the list-fed run (which is compared with the real
    # trajectory just below) entry for entry
    if val.get("gen_rest") != 1 or val.get("gen_final") != val["final"]:
        ctx.disagree(leg, case, {"gen_rest": val.get("gen_rest"), "gen_final": (val.get("gen_final") or [])[:8]},
                     {"gen_rest": 1, "final": val["final"][:8]}, "generator-threaded model run (runGen) differs from the list-fed run")
        return
    ctx.hist("runGen", "one call per step, equals the list-fed run")
    mfin = dec(mode, val["final"])
    ok, dev = close_arrays(mfin, res["final"], RTOL_MODEL)
    if not ok:
        ctx.disagree(leg, case, {"final": mfin[:16]}, {"final": res["final"][:16]}, f"trajectory deviates, relative {dev:.3e}")
        return
    if mode == "F":
        same = all(fbits(a) == fbits(b) for a, b in zip(mfin, res["final"]))
        ctx.hist("float-replay", "bit-identical" if same else ("<=1e-15" if dev <= 1e-15 else "<=1e-12"))
    else:
        ctx.hist("exact-vs-float", "<=1e-15" if dev <= 1e-15 else "<=1e-12")


# ------------------------------------------------------------------------------------------------
def run(ctx):
    import threading
    from harness.common.lean import LeanBatch

    rng = ctx.rng
    src = {"NUMBA_DISABLE_JIT": "1"}
    jit = {"NUMBA_DISABLE_JIT": "0"}

    local = [gen_local_case(rng) for _ in range(ctx.budget(500, 12000))]
    recorded = [gen_recorded_case(rng) for _ in range(ctx.budget(50, 900))]
    exact = [gen_local_case(rng, exact=True) for _ in range(ctx.budget(120, 2500))]
    nb_src = [gen_local_case(rng, backend="numba") for _ in range(ctx.budget(120, 2500))]
    for c in nb_src:
        c["rng_as"] = "legacy"
        c.pop("advance", None)
    nb_jit = []
    for _ in range(ctx.budget(8, 96)):
        c = gen_local_case(rng, backend="numba")
        c.update(rng_as="legacy", jit=True, light=True)
        c.pop("advance", None)
        nb_jit.append(c)
    for c in nb_jit[: ctx.budget(3, 24)]:
        c["same_seed"] = True  # compiled runs are expensive: the same-seed monitor runs on a part of them
    rec_jit = [dict(c, light=True, jit=True) for c in rng.sample(recorded, min(len(recorded), ctx.budget(4, 48)))]
    malformed = [gen_malformed(rng) for _ in range(ctx.budget(40, 600))]
    sjobs = []
    for k in range(ctx.budget(6, 36)):
        cls = ["PolarSymGrid", "SphericalSymGrid", "CartesianGrid", "CylindricalSymGrid"][k % 4]
        # N = 65536 cells: the 6-sigma window on the mean square is +-3.3 % (a 2 % error of the amplitude fails)
        if cls == "CylindricalSymGrid":
            gd = {"cls": cls, "shape": [256, 256], "bounds": [[0.0, 64.0], [0.0, 128.0]], "periodic": [False, False]}
        elif cls == "CartesianGrid":
            gd = {"cls": cls, "shape": [256, 256], "bounds": [[0.0, 64.0], [0.0, 192.0]], "periodic": [False, True]}
        else:
            gd = {"cls": cls, "shape": [65536], "bounds": [[1.0, 513.0]], "periodic": [False]}
        sjobs.append((gd, ["euler", "milstein", "implicit"][k % 3], rng.choice(["ito", "stratonovich"]),
                      rng.choice([0.1, 0.5, 2.0]), rng.choice([0.01, 0.002, 0.05]), rng.choice([1, 4, 16]), rng.randint(0, 2 ** 31)))

    groups_src = [("local", local, "F"), ("recorded", recorded, "F"), ("exact", exact, "Q"), ("numba-source", nb_src, "F")]
    groups_jit = [("numba-jit", nb_jit, "F"), ("recorded-jit", rec_jit, "F")]
    jobs_src = [("case", c) for _, cs, _ in groups_src for c in cs] + [("error", c) for _, c in malformed]
    jobs_jit = [("selftest", 0)] + [("case", c) for _, cs, _ in groups_jit for c in cs] + [("stat", a) for a in sjobs]
    box = {}

    def run_jit():
        try:
            box["jit"] = fan_out(jobs_jit, jit, 8)
        except BaseException as e:  # noqa
            box["exc"] = e

    th = threading.Thread(target=run_jit)
    th.start()
    res_src = fan_out(jobs_src, src, 8)
    th.join()
    if "exc" in box:
        raise box["exc"]
    res_jit = box["jit"]
    selftest = res_jit[0]
    ctx.extra["numba_generator_reproduces_legacy_stream"] = selftest
    if selftest is not True:
        # depends on the installed numba only, never on the tree under test: without it the compiled leg could
        # only be judged statistically, which is not what this check claims
        from harness.common.lean import BrokenCheck
        raise BrokenCheck(f"numba generator self-test failed ({str(selftest)[-300:]}): the compiled backend cannot be replayed exactly")

    batch = LeanBatch(ctx.workdir)
    pending = []
    pos = 0
    for name, cases, mode in groups_src:
        for case in cases:
            pending.append((name, case, res_src[pos], mode))
            pos += 1
    mres = res_src[pos:]
    pos = 1
    for name, cases, mode in groups_jit:
        for case in cases:
            r = res_jit[pos]
            pos += 1
            pending.append((name, case, r, mode))
    sres = res_jit[pos:]
    idxs = []
    for name, case, res, mode in pending:
        idx = None
        if not isinstance(res, str) and ("error" not in res or res.get("no_convergence")):
            idx = batch.add("c13.run", model_request(case, res, mode))
        idxs.append(idx)
    answers = batch.run()
    for (name, case, res, mode), idx in zip(pending, idxs):
        judge(ctx, name, case, res, None if idx is None else answers[idx], mode)

    # ---- malformed stream ---------------------------------------------------------------------
    b2 = LeanBatch(ctx.workdir)
    midx = []
    for (kind, case), r in zip(malformed, mres):
        i = None
        if kind in ("noise-length", "scalar-field-array-noise", "interpretation"):
            fake = {"xi": [], "vol": [1.0] * int(np.prod(case["grid"]["shape"])), "rates": []}
            req = model_request(dict(case, steps=0), fake, "F")
            i = b2.add("c13.run", req)
        midx.append(i)
    a2 = b2.run()
    expected_cls = {"noise-length": "ValueError", "scalar-field-array-noise": "ValueError", "interpretation": "KeyError",
                    "implicit-realization": "NotImplementedError", "adaptive": "RuntimeError"}
    for (kind, case), r, i in zip(malformed, mres, midx):
        ctx.count({"malformed": kind, **case_key(case)}, nontrivial=False, leg="malformed")
        ctx.hist("malformed", kind)
        ctx.monitor_evals += 1
        if isinstance(r, str) and not _raised_in_repo(r):
            from harness.common.lean import BrokenCheck
            raise BrokenCheck("C13 worker (malformed stream) failed outside the code under test:\n" + r[-1500:])
        got = r[-300:] if isinstance(r, str) else r["error"]
        if got != expected_cls[kind]:
            ctx.monitor_fail("malformed", dict(case, malformed=kind), got, expected_cls[kind],
                             f"malformed input ({kind}) not rejected as expected", key={"symptom": "malformed-" + kind})
        if i is not None:
            ctx.impl_traces += 1
            st, val = a2[i]
            if st != "err" or not ("broadcast-error" in val or "unknown interpretation" in val):
                ctx.disagree("malformed", case, a2[i], got, "model accepts what the code rejects")

    # ---- statistical check of the compiled numba backend ---------------------------------------
    for job, r in zip(sjobs, sres):
        gd, solver, interp, noise, dt, steps, seed = job
        key = {"stat": True, "grid": gd, "solver": solver, "interp": interp, "noise": noise, "dt": dt, "steps": steps, "seed": seed}
        ctx.count(key, nontrivial=True, leg="numba-statistics")
        ctx.hist("numba-statistics", f"{SHORT[gd['cls']]}:{solver}")
        ctx.monitor_evals += 1
        if isinstance(r, str):
            if not _raised_in_repo(r):
                from harness.common.lean import BrokenCheck
                raise BrokenCheck("C13 worker (numba statistics) failed outside the code under test:\n" + r[-1500:])
            ctx.monitor_fail("numba-statistics", key, {"raised": r[-600:]}, "a run without exception", f"{solver}/numba: raises",
                             key={"solver": solver, "backend": "numba", "symptom": "raises"})
            continue
        if not stat_ok(r, steps):
            ctx.monitor_fail("numba-statistics", key, r, {"msq": f"1 +- {6 * math.sqrt(2 / r['n']):.3f}", "steps": steps},
                             f"{solver}/numba: variance of increments", key={"solver": solver, "backend": "numba", "symptom": "increment-variance"})

    # ---- floor on the coverage: an empty leg is a broken check, not a pass ---------------------------
    floors = {"local": len(local), "recorded": len(recorded), "exact": len(exact), "numba-source": len(nb_src),
              "numba-jit": len(nb_jit), "recorded-jit": len(rec_jit), "malformed": len(malformed), "numba-statistics": len(sjobs)}
    short = {k: (ctx.legs.get(k, 0), n) for k, n in floors.items() if ctx.legs.get(k, 0) < n or n == 0}
    if not ctx.monitor_failures and (short or ctx.monitor_evals == 0 or ctx.impl_traces == 0):
        from harness.common.lean import BrokenCheck
        raise BrokenCheck(f"C13 coverage floor not met: legs (counted, generated) {short}, monitor evaluations "
                          f"{ctx.monitor_evals}, model comparisons {ctx.impl_traces}")


def stat_ok(r, steps):
    """z = increment / sqrt(noise*dt*n/V) must be standard normal: mean(z^2) = 1 +- 6*sqrt(2/N), |mean| <= 6/sqrt(N)
    (written so that a NaN fails)"""
    return bool(abs(r["msq"] - 1) <= 6 * math.sqrt(2 / r["n"]) and abs(r["mean"]) <= 6 / math.sqrt(r["n"])
                and r["steps"] == steps)


def search(ctx, broken):
    """failing-input search after a broken tie: monitors on the disagreeing cases (as recorded and with 20 steps),
    in source mode (NUMBA_DISABLE_JIT=1; the flags of compiled cases are dropped so that the case that is written
    out replays in the mode it was found in)"""
    found = []
    cases = []
    for d in broken:
        c = d.get("case") if isinstance(d, dict) else None
        if not c or "eq" not in c or c.get("adaptive"):
            continue
        for steps in (c["steps"], 20):
            v = dict(c, steps=steps)
            for k in ("split", "jit", "light", "same_seed"):
                v.pop(k, None)
            cases.append(v)
        if len(cases) >= 64:
            break
    if not cases:
        return found
    res = fan_out([("case", c) for c in cases], {"NUMBA_DISABLE_JIT": "1"}, 16)
    for c, r in zip(cases, res):
        for m in case_failures(r):
            found.append({"leg": "search", "case": c, "observed": m["observed"], "expected": m["expected"],
                          "what": f"{c['solver']}: {m['symptom']}", "key": symptom_key(c, m["symptom"])})
            return found
    return found


def case_failures(r):
    """the failed monitors of one executed case (the result of `real_case` in a worker), a crash included"""
    if isinstance(r, str):
        if not _raised_in_repo(r):
            from harness.common.lean import BrokenCheck
            raise BrokenCheck("C13 worker failed outside the code under test:\n" + r[-1500:])
        return [{"symptom": "raises", "observed": {"raised": r[-600:]}, "expected": "a run without exception"}]
    fails = list(r["monitor"])
    if "error" in r and not r.get("no_convergence"):
        fails.append({"symptom": "raises", "observed": {"raised": r["error"]}, "expected": "a run without exception"})
    return fails


def exec_env(case):
    """the execution mode a case was generated for: compiled (`jit`) or numba source semantics"""
    return {"NUMBA_DISABLE_JIT": "0" if case.get("jit") else "1"}


def replay(ctx, rep):
    """re-run the recorded case in a fresh interpreter in the execution mode it was recorded in (numba-source and
    numpy cases under NUMBA_DISABLE_JIT=1, compiled cases with the JIT on) and judge the recorded symptom"""
    from harness.common.isolated import run_one

    c = rep.get("case")
    leg = rep.get("leg")
    if not isinstance(c, dict):
        print("cannot be replayed: the file records no case")
        return False
    if leg == "numba-statistics":
        need = ("grid", "solver", "interp", "noise", "dt", "steps", "seed")
        if any(k not in c for k in need):
            print("cannot be replayed: the recorded statistics job is incomplete")
            return False
        r = run_one("harness.c13", "worker", ("stat", tuple(c[k] for k in need)), env={"NUMBA_DISABLE_JIT": "0"})
        print(r if not isinstance(r, str) else "real code raised:\n" + r[-1200:])
        return (not isinstance(r, str)) and stat_ok(r, c["steps"])
    if leg == "malformed":
        r = run_one("harness.c13", "worker", ("error", c), env={"NUMBA_DISABLE_JIT": "1"})
        got = r[-300:] if isinstance(r, str) else r["error"]
        print("outcome:", got, "- expected:", rep.get("expected"))
        return got == rep.get("expected")
    if "eq" not in c or "solver" not in c:
        print("cannot be replayed: not a case of the solver legs")
        return False
    r = run_one("harness.c13", "worker", ("case", c), env=exec_env(c))
    if isinstance(r, str) and not _raised_in_repo(r):
        print("the replay itself failed (outside the code under test):\n" + r[-1500:])
        return False
    fails = case_failures(r)
    recorded = (rep.get("key") or {}).get("symptom")
    for m in fails:
        print("monitor FAILS:", m["symptom"], "observed", str(m["observed"])[:600], "expected", str(m["expected"])[:300])
    if not fails:
        print("all monitors hold (", r["n_monitors"], "evaluated, execution mode", r.get("exec"), ")")
        return True
    if recorded and recorded not in [m["symptom"] for m in fails]:
        print(f"note: the recorded symptom ({recorded}) no longer fails, but the property still fails on the recorded "
              "input with the symptoms above")
    return False
