"""C09 - interrupt schedules are strictly increasing and stay on their lattice.

Correspondence: real `pde.trackers.interrupts` classes vs `PdeVerif.Interrupts` (Lean) on
adaptive adversarial query sequences; exact (Rat) for dyadic parameters, bit-exact (Float)
for decimal ones.  Monitor: the property statement itself on the real answers."""
import math

import numpy as np

from harness.common.num import q, qs, fbits, unfbits, unq

PID = "C09"
LEVEL = "proof"
REQUIRED_THEOREMS = [
    "constant_schedule", "runConst_spec", "constNext_minimal", "runLog_spec", "runLog_increasing",
    "runLog_period", "fixed_schedule", "remNext_first_not_passed", "fixed_exhausted_forever",
    "runGeom_spec", "runGeom_ge_query", "geomNext_spec", "geomSearch_terminates", "geom_tmin_equiv",
]
RULE = ("schedules of the four deterministic interrupt classes with seed-derived parameters "
        "(dyadic: compared exactly with the Rat model; decimal: compared bit-exactly with the Float "
        "model) queried with adaptive adversarial non-decreasing sequences (stay, tiny step, exactly "
        "on / one ulp before / one ulp after the previous answer, far beyond); a case is distinct by "
        "(kind, parameters, query list) and non-trivial if it has >= 2 queries and at least one "
        "catch-up, skip, tie or exhaustion branch was taken")
ASSUMPTIONS = [
    "float log/ceil/pow of GeometricInterrupts are external (libm); compared with the exact model up to 1e-9, "
    "a differing exponent is tolerated only within 1e-9 of a lattice point and only if the monitor holds",
    "RealtimeInterrupts is excluded by the property (not deterministic)",
]
TRUSTED_EXTRA = ["IEEE double arithmetic of Lean's Float equals CPython's float for + - * / floor"]


# ------------------------------------------------------------------------------------------
def make(kind, p, via_parse=False, use_copy=False):
    from pde.trackers import interrupts as I

    if kind == "constant":
        if via_parse and p.get("t_start") is None:
            obj = I.parse_interrupt(p["dt"])
        else:
            obj = I.ConstantInterrupts(p["dt"], t_start=p.get("t_start"))
    elif kind == "logarithmic":
        obj = I.LogarithmicInterrupts(p["dt_initial"], p["factor"], t_start=p.get("t_start"))
    elif kind == "fixed":
        obj = I.parse_interrupt(list(p["interrupts"])) if via_parse else I.FixedInterrupts(p["interrupts"])
    elif kind == "geometric":
        if via_parse:
            obj = I.parse_interrupt(f"geometric({p['scale']!r}, {p['factor']!r})")
        else:
            obj = I.GeometricInterrupts(p["scale"], p["factor"])
    else:
        raise ValueError(kind)
    if use_copy:
        obj = obj.copy()
    return obj


def dyadic(rng, lo=1, hi=64, emax=6):
    return rng.randint(lo, hi) / 2 ** rng.randint(0, emax)


def decimal(rng):
    return rng.choice([0.1, 0.3, 0.7, 1e-3, 0.05, 2.5, 1.1, 0.01, 3.3, 1 / 3, 0.6, 1e-2 * rng.randint(1, 99)])


def gen_params(rng, kind, mode):
    num = dyadic if mode == "Q" else decimal
    if kind == "constant":
        p = {"dt": num(rng)}
        p["t_start"] = rng.choice([None, None, num(rng) * rng.choice([0.5, 1, 4]), -num(rng)])
    elif kind == "logarithmic":
        f = rng.choice([1.0, 1.5, 2.0, 1.25, 3.0]) if mode == "Q" else rng.choice([1.0, 1.1, 1.3, 2.0, 1.01, 1.7])
        p = {"dt_initial": num(rng), "factor": f}
        p["t_start"] = rng.choice([None, None, num(rng)])
    elif kind == "fixed":
        n = rng.choice([0, 1, 1, 2, 3, 5, 8, 12])
        vals, cur = [], (num(rng) if rng.random() < 0.7 else -num(rng))
        for _ in range(n):
            vals.append(cur)
            cur = cur + num(rng)
        p = {"interrupts": vals}
    else:
        f = rng.choice([2.0, 1.5, 4.0, 1.25, 3.0, 10.0]) if mode == "Q" else rng.choice([1.1, 2.0, 10.0, 1.3, 5.0, 1.05])
        p = {"scale": num(rng), "factor": f}
    return p


def next_query(rng, t, last_answer, scale_hint, hist, later_entries=()):
    """adaptive adversary: a query >= t"""
    if later_entries and rng.random() < 0.25:
        # fixed schedules: jump over some entries and land exactly on / one ulp around a later entry
        e = rng.choice(list(later_entries))
        hist("query", "on-later-entry")
        return max(t, rng.choice([e, e, float(np.nextafter(e, np.inf)), float(np.nextafter(e, -np.inf))]))
    r = rng.random()
    a = last_answer
    if a is None or math.isinf(a) or a < t:
        a = t
    if r < 0.15:
        hist("query", "stay")
        return t
    if r < 0.35:
        hist("query", "small-step")
        return t + scale_hint * rng.choice([1 / 8, 1 / 4, 1 / 2, 1 / 16])
    if r < 0.55:
        hist("query", "on-answer")
        return a
    if r < 0.65:
        hist("query", "ulp-before-answer")
        return max(t, float(np.nextafter(a, -np.inf)))
    if r < 0.75:
        hist("query", "ulp-after-answer")
        return float(np.nextafter(a, np.inf))
    if r < 0.9:
        hist("query", "few-periods")
        return a + scale_hint * rng.choice([1, 2, 3, 5, 7.5, 2.25])
    hist("query", "far-beyond")
    return a + scale_hint * rng.choice([100, 1000, 12345.5, 1e5])


def real_run(kind, p, t0, n_queries, rng, hist, via_parse=False, use_copy=False, queries=None):
    """run the real class; returns (queries, answers) with answers[0] = initialize(t0)"""
    obj = make(kind, p, via_parse, use_copy)
    a0 = float(obj.initialize(t0))
    answers = [a0]
    qsx = []
    t = t0
    scale_hint = {"constant": p.get("dt"), "logarithmic": p.get("dt_initial"),
                  "fixed": (sum(abs(x) for x in p.get("interrupts", [])) / max(1, len(p.get("interrupts", []))) or 1.0) if kind == "fixed" else 1.0, "geometric": p.get("scale")}[kind]
    if queries is None:
        for _ in range(n_queries):
            later = [x for x in p.get("interrupts", []) if x >= t] if kind == "fixed" else ()
            tq = next_query(rng, t, answers[-1], scale_hint, hist, later)
            if kind == "geometric" and tq > 0 and math.log(tq / p["scale"]) > 400 * math.log(p["factor"]):
                tq = t
            if kind == "geometric" and tq > 1e15:
                tq = t
            if kind == "logarithmic" and len(qsx) > 60:
                break
            qsx.append(tq)
            answers.append(float(obj.next(tq)))
            t = tq
    else:
        for tq in queries:
            qsx.append(tq)
            answers.append(float(obj.next(tq)))
    return qsx, answers


# ------------------------------------------------------------------------------------------
def monitor(kind, p, t0, queries, answers):
    """the property statement on the real answers; returns None or a description"""
    ts = [t0] + list(queries)
    prev = None
    exhausted = False
    tol = lambda x: 1e-12 * max(1.0, abs(x))
    for i, (t, a) in enumerate(zip(ts, answers)):
        if math.isnan(a):
            return f"answer {i} is nan"
        if exhausted and not math.isinf(a):
            return f"answer {i}={a} after the schedule was exhausted"
        if math.isinf(a):
            if kind != "fixed":
                return f"answer {i} is infinite for a {kind} schedule"
            exhausted = True
            continue
        if a < t - tol(t):
            return f"answer {i}={a!r} earlier than query {t!r}"
        if prev is not None and not a > prev:
            return f"answer {i}={a!r} not later than previous answer {prev!r}"
        prev = a
    fin = [a for a in answers if not math.isinf(a)]
    if kind == "constant":
        base = answers[0]
        exp0 = t0 if p.get("t_start") is None else max(t0, p["t_start"])
        if base != exp0:
            return f"first action time {base!r} != {exp0!r}"
        for i, a in enumerate(fin):
            k = (a - base) / p["dt"]
            if abs(k - round(k)) > 1e-7 * max(1.0, abs(k)):
                return f"answer {i}={a!r} not on lattice {base!r}+k*{p['dt']!r} (k={k!r})"
    if kind == "geometric":
        for i, a in enumerate(fin):
            k = math.log(a / p["scale"]) / math.log(p["factor"])
            if abs(k - round(k)) > 1e-7 * max(1.0, abs(k)) or round(k) < 0:
                return f"answer {i}={a!r} not on lattice {p['scale']!r}*{p['factor']!r}^k (k={k!r})"
    if kind == "logarithmic":
        for j in range(1, len(fin)):
            nominal = p["dt_initial"] * p["factor"] ** (j - 1)
            gap = fin[j] - fin[j - 1]
            if gap < nominal * (1 - 1e-9) - 1e-12 * abs(fin[j]):
                return f"gap {j}={gap!r} smaller than nominal {nominal!r}"
    if kind == "fixed":
        lst = [float(x) for x in p["interrupts"]]
        pos = 0  # entries consumed
        for i, (t, a) in enumerate(zip(ts, answers)):
            # first not-yet-passed element among the remaining ones
            while pos < len(lst) and lst[pos] < t:
                pos += 1
            exp = lst[pos] if pos < len(lst) else math.inf
            pos += 1
            if a != exp:
                return f"answer {i}={a!r} is not the first not-yet-passed entry {exp!r} for query {t!r}"
    return None


def branch_flags(kind, p, t0, queries, answers):
    """which interesting branches the history exercised (for non-triviality and histograms)"""
    flags = set()
    ts = [t0] + list(queries)
    for i in range(1, len(answers)):
        t, a, pa = ts[i], answers[i], answers[i - 1]
        if math.isinf(a):
            flags.add("exhausted")
        elif a == t:
            flags.add("tie-on-query")
        if kind == "constant" and not math.isinf(a) and a - pa > 1.5 * p["dt"]:
            flags.add("catch-up")
        if kind == "logarithmic" and i >= 1 and not math.isinf(a):
            nominal = p["dt_initial"] * p["factor"] ** (i - 1)
            if a - pa > 1.0001 * nominal:
                flags.add("catch-up")
        if kind == "fixed" and not math.isinf(a) and not math.isinf(pa):
            lst = list(p["interrupts"])
            if a in lst and pa in lst and lst.index(a) - lst.index(pa) > 1:
                flags.add("skip")
        if kind == "geometric" and a > pa * p["factor"] * 1.0001:
            flags.add("skip")
    return flags


def model_request(kind, p, t0, queries, mode):
    enc = q if mode == "Q" else fbits
    a = {"mode": mode, "kind": kind, "t0": enc(t0), "queries": [enc(x) for x in queries]}
    for k, v in p.items():
        if k == "interrupts":
            a[k] = [enc(x) for x in v]
        elif v is None:
            a[k] = None
        else:
            a[k] = enc(v)
    if kind == "geometric":
        a["fuel"] = 6000
    return a


def compare(ctx, kind, p, t0, queries, answers, resp_q, resp_f, case):
    """correspondence: model answers vs real answers.

    constant/logarithmic/fixed: the Float instantiation of the model must reproduce the real
    answers bit for bit; the Rat instantiation (the one the theorems are literally closest to)
    is compared as well and the number of histories where exact and float arithmetic part ways
    (a ceil tie) is reported.  geometric: exact model with tie tolerance (see ASSUMPTIONS)."""
    if kind == "geometric":
        status, val = resp_q
        if status != "ok":
            ctx.disagree("correspondence", case, f"model error: {val}", answers)
            return
        ts = [t0] + list(queries)
        for i, (m, a) in enumerate(zip(val, answers)):
            if m == "fuel":
                ctx.disagree("correspondence", case, "model fuel exhausted", a)
                return
            mv, mk = float(unq(m[0])), m[1]
            if abs(a - mv) <= 1e-9 * abs(mv):
                continue
            # tie analysis: is the query within 1e-7 (in exponent) of a lattice point?
            k_real = math.log(a / p["scale"]) / math.log(p["factor"])
            t = ts[i]
            near = False
            if t > 0:
                kt = math.log(t / p["scale"]) / math.log(p["factor"])
                near = abs(kt - round(kt)) < 1e-7
            if near and abs(k_real - round(k_real)) < 1e-7 and abs(round(k_real) - mk) == 1:
                ctx.hist("float-tie", "geometric-exponent+-1")
                return  # the two schedules are now one exponent apart: stop comparing
            ctx.disagree("correspondence", case, {"i": i, "model": [mv, mk]}, {"i": i, "impl": a})
            return
        if len(val) != len(answers):
            ctx.disagree("correspondence", case, {"len": len(val)}, {"len": len(answers)})
        return
    status, val = resp_f
    if status != "ok":
        ctx.disagree("correspondence", case, f"model error: {val}", answers)
        return
    mvals = [math.inf if s == "inf" else unfbits(s) for s in val]
    same = len(val) == len(answers) and all(
        (s == "inf" and math.isinf(a)) or (s != "inf" and s == fbits(a)) for s, a in zip(val, answers))
    if not same:
        i = next((i for i, (m, a) in enumerate(zip(mvals, answers)) if m != a), None)
        ctx.disagree("correspondence", case, {"first_diff": i, "model_float": mvals}, {"impl": answers})
        return
    status, val = resp_q
    if status != "ok":
        ctx.disagree("correspondence", case, f"model error: {val}", answers)
        return
    qvals = [math.inf if s == "inf" else unq(s) for s in val]
    if all((math.isinf(a) and m == math.inf) or (not math.isinf(a) and m != math.inf and m == unq(q(a)))
           for m, a in zip(qvals, answers)):
        ctx.hist("exact-vs-float", "identical")
    elif all((math.isinf(a) and m == math.inf) or
             (not math.isinf(a) and m != math.inf and abs(float(m) - a) <= 1e-9 * max(1.0, abs(a)))
             for m, a in zip(qvals, answers)):
        ctx.hist("exact-vs-float", "equal-to-1e-9")
    else:
        ctx.hist("exact-vs-float", "parted-at-a-rounding-tie")


def run(ctx):
    from harness.common.lean import LeanBatch
    rng = ctx.rng
    n_hist = ctx.budget(1500, 40000)
    batch = LeanBatch(ctx.workdir)
    pending = []
    kinds = ["constant", "logarithmic", "fixed", "geometric"]
    for i in range(n_hist):
        kind = kinds[i % 4]
        pmode = rng.choice(["Q", "F"])
        p = gen_params(rng, kind, pmode)
        t0 = rng.choice([0.0, 0.0, dyadic(rng) if pmode == "Q" else decimal(rng)])
        if kind == "geometric" and rng.random() < 0.1:
            t0 = -t0
        via_parse = rng.random() < 0.15
        use_copy = rng.random() < 0.15
        nq = rng.choice([1, 2, 4, 8, 16, 30])
        queries, answers = real_run(kind, p, t0, nq, rng, ctx.hist, via_parse, use_copy)
        case = {"kind": kind, "params": p, "t0": t0, "queries": queries, "numbers": pmode,
                "via_parse": via_parse, "use_copy": use_copy}
        flags = branch_flags(kind, p, t0, queries, answers)
        for f in flags:
            ctx.hist("branch", f"{kind}:{f}")
        ctx.hist("kind", f"{kind}/{'dyadic' if pmode == 'Q' else 'decimal'}")
        ctx.hist("n_queries", len(queries))
        ctx.count(case, nontrivial=(len(queries) >= 2 and bool(flags)), leg=f"{kind}")
        # property monitor on the real answers
        ctx.monitor_evals += 1
        bad = monitor(kind, p, t0, queries, answers)
        if bad:
            ctx.monitor_fail("monitor", case, {"answers": answers, "problem": bad},
                             "answers >= query, strictly increasing, on the defining set", f"{kind}: schedule property",
                             key={"kind": kind})
        iq = batch.add("c09.run", model_request(kind, p, t0, queries, "Q"))
        jf = None if kind == "geometric" else batch.add("c09.run", model_request(kind, p, t0, queries, "F"))
        pending.append((iq, jf, kind, p, t0, queries, answers, case))
    resps = batch.run()
    for iq, jf, kind, p, t0, queries, answers, case in pending:
        ctx.impl_traces += 1
        compare(ctx, kind, p, t0, queries, answers, resps[iq], None if jf is None else resps[jf], case)
    if ctx.disagreements:
        ctx.disagreements.sort(key=lambda d: len(d["case"]["queries"]))


def search(ctx, broken):
    """failing-input search after a broken correspondence: run the monitor on the real code
    over a larger fresh sample of the same generator and on the disagreeing cases"""
    found = []
    rng = ctx.sub_rng("search")
    nohist = lambda *a, **k: None
    for d in broken:
        c = d.get("case") if isinstance(d, dict) else None
        if not c or "kind" not in c:
            continue
        _, answers = real_run(c["kind"], c["params"], c["t0"], 0, rng, nohist,
                              c.get("via_parse", False), c.get("use_copy", False), queries=c["queries"])
        bad = monitor(c["kind"], c["params"], c["t0"], c["queries"], answers)
        if bad:
            found.append({"leg": "monitor", "case": c, "observed": {"answers": answers, "problem": bad},
                          "expected": "schedule property", "what": f"{c['kind']}: schedule property",
                          "key": {"kind": c["kind"]}})
            return found
    for i in range(20000):
        kind = ["constant", "logarithmic", "fixed", "geometric"][i % 4]
        pmode = rng.choice(["Q", "F"])
        p = gen_params(rng, kind, pmode)
        t0 = rng.choice([0.0, dyadic(rng)])
        queries, answers = real_run(kind, p, t0, rng.choice([2, 5, 10, 30]), rng, nohist)
        bad = monitor(kind, p, t0, queries, answers)
        if bad:
            case = {"kind": kind, "params": p, "t0": t0, "queries": queries}
            found.append({"leg": "monitor", "case": case, "observed": {"answers": answers, "problem": bad},
                          "expected": "schedule property", "what": f"{kind}: schedule property",
                          "key": {"kind": kind}})
            return found
    return found


def replay(ctx, rep):
    c = rep["case"]
    _, answers = real_run(c["kind"], c["params"], c["t0"], 0, ctx.rng, lambda *a, **k: None,
                          c.get("via_parse", False), c.get("use_copy", False), queries=c["queries"])
    bad = monitor(c["kind"], c["params"], c["t0"], c["queries"], answers)
    print("answers:", answers)
    print("monitor:", bad or "holds")
    return bad is None
