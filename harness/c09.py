"""C09 - interrupt schedules are strictly increasing and stay on their lattice.

Correspondence: real `pde.trackers.interrupts` classes vs `PdeVerif.Interrupts` (Lean) on
adaptive adversarial query sequences; exact (Rat) for dyadic parameters, bit-exact (Float)
for decimal ones.  Monitor: the property statement itself on the real answers."""
import math
from fractions import Fraction

import numpy as np

from harness.common.num import q, qs, fbits, unfbits, unq

PID = "C09"
LEVEL = "proof"
EXTRA_PROP_FILES = ["C09Round"]  # "up to round-off": the schedules with every operation rounded
REQUIRED_THEOREMS = [
    "constant_schedule", "runConst_spec", "constNext_minimal", "runLog_spec", "runLog_gaps", "logarithmic_schedule",
    "runLog_increasing", "runLog_period", "fixed_schedule", "remNext_first_not_passed", "fixed_exhausted_forever",
    "runGeom_spec", "runGeom_ge_query", "geomNext_spec", "geomSearch_terminates", "geom_tmin_equiv",
    "geomCode_step", "runGeomCode_spec", "geometric_code_schedule", "geomCode_exact_is_least", "geomCode_no_skip",
    "powInt_eq_zpow",
]
RULE = ("schedules of the four deterministic interrupt classes with seed-derived parameters "
        "(dyadic: compared exactly with the Rat model; decimal: compared bit-exactly with the Float "
        "model) queried with adaptive adversarial non-decreasing sequences (stay, tiny step, exactly "
        "on / one ulp before / one ulp after the previous answer, far beyond); a case is distinct by "
        "(kind, parameters, query list) and non-trivial if it has >= 2 queries and at least one "
        "catch-up, skip, tie or exhaustion branch was taken")
ASSUMPTIONS = [
    "float log and pow of GeometricInterrupts are external (libm / numpy): the value ceil(log(t_min/scale)/log(factor)) "
    "enters the model of the code's computation (runGeomCode) as an oracle value recovered from the real answer; the "
    "driver checks for every call that it is a ceiling of the logarithm of the model's own t_min up to a relative "
    "tolerance 1e-9 (CeilLogOK), which is the hypothesis of the theorems; the specification model (least lattice "
    "point) is compared as well, up to 1e-9, until the first +-1 exponent tie",
    "RealtimeInterrupts is excluded by the property (not deterministic)",
]
GEOM_EPS = 1e-9  # relative tolerance of the logarithm oracle (the theorems need (1+eps) < sqrt(factor))
TRUSTED_EXTRA = ["IEEE double arithmetic of Lean's Float equals CPython's float for + - * / floor"]


# ------------------------------------------------------------------------------------------
def make(kind, p, via_parse=False, use_copy=False):
    from pde.trackers import interrupts as I

    if kind == "constant":
        if via_parse and p.get("t_start") is None:
            obj = I.parse_interrupt(p["dt"])
        else:
            obj = I.ConstantInterrupts(p["dt"], t_start=p.get("t_start"))
    elif kind == "logarithmic":
        obj = I.LogarithmicInterrupts(p["dt_initial"], p["factor"], t_start=p.get("t_start"))
    elif kind == "fixed":
        obj = I.parse_interrupt(list(p["interrupts"])) if via_parse else I.FixedInterrupts(p["interrupts"])
    elif kind == "geometric":
        if via_parse:
            obj = I.parse_interrupt(f"geometric({p['scale']!r}, {p['factor']!r})")
        else:
            obj = I.GeometricInterrupts(p["scale"], p["factor"])
    else:
        raise ValueError(kind)
    if use_copy:
        obj = obj.copy()
    return obj


def dyadic(rng, lo=1, hi=64, emax=6):
    return rng.randint(lo, hi) / 2 ** rng.randint(0, emax)


def decimal(rng):
    return rng.choice([0.1, 0.3, 0.7, 1e-3, 0.05, 2.5, 1.1, 0.01, 3.3, 1 / 3, 0.6, 1e-2 * rng.randint(1, 99)])


def gen_params(rng, kind, mode):
    num = dyadic if mode == "Q" else decimal
    if kind == "constant":
        p = {"dt": num(rng)}
        p["t_start"] = rng.choice([None, None, num(rng) * rng.choice([0.5, 1, 4]), -num(rng), 0, 0.0])
    elif kind == "logarithmic":
        f = rng.choice([1.0, 1.5, 2.0, 1.25, 3.0]) if mode == "Q" else rng.choice([1.0, 1.1, 1.3, 2.0, 1.01, 1.7])
        p = {"dt_initial": num(rng), "factor": f}
        p["t_start"] = rng.choice([None, None, num(rng), 0, 0.0, -num(rng)])
    elif kind == "fixed":
        n = rng.choice([0, 1, 1, 2, 3, 5, 8, 12])
        vals, cur = [], (num(rng) if rng.random() < 0.7 else -num(rng))
        for _ in range(n):
            vals.append(cur)
            cur = cur + num(rng)
        p = {"interrupts": vals}
    else:
        f = rng.choice([2.0, 1.5, 4.0, 1.25, 3.0, 10.0]) if mode == "Q" else rng.choice([1.1, 2.0, 10.0, 1.3, 5.0, 1.05])
        p = {"scale": num(rng), "factor": f}
    return p


def next_query(rng, t, last_answer, scale_hint, hist, later_entries=()):
    """adaptive adversary: a query >= t"""
    if later_entries and rng.random() < 0.25:
        # fixed schedules: jump over some entries and land exactly on / one ulp around a later entry
        e = rng.choice(list(later_entries))
        hist("query", "on-later-entry")
        return max(t, rng.choice([e, e, float(np.nextafter(e, np.inf)), float(np.nextafter(e, -np.inf))]))
    r = rng.random()
    a = last_answer
    if a is None or math.isinf(a) or a < t:
        a = t
    if r < 0.15:
        hist("query", "stay")
        return t
    if r < 0.35:
        hist("query", "small-step")
        return t + scale_hint * rng.choice([1 / 8, 1 / 4, 1 / 2, 1 / 16])
    if r < 0.55:
        hist("query", "on-answer")
        return a
    if r < 0.65:
        hist("query", "ulp-before-answer")
        return max(t, float(np.nextafter(a, -np.inf)))
    if r < 0.75:
        hist("query", "ulp-after-answer")
        return float(np.nextafter(a, np.inf))
    if r < 0.9:
        hist("query", "few-periods")
        return a + scale_hint * rng.choice([1, 2, 3, 5, 7.5, 2.25])
    hist("query", "far-beyond")
    return a + scale_hint * rng.choice([100, 1000, 12345.5, 1e5])


class RealRaised(Exception):
    """the real class raised on a valid schedule: (queries so far, answers so far, text)"""


def real_run(kind, p, t0, n_queries, rng, hist, via_parse=False, use_copy=False, queries=None, warmup=None):
    """run the real class; returns (queries, answers) with answers[0] = initialize(t0).
    `warmup` = (t0w, [queries]): an EARLIER run on the same object (a tracker reused for a second simulation);
    `initialize` starts a schedule afresh, so the recorded run must not depend on it"""
    qsx, answers = [], []
    try:
        obj = make(kind, p, via_parse, use_copy)
        real_run.warm_last = None
        if warmup is not None:
            wa = obj.initialize(warmup[0])
            for tq in warmup[1]:
                wa = obj.next(tq)
            real_run.warm_last = float(wa)
        a0 = float(obj.initialize(t0))
        answers.append(a0)
        t = t0
        scale_hint = {"constant": p.get("dt"), "logarithmic": p.get("dt_initial"),
                      "fixed": (sum(abs(x) for x in p.get("interrupts", [])) / max(1, len(p.get("interrupts", []))) or 1.0) if kind == "fixed" else 1.0, "geometric": p.get("scale")}[kind]
        if queries is None:
            for _ in range(n_queries):
                later = [x for x in p.get("interrupts", []) if x >= t] if kind == "fixed" else ()
                tq = next_query(rng, t, answers[-1], scale_hint, hist, later)
                if kind == "geometric" and tq > 0 and math.log(tq / p["scale"]) > 400 * math.log(p["factor"]):
                    tq = t
                if kind == "geometric" and tq > 1e15:
                    tq = t
                if kind == "logarithmic" and len(qsx) > 60:
                    break
                qsx.append(tq)
                answers.append(float(obj.next(tq)))
                t = tq
        else:
            for tq in queries:
                qsx.append(tq)
                answers.append(float(obj.next(tq)))
    except Exception as exc:  # a valid schedule must answer: reported as a failure of the property, not of the check
        raise RealRaised(qsx, answers, f"{type(exc).__name__}: {exc}"[:300])
    return qsx, answers


# ------------------------------------------------------------------------------------------
def monitor(kind, p, t0, queries, answers, exact=False):
    """the property statement on the real answers; returns None or (symptom, description).  `exact`: dyadic
    parameters - the float arithmetic of the constant schedule is exact, lattice membership is judged exactly"""
    from fractions import Fraction
    ts = [t0] + list(queries)
    prev = None
    exhausted = False
    tol = lambda x: 1e-12 * max(1.0, abs(x))
    for i, (t, a) in enumerate(zip(ts, answers)):
        if math.isnan(a):
            return "nan", f"answer {i} is nan"
        if exhausted and not math.isinf(a):
            return "finite-after-exhausted", f"answer {i}={a} after the schedule was exhausted"
        if math.isinf(a):
            if kind != "fixed" or a < 0:
                return "infinite", f"answer {i} is {a} for a {kind} schedule"
            exhausted = True
            continue
        if not (a >= t - tol(t)):
            return "earlier-than-query", f"answer {i}={a!r} earlier than query {t!r}"
        if prev is not None and not a > prev:
            return "not-strictly-later", f"answer {i}={a!r} not later than previous answer {prev!r}"
        prev = a
    fin = [a for a in answers if not math.isinf(a)]
    if kind == "constant":
        base = answers[0]
        exp0 = t0 if p.get("t_start") is None else max(t0, p["t_start"])
        if base != exp0:
            return "first-action-time", f"first action time {base!r} != {exp0!r}"
        for i, a in enumerate(fin):
            if exact:
                k = (Fraction(a) - Fraction(base)) / Fraction(p["dt"])
                if k.denominator != 1:
                    return "off-lattice", f"answer {i}={a!r} not on lattice {base!r}+k*{p['dt']!r} (k={float(k)!r}, exactly)"
                continue
            k = (a - base) / p["dt"]
            if not (abs(k - round(k)) <= 1e-9 * max(1.0, abs(k))):
                return "off-lattice", f"answer {i}={a!r} not on lattice {base!r}+k*{p['dt']!r} (k={k!r})"
    if kind == "geometric":
        for i, a in enumerate(fin):
            if not a > 0:
                return "off-lattice", f"answer {i}={a!r} is not positive"
            k = math.log(a / p["scale"]) / math.log(p["factor"])
            # the answer is scale*factor**k computed by one pow and one product: a few ulp, i.e. |dk| ~ 1e-15/log(f)
            if not (abs(k - round(k)) <= 1e-12 * max(1.0, abs(k)) / min(1.0, math.log(p["factor"]))) or round(k) < 0:
                return "off-lattice", f"answer {i}={a!r} not on lattice {p['scale']!r}*{p['factor']!r}^k (k={k!r})"
    if kind == "logarithmic":
        for j in range(1, len(fin)):
            nominal = p["dt_initial"] * p["factor"] ** (j - 1)
            gap = fin[j] - fin[j - 1]
            if not (gap >= nominal * (1 - 1e-9) - 1e-12 * abs(fin[j])):
                return "gap-too-small", f"gap {j}={gap!r} smaller than nominal {nominal!r}"
    if kind == "fixed":
        lst = [float(x) for x in p["interrupts"]]
        pos = 0  # entries consumed
        for i, (t, a) in enumerate(zip(ts, answers)):
            # first not-yet-passed element among the remaining ones
            while pos < len(lst) and lst[pos] < t:
                pos += 1
            exp = lst[pos] if pos < len(lst) else math.inf
            pos += 1
            if a != exp:
                return "not-first-not-yet-passed", f"answer {i}={a!r} is not the first not-yet-passed entry {exp!r} for query {t!r}"
    return None


ABSORPTION = "dt below the float spacing at t (t + dt == t)"


def failure_key(kind, p, answers, symptom, desc):
    """key of a monitor failure: schedule class + symptom; the corner `ABSORPTION` is named only if it is
    recognised on the failing answers (the period no longer changes the previous answer when added to it)"""
    key = {"kind": kind, "symptom": symptom}
    if kind in ("constant", "logarithmic"):
        key["call_site"] = "ConstantInterrupts.next"
    if symptom == "not-strictly-later" and kind in ("constant", "logarithmic"):
        fin = [a for a in answers if math.isfinite(a)]
        for i in range(1, len(fin)):
            if not fin[i] > fin[i - 1]:
                d = p["dt"] if kind == "constant" else p["dt_initial"] * p["factor"] ** (i - 1)
                if fin[i] == fin[i - 1] and fin[i - 1] + d == fin[i - 1]:
                    key["corner"] = ABSORPTION
                break
    return key


def judge(case, answers):
    """monitor failure dict for a case, or None"""
    bad = monitor(case["kind"], case["params"], case["t0"], case["queries"], answers, exact=case.get("numbers") == "Q")
    if bad is None:
        return None
    symptom, desc = bad
    return {"leg": "monitor", "case": case, "observed": {"answers": answers, "problem": desc},
            "expected": "answers >= query, strictly increasing, on the defining set",
            "what": f"{case['kind']}: {symptom}",
            "key": failure_key(case["kind"], case["params"], answers, symptom, desc)}


def raised_failure(case, exc):
    qsx, answers, text = exc.args
    return {"leg": "monitor", "case": dict(case, queries=list(qsx)), "observed": {"answers": answers, "raised": text},
            "expected": "an answer", "what": f"{case['kind']}: raised",
            "key": {"kind": case["kind"], "symptom": "raised"}}


def branch_flags(kind, p, t0, queries, answers):
    """which interesting branches the history exercised (for non-triviality and histograms)"""
    flags = set()
    ts = [t0] + list(queries)
    for i in range(1, len(answers)):
        t, a, pa = ts[i], answers[i], answers[i - 1]
        if math.isinf(a):
            flags.add("exhausted")
        elif a == t:
            flags.add("tie-on-query")
        if kind == "constant" and not math.isinf(a) and a - pa > 1.5 * p["dt"]:
            flags.add("catch-up")
        if kind == "logarithmic" and i >= 1 and not math.isinf(a):
            nominal = p["dt_initial"] * p["factor"] ** (i - 1)
            if a - pa > 1.0001 * nominal:
                flags.add("catch-up")
        if kind == "fixed" and not math.isinf(a) and not math.isinf(pa):
            lst = list(p["interrupts"])
            if a in lst and pa in lst and lst.index(a) - lst.index(pa) > 1:
                flags.add("skip")
        if kind == "geometric" and a > pa * p["factor"] * 1.0001:
            flags.add("skip")
    return flags


def model_request(kind, p, t0, queries, mode, warmup=None, warm_last=None):
    enc = q if mode == "Q" else fbits
    a = {"mode": mode, "kind": kind, "t0": enc(t0), "queries": [enc(x) for x in queries]}
    if warmup is not None:  # an earlier run on the same object (what survives `initialize` is modelled as the code has it)
        a["warmup"] = {"t0": enc(warmup[0]), "queries": [enc(x) for x in warmup[1]]}
        if kind == "geometric" and warm_last is not None and math.isfinite(warm_last) and warm_last > 0:
            # the state the real object is in after the earlier run (its last answer and exponent): the float logarithm
            # may round an exact lattice hit of the warm-up either way, which the recorded run must not inherit
            a["warm_last"] = [q(warm_last), max(0, round(math.log(warm_last / p["scale"]) / math.log(p["factor"])))]
    for k, v in p.items():
        if k == "interrupts":
            a[k] = [enc(x) for x in v]
        elif v is None:
            a[k] = None
        else:
            a[k] = enc(v)
    if kind == "geometric":
        a["fuel"] = 6000
    return a


def geomcode_request(p, t0, queries, answers):
    """request for `c09.geomcode` (the code's own computation with the logarithm as an oracle), or None if no
    oracle value can be recovered from the real answers (the monitor reports those)"""
    exps = []
    for a in answers:
        if not (math.isfinite(a) and a > 0):
            return None
        exps.append(round(math.log(a / p["scale"]) / math.log(p["factor"])))
    return {"scale": q(p["scale"]), "factor": q(p["factor"]), "sq": q(p["factor"] ** 0.5), "sq_inv": q(p["factor"] ** -0.5),
            "eps": q(Fraction(1, 10 ** 9)), "t0": q(t0), "queries": [q(x) for x in queries], "exps": exps}


def compare_geomcode(ctx, p, answers, resp, case):
    """the real answers against the model of the code's computation: every answer is the lattice point of its
    oracle value (to 1e-12: one float pow and one product) and every oracle value is a ceiling of the logarithm
    of the *model's* t_min within the tolerance (both halves of CeilLogOK) - over the whole history"""
    status, val = resp
    if status != "ok":
        ctx.disagree("correspondence", case, f"model error: {val}", answers, "geometric, code model")
        return
    if not val["consts_ok"]:
        ctx.disagree("correspondence", case, "GeomConsts", {"factor": p["factor"]},
                     "geometric, code model: factor**0.5 / factor**-0.5 do not satisfy the hypotheses of the theorems")
        return
    for i, ((tmin, ans, up, lo), a) in enumerate(zip(val["calls"], answers)):
        m = float(unq(ans))
        if not (abs(a - m) <= 1e-12 * abs(m)):
            ctx.disagree("correspondence", case, {"i": i, "model": m}, {"i": i, "impl": a},
                         "geometric, code model: answer is not scale*factor**e")
            return
        if not (up and lo):
            ctx.disagree("correspondence", case, {"i": i, "t_min": float(unq(tmin)), "upper": up, "lower": lo},
                         {"i": i, "impl": a},
                         "geometric, code model: the exponent is not ceil(log(t_min/scale)/log(factor)) within 1e-9")
            return
    ctx.hist("geometric code model", "whole history tied")


def compare(ctx, kind, p, t0, queries, answers, resp_q, resp_f, case):
    """correspondence: model answers vs real answers.

    constant/logarithmic/fixed: the Float instantiation of the model must reproduce the real
    answers bit for bit; the Rat instantiation (the one the theorems are literally closest to)
    is compared as well and the number of histories where exact and float arithmetic part ways
    (a ceil tie) is reported.  geometric: exact model with tie tolerance (see ASSUMPTIONS)."""
    if kind == "geometric":
        status, val = resp_q
        if status != "ok":
            ctx.disagree("correspondence", case, f"model error: {val}", answers)
            return
        ts = [t0] + list(queries)
        for i, (m, a) in enumerate(zip(val, answers)):
            if m == "fuel":
                ctx.disagree("correspondence", case, "model fuel exhausted", a)
                return
            mv, mk = float(unq(m[0])), m[1]
            if abs(a - mv) <= 1e-9 * abs(mv):
                continue
            # tie analysis: is the query within 1e-7 (in exponent) of a lattice point?
            k_real = math.log(a / p["scale"]) / math.log(p["factor"])
            t = ts[i]
            near = False
            if t > 0:
                kt = math.log(t / p["scale"]) / math.log(p["factor"])
                near = abs(kt - round(kt)) < 1e-7
            if near and abs(k_real - round(k_real)) < 1e-7 and abs(round(k_real) - mk) == 1:
                ctx.hist("float-tie", "geometric-exponent+-1")
                return  # the two schedules are now one exponent apart: stop comparing
            ctx.disagree("correspondence", case, {"i": i, "model": [mv, mk]}, {"i": i, "impl": a})
            return
        if len(val) != len(answers):
            ctx.disagree("correspondence", case, {"len": len(val)}, {"len": len(answers)})
        return
    status, val = resp_f
    if status != "ok":
        ctx.disagree("correspondence", case, f"model error: {val}", answers)
        return
    mvals = [math.inf if s == "inf" else unfbits(s) for s in val]
    same = len(val) == len(answers) and all(
        (s == "inf" and math.isinf(a)) or (s != "inf" and s == fbits(a)) for s, a in zip(val, answers))
    if not same:
        i = next((i for i, (m, a) in enumerate(zip(mvals, answers)) if m != a), None)
        ctx.disagree("correspondence", case, {"first_diff": i, "model_float": mvals}, {"impl": answers})
        return
    status, val = resp_q
    if status != "ok":
        ctx.disagree("correspondence", case, f"model error: {val}", answers)
        return
    qvals = [math.inf if s == "inf" else unq(s) for s in val]
    if all((math.isinf(a) and m == math.inf) or (not math.isinf(a) and m != math.inf and m == unq(q(a)))
           for m, a in zip(qvals, answers)):
        ctx.hist("exact-vs-float", "identical")
    elif all((math.isinf(a) and m == math.inf) or
             (not math.isinf(a) and m != math.inf and abs(float(m) - a) <= 1e-9 * max(1.0, abs(a)))
             for m, a in zip(qvals, answers)):
        ctx.hist("exact-vs-float", "equal-to-1e-9")
    else:
        ctx.hist("exact-vs-float", "parted-at-a-rounding-tie")


# deterministic probes of a corner in which the unchanged code violates "strictly later than the previous answer":
# the period is below the float spacing at t, so `_t_next += dt` changes nothing (kind, params, t0, queries)
ABSORPTION_PROBE = [
    ("constant", {"dt": 1.0, "t_start": None}, 2.0 ** 60, [2.0 ** 60, 2.0 ** 60]),
    ("constant", {"dt": 0.1, "t_start": None}, 1e17, [1e17]),
    ("logarithmic", {"dt_initial": 1.0, "factor": 2.0, "t_start": None}, 2.0 ** 60, [2.0 ** 60, 2.0 ** 60]),
]


def absorption_probe(ctx):
    for kind, p, t0, queries in ABSORPTION_PROBE:
        case = {"kind": kind, "params": p, "t0": t0, "queries": queries, "numbers": "Q", "via_parse": False,
                "use_copy": False, "probe": "absorption"}
        ctx.count(case, nontrivial=True, leg="absorption-probe")
        ctx.hist("absorption probe", f"{kind} dt={p.get('dt', p.get('dt_initial'))} t0={t0!r}")
        ctx.monitor_evals += 1
        try:
            _, answers = real_run(kind, p, t0, 0, ctx.rng, lambda *a, **k: None, queries=queries)
        except RealRaised as exc:
            mf = raised_failure(case, exc)
        else:
            mf = judge(case, answers)
        ctx.hist("absorption probe outcome", "property holds" if mf is None else mf["key"].get("corner", mf["what"]))
        if mf:
            ctx.monitor_fail(mf["leg"], mf["case"], mf["observed"], mf["expected"], mf["what"], key=mf["key"])


def run(ctx):
    from harness.common.lean import LeanBatch
    rng = ctx.rng
    n_hist = ctx.budget(1500, 40000)
    batch = LeanBatch(ctx.workdir)
    pending = []
    kinds = ["constant", "logarithmic", "fixed", "geometric"]
    for i in range(n_hist):
        kind = kinds[i % 4]
        pmode = rng.choice(["Q", "F"])
        p = gen_params(rng, kind, pmode)
        t0 = rng.choice([0.0, 0.0, dyadic(rng) if pmode == "Q" else decimal(rng)])
        if kind == "geometric" and rng.random() < 0.1:
            t0 = -t0
        if kind != "geometric" and rng.random() < 0.2:
            t0 = -(dyadic(rng) if pmode == "Q" else decimal(rng))  # a run that starts at a negative time
        via_parse = rng.random() < 0.15
        use_copy = rng.random() < 0.15
        nq = rng.choice([1, 2, 4, 8, 16, 30])
        case = {"kind": kind, "params": p, "t0": t0, "queries": [], "numbers": pmode,
                "via_parse": via_parse, "use_copy": use_copy}
        if rng.random() < 0.25:
            # the object already served an earlier run (ending before, at, or beyond the start of this one)
            tw = t0 - rng.choice([0.0, 1.0, 0.5]) if rng.random() < 0.5 else t0
            hint = (p.get("dt") or p.get("dt_initial") or p.get("scale") or 1.0)
            wq, cur = [], tw
            for _ in range(rng.choice([1, 2, 5, 12])):
                cur = cur + hint * rng.choice([0.5, 1, 2, 7.5, 100])
                if kind == "geometric" and cur > 1e12:
                    break
                wq.append(cur)
            case["warmup"] = [tw, wq]
            ctx.hist("warm-up", f"{kind}:{len(wq)} queries")
        ctx.monitor_evals += 1
        try:
            queries, answers = real_run(kind, p, t0, nq, rng, ctx.hist, via_parse, use_copy, warmup=case.get("warmup"))
        except RealRaised as exc:
            mf = raised_failure(case, exc)
            ctx.count(mf["case"], nontrivial=False, leg=f"{kind}")
            ctx.monitor_fail(mf["leg"], mf["case"], mf["observed"], mf["expected"], mf["what"], key=mf["key"])
            continue
        case["queries"] = queries
        flags = branch_flags(kind, p, t0, queries, answers)
        for f in flags:
            ctx.hist("branch", f"{kind}:{f}")
        ctx.hist("kind", f"{kind}/{'dyadic' if pmode == 'Q' else 'decimal'}")
        ctx.hist("n_queries", len(queries))
        ctx.count(case, nontrivial=(len(queries) >= 2 and bool(flags)), leg=f"{kind}")
        # property monitor on the real answers
        mf = judge(case, answers)
        if mf:
            ctx.monitor_fail(mf["leg"], mf["case"], mf["observed"], mf["expected"], mf["what"], key=mf["key"])
        iq = batch.add("c09.run", model_request(kind, p, t0, queries, "Q", case.get("warmup"), real_run.warm_last))
        jf = None if kind == "geometric" else batch.add("c09.run", model_request(kind, p, t0, queries, "F", case.get("warmup")))
        jg = None
        if kind == "geometric" and "warmup" not in case:  # (the code-model handler starts from a fresh object)
            req = geomcode_request(p, t0, queries, answers)
            if req is None:
                ctx.disagree("correspondence", case, "a positive finite answer", answers,
                             "geometric, code model: no exponent can be recovered from the answers")
            else:
                jg = batch.add("c09.geomcode", req)
        pending.append((iq, jf, jg, kind, p, t0, queries, answers, case))
    resps = batch.run()
    for iq, jf, jg, kind, p, t0, queries, answers, case in pending:
        ctx.impl_traces += 1
        compare(ctx, kind, p, t0, queries, answers, resps[iq], None if jf is None else resps[jf], case)
        if jg is not None:
            compare_geomcode(ctx, p, answers, resps[jg], case)
    absorption_probe(ctx)
    if ctx.disagreements:
        ctx.disagreements.sort(key=lambda d: len(d["case"]["queries"]))


def run_case(c, rng=None):
    """the recorded case on the real code: monitor failure dict or None, and the answers"""
    try:
        _, answers = real_run(c["kind"], c["params"], c["t0"], 0, rng, lambda *a, **k: None,
                              c.get("via_parse", False), c.get("use_copy", False), queries=c["queries"],
                              warmup=c.get("warmup"))
    except RealRaised as exc:
        return raised_failure(c, exc), exc.args[1]
    return judge(c, answers), answers


def search(ctx, broken):
    """failing-input search after a broken correspondence: run the monitor on the real code
    on the disagreeing cases and over a larger fresh sample of the same generator"""
    from harness.common import findings
    known = findings.load()
    rng = ctx.sub_rng("search")
    nohist = lambda *a, **k: None
    for d in broken:
        c = d.get("case") if isinstance(d, dict) else None
        if not c or "kind" not in c:
            continue
        mf, _ = run_case(c, rng)
        if mf and findings.match(PID, mf["key"], known) is None:
            return [mf]
    for i in range(20000):
        kind = ["constant", "logarithmic", "fixed", "geometric"][i % 4]
        pmode = rng.choice(["Q", "F"])
        p = gen_params(rng, kind, pmode)
        t0 = rng.choice([0.0, dyadic(rng)]) if pmode == "Q" else rng.choice([0.0, decimal(rng)])
        case = {"kind": kind, "params": p, "t0": t0, "queries": [], "numbers": pmode}
        try:
            queries, answers = real_run(kind, p, t0, rng.choice([2, 5, 10, 30]), rng, nohist)
        except RealRaised as exc:
            return [raised_failure(case, exc)]
        case["queries"] = queries
        mf = judge(case, answers)
        if mf and findings.match(PID, mf["key"], known) is None:
            return [mf]
    return []


def replay(ctx, rep):
    """re-run the recorded query history on the real class and judge the recorded symptom"""
    c = rep.get("case")
    if not isinstance(c, dict) or "kind" not in c or "queries" not in c:
        print("this file records no case of C09 (nothing to re-run): cannot be replayed")
        return False
    mf, answers = run_case(c, ctx.rng)
    print("answers:", answers)
    print("monitor:", "holds" if mf is None else f"{mf['what']} | {mf['observed'].get('problem') or mf['observed'].get('raised')}")
    what = rep.get("what")
    if mf is not None and what is not None and mf["what"] != what:
        print(f"the recorded symptom `{what}` is gone; the failure above is a different one")
        return True
    return mf is None
