"""./check Cxx [--tier quick|thorough] [--replay FILE]"""
import argparse
import importlib
import json
import os
import shutil
import sys
import time
import traceback

from harness.common import paths, lean, findings
from harness.common.context import Ctx

TRUSTED_BASE = [
    "Lean 4.33.0 kernel; axioms propext, Classical.choice, Quot.sound only (audited per run)",
    "hand-written Lean model of the anchored code, tied to /repo by the differential correspondence run of this check",
    "Lean interpreter (lean --run) evaluating the model at Rat/Float for the correspondence",
    "harness: case generators, canonicalisation, tolerances, monitors (Python)",
    "exact field arithmetic in theorems instead of IEEE rounding",
]


def write_evidence(pid, tier, seed, level, coverage, wall, violations, assumptions):
    os.makedirs(paths.EVIDENCE, exist_ok=True)
    ev = {
        "property_id": pid, "tier": tier, "seed": seed, "level": level,
        "coverage": coverage, "assumptions": assumptions, "wall_s": round(wall, 2),
        "violations": violations,
    }
    tmp = os.path.join(paths.EVIDENCE, f".{pid}.json.tmp")
    with open(tmp, "w") as fh:
        json.dump(ev, fh, indent=1, default=str)
    os.replace(tmp, os.path.join(paths.EVIDENCE, f"{pid}.json"))


def write_replay(pid, name, payload):
    d = os.path.join(paths.REPLAYS, pid)
    os.makedirs(d, exist_ok=True)
    p = os.path.join(d, name)
    with open(p, "w") as fh:
        json.dump(payload, fh, indent=1, default=str)
    return os.path.relpath(p, paths.VERIF)


def main():
    sys.set_int_max_str_digits(0)  # exact rationals of long schedules have thousands of digits
    ap = argparse.ArgumentParser()
    ap.add_argument("pid")
    ap.add_argument("--tier", default=os.environ.get("VERIF_TIER", "quick"), choices=["quick", "thorough"])
    ap.add_argument("--replay")
    ap.add_argument("--skip-lean", action="store_true", help="dev only: skip build+audit")
    a = ap.parse_args()
    pid = a.pid.upper()
    seed = int(os.environ.get("VERIF_SEED", "0"))
    t0 = time.time()
    workdir = os.path.join(paths.WORK_ROOT, f"{pid}-{os.getpid()}")
    os.makedirs(workdir, exist_ok=True)
    os.environ.setdefault("NUMBA_CACHE_DIR", os.path.join(workdir, "numba_cache"))
    os.environ["VERIF_WORKDIR"] = workdir
    rc = 2
    try:
        rc = run(pid, a.tier, seed, workdir, a.replay, a.skip_lean, t0)
    except lean.BrokenCheck as e:
        print(f"BROKEN-CHECK property={pid}: {e}")
        rc = 2
    except Exception:
        traceback.print_exc()
        print(f"BROKEN-CHECK property={pid}: harness exception")
        rc = 2
    finally:
        shutil.rmtree(workdir, ignore_errors=True)
        try:
            if not os.listdir(paths.WORK_ROOT):
                os.rmdir(paths.WORK_ROOT)
        except OSError:
            pass
    sys.exit(rc)


def run(pid, tier, seed, workdir, replay, skip_lean, t0):
    mod = importlib.import_module(f"harness.{pid.lower()}")
    import pde  # the real code

    if not os.path.abspath(pde.__file__).startswith(os.path.abspath(paths.REPO) + os.sep):
        raise lean.BrokenCheck(f"pde imported from {pde.__file__}, expected {paths.REPO}")

    ctx = Ctx(pid, tier, seed, workdir)

    if replay:
        case = json.load(open(replay))
        if case.get("kind") == "no-failing-input-found":
            # a broken tie has no failing input of the property: replaying it means re-running the check of the
            # same tier and seed and looking whether the tie (or a generated obligation) is still broken
            import subprocess
            env = dict(os.environ, VERIF_SEED=str(case.get("seed", seed)))
            p = subprocess.run([os.path.join(paths.VERIF, "check"), pid, "--tier", case.get("tier", "quick")],
                               env=env, text=True, capture_output=True)
            still = p.returncode != 0
            print((p.stdout + p.stderr)[-1500:])
            print(("REPLAY-FAIL" if still else "REPLAY-PASS") + f" property={pid} replay={replay}"
                  + " (broken tie: the whole check was re-run)")
            return 1 if still else 0
        ok = mod.replay(ctx, case)
        print(("REPLAY-PASS" if ok else "REPLAY-FAIL") + f" property={pid} replay={replay}")
        return 0 if ok else 1

    # 1. generated obligations (extractors) -------------------------------------------------
    gen_broken = []
    if hasattr(mod, "regenerate"):
        gen_broken = mod.regenerate(ctx) or []

    # 2. build + audit -----------------------------------------------------------------------
    audit = {"obligations": 0, "discharged": 0, "theorems": [], "missing_required": []}
    build_log = ""
    if not skip_lean:
        extra = list(getattr(mod, "EXTRA_PROP_FILES", ()))
        targets = [f"PdeVerif.Props.{pid}", "PdeVerif.Drv.All"] + [f"PdeVerif.Props.{m}" for m in extra]
        ok, build_log, bt = lean.lake_build(targets)
        if not ok:
            gen_mods = getattr(mod, "GENERATED_DEPENDENT", None)
            if gen_mods and hasattr(mod, "build_failure_is_obligation") and mod.build_failure_is_obligation(build_log):
                gen_broken.append({"obligation": "lake build", "log": build_log[-3000:]})
            else:
                raise lean.BrokenCheck("lake build failed:\n" + build_log[-3000:])
        else:
            hits = lean.forbidden_tokens()
            if hits:
                raise lean.BrokenCheck(f"forbidden constructs in Lean sources: {hits[:5]}")
            audit = lean.audit(pid, workdir, getattr(mod, "REQUIRED_THEOREMS", ()), extra)
            if not audit["raw_ok"]:
                raise lean.BrokenCheck("axiom audit failed:\n" + audit["raw"][-2000:])
            bad = [t for t in audit["theorems"] if not t["ok"]]
            if bad or audit["missing_required"]:
                raise lean.BrokenCheck(f"proof audit: bad axioms {bad[:5]} missing {audit['missing_required']}")
            if audit.get("pin_problems") and not gen_broken:
                # the statements of the theorems are pinned (lean/pins); a weakened, renamed or dropped theorem is a
                # defect of the machinery, never of the code under test
                raise lean.BrokenCheck("statement pins: " + "; ".join(audit["pin_problems"][:8])
                                       + " (after a deliberate change run tools/pin_statements.py)")
            if tier == "thorough" and os.environ.get("VERIF_SKIP_LEANCHECKER") != "1":
                okc, outc = lean.leanchecker([f"PdeVerif.Props.{pid}"] + [f"PdeVerif.Props.{m}" for m in extra])
                ctx.extra["leanchecker"] = "ok" if okc else outc
                if not okc:
                    raise lean.BrokenCheck("leanchecker rejected the compiled proofs:\n" + outc)

    # 3. correspondence + monitors on the real code -----------------------------------------
    if not gen_broken or not skip_lean:
        try:
            mod.run(ctx)
        except lean.BrokenCheck:
            if not gen_broken:
                raise

    # a run that explored nothing proves nothing: floors on what must have been executed (a module may raise them
    # per leg through MIN_LEGS = {leg prefix: minimum count at the quick tier})
    if not gen_broken:
        if ctx.evaluations == 0 or ctx.impl_traces == 0 or ctx.monitor_evals == 0:
            raise lean.BrokenCheck(f"nothing explored: cases {ctx.evaluations}, executions compared with the model "
                                   f"{ctx.impl_traces}, monitor evaluations {ctx.monitor_evals}")
        for leg, floor in getattr(mod, "MIN_LEGS", {}).items():
            got = sum(v for k, v in ctx.legs.items() if k.startswith(leg))
            if got < floor:
                raise lean.BrokenCheck(f"leg `{leg}` explored only {got} cases (floor {floor})")

    # 4. verdict -------------------------------------------------------------------------------
    known = findings.load()
    violations = 0
    lines = []
    seen_known = set()
    unlisted = []
    for mf in ctx.monitor_failures:
        k = findings.match(pid, mf.get("key", {}), known)
        if k is not None:
            tag = json.dumps(k["key"], sort_keys=True)
            if tag not in seen_known:
                seen_known.add(tag)
                lines.append(f"KNOWN-FINDING: property={pid} {k['summary']}")
        else:
            unlisted.append(mf)
    if unlisted:
        # one replay per distinct (leg, what); the first (shrunk) case of each
        groups = {}
        for mf in unlisted:
            groups.setdefault((mf["leg"], mf["what"]), mf)
        # at most 12 replay files per run (a systematic breakage produces hundreds of groups)
        for i, ((leg, what), mf) in enumerate(sorted(groups.items(), key=lambda kv: str(kv[0]))[:12]):
            path = write_replay(pid, f"failing_input_{seed}_{i}.json", {
                "property": pid, "kind": "failing-input", "leg": leg, "what": what,
                "case": mf["case"], "observed": mf["observed"], "expected": mf["expected"],
                "key": mf.get("key", {}),
                "how_to_replay": f"./check {pid} --replay <this file>",
                "n_failures_in_group": sum(1 for m in unlisted if (m["leg"], m["what"]) == (leg, what)),
                "n_groups_in_run": len(groups), "n_failures_in_run": len(unlisted),
            })
            lines.append(f"VIOLATION property={pid} replay={path}")
            violations += 1
    broken_tie = list(gen_broken) + ctx.disagreements
    if broken_tie and not unlisted:
        # the tie between model and code is broken but no failing input of the property was
        # found (the property module's own search ran inside mod.run / mod.search)
        found = []
        if hasattr(mod, "search"):
            found = mod.search(ctx, broken_tie) or []
            found = [mf for mf in found if findings.match(pid, mf.get("key", {}), known) is None]
        if found:
            mf = found[0]
            path = write_replay(pid, f"failing_input_{seed}_search.json", {
                "property": pid, "kind": "failing-input", "leg": mf["leg"], "what": mf["what"],
                "case": mf["case"], "observed": mf["observed"], "expected": mf["expected"],
                "how_to_replay": f"./check {pid} --replay <this file>",
            })
            lines.append(f"VIOLATION property={pid} replay={path}")
        else:
            # correspondence disagreements attributable only to a known finding do not alarm
            rest = [d for d in broken_tie
                    if findings.match(pid, (d.get("key") or {}) if isinstance(d, dict) else {}, known) is None]
            if rest:
                path = write_replay(pid, f"broken_tie_{seed}.json", {
                    "property": pid, "kind": "no-failing-input-found", "seed": seed, "tier": tier,
                    "broken": [
                        (d if "obligation" in d else {
                            "correspondence": d["leg"], "case": d["case"], "model": d["model"],
                            "impl": d["impl"], "note": d["note"]})
                        for d in rest[:10]],
                    "n_broken": len(rest),
                    "explanation": "the model/code correspondence (or a generated proof obligation) "
                                   "no longer checks, so the property is no longer shown to hold; "
                                   "the failing-input search on the real code found no input that "
                                   "violates the property itself",
                })
                lines.append(f"VIOLATION property={pid} replay={path} no-failing-input-found")
                violations += 1
        if found:
            violations += 1

    # 5. evidence ------------------------------------------------------------------------------
    level = getattr(mod, "LEVEL", "proof")
    cov = {
        "obligations": audit["obligations"],
        "discharged": audit["discharged"],
        "checker_cmd": f"cd lean && lake build PdeVerif.Props.{pid} && lake env lean <#print axioms of every theorem in Props/{pid}.lean>"
                       + (" && lake env leanchecker PdeVerif.Props." + pid if tier == "thorough" else ""),
        "trusted_base": TRUSTED_BASE + list(getattr(mod, "TRUSTED_EXTRA", [])),
        "theorems": [t["name"].split(".")[-1] for t in audit["theorems"]],
        "evaluations": ctx.evaluations,
        "distinct_nontrivial": len(ctx.nontrivial_keys),
        "distinct": len(ctx.keys),
        "rule": getattr(mod, "RULE", ""),
        "samples": ctx.samples,
        "traces_validated_against_impl": ctx.impl_traces,
        "monitor_evaluations_on_real_code": ctx.monitor_evals,
        "legs": dict(ctx.legs),
        "input_distribution": {k: dict(v.most_common(40)) for k, v in ctx.hists.items()},
        "correspondence_disagreements": len(ctx.disagreements),
        "monitor_failures": len(ctx.monitor_failures),
        "known_findings_hit": sorted(seen_known),
        "notes": ctx.notes,
        "exhaustive": ctx.exhaustive,
    }
    if level == "translation_validation":
        cov["programs"] = ctx.extra.get("programs", ctx.evaluations)
        cov["disagreements_checked"] = ctx.extra.get("disagreements_checked", ctx.impl_traces)
    cov.update({k: v for k, v in ctx.extra.items() if k not in cov})
    if not skip_lean:  # a development run without the proof audit must never leave an evidence record
        write_evidence(pid, tier, seed, level, cov, time.time() - t0, violations,
                       list(getattr(mod, "ASSUMPTIONS", [])))
    for l in lines:
        print(l)
    print(f"{pid} tier={tier} seed={seed}: theorems {audit['discharged']}/{audit['obligations']}, "
          f"cases {ctx.evaluations} (distinct non-trivial {len(ctx.nontrivial_keys)}), "
          f"impl traces {ctx.impl_traces}, disagreements {len(ctx.disagreements)}, "
          f"monitor failures {len(ctx.monitor_failures)}, wall {time.time()-t0:.1f}s")
    if os.environ.get("VERIF_DEBUG"):
        for d in ctx.disagreements[:12]:
            print("DISAGREE", json.dumps(d, default=str)[:700])
    return 1 if violations else 0


if __name__ == "__main__":
    main()
