"""C06 - time steppers realise their scheme exactly, on every backend.

Tie: every generated case (equation u' = a u + b0 + b1 t + b2 t^2 + b3 t^3 on a tiny grid, a
solver, a backend, a sequence of stepper calls) is executed on the real py-pde steppers
(numpy backend, numba backend with the JIT disabled = the source of the compiled loops, and
for a subset the JIT-compiled numba backend) and on the Lean model `PdeVerif.Solvers`
(fixed steps: exact over Rat / Gaussian rationals; adaptive steps: Float).
Monitors (independent of the model, exact closed forms): amplification factors, quadrature
identities, stage times read from a recording rate function, end time / global error of the
adaptive runs, agreement of the backends.
Extractor E1 (`regenerate`) rewrites lean/PdeVerif/Generated/Tableau.lean from the sources."""
import math
import os
from fractions import Fraction

from harness.common import paths
from harness.common.exactnum import CQ
from harness.common.num import q, fbits, unfbits, unq

PID = "C06"
LEVEL = "proof"

REQUIRED_THEOREMS = [
    "euler_amp", "rk4_amp", "implicit_iterates", "cn_iterates", "ab2_recursion", "ab2_first_step",
    "rk4_quadrature", "rkf45_rowsum", "rkf45_order4", "rkf45_order5", "rkf45_error_is_difference",
    "rkf45_amp4", "fixedStepper_steps", "fixedStepper_is_iterate",
    "adaptive_ends_at_or_after_tend", "adaptive_overshoot_lt_dtmin", "adaptive_exact_end_partial",
    "adaptive_end_exact_or_floor", "eulerAdaptive_carried_rate_taken_at_new_time",
    "implicitStep_converged_close", "implicitStep_converged_distance", "cnStep_converged_close",
    "implicitStep_terminates", "cnStep_terminates",
    "global_error_le_sum_local", "euler_local_error_le_estimate",
    "implicitStep_cells", "cnStep_cells", "rkf45_amp5", "rkf45_quadrature", "adaptive_euler_global_error",
    "adaptive_euler_model_global_error", "adaptive_richardson_model_global_error", "ab2Stepper_persistent",
    "ctl_constants_sane", "rkf45_local_error_le_estimate_plus_fifth", "adaptive_rkf45_model_global_error",
    "rkf45_estimate_is_not_a_bound",
    "euler_stage_times", "rk4_stage_times", "rkf45_stage_times", "implicit_stage_times", "cn_stage_times", "ab2_stage_times",
    "eulerRichardson_stage_times", "fixedStepper_stage_times", "adaptive_end_any_arithmetic", "adaptive_clipped_end_exact",
    "fixedStepper_is_iterate_field", "fixedStepper_euler_complexLike", "fixedStepper_rk4_complexLike",
    "adaptive_terminates", "adaptive_finishes_exact_or_floor", "eulerAdaptive_finishes_exact_or_floor",
    "rk4Times_extracted", "rkfTimes_extracted", "ab2Times_extracted", "fixedStepper_callTimes",
    "shrinks_ctlOf", "adaptive_terminates_ctlOf",
    "adaptiveStepper_stage_times", "eulerAdaptiveStepper_stage_times", "adaptiveStepper_rkf45_stage_times",
    "adaptiveStepper_richardson_stage_times",
]
EXTRA_PROP_FILES = ["C06Gen"]  # theorems that need no ordered field (any arithmetic / any field), stage times of whole calls

# theorems of Props/C06.lean whose statement is about the constants of Generated/Tableau.lean:
# a failing build whose errors all lie inside these theorems is a broken *generated* proof
# obligation (the source constants changed), not a broken check
GENERATED_DEPENDENT = [
    "rk4_tableau", "rk4_amp", "rk4_quadrature", "ab2_numba_same", "ab2_recursion", "ab2_first_step",
    "ab2_quadrature", "rkf45_rowsum", "rkf45_high_weights", "rkf45_amp4", "rkf45_amp5", "rkf45_quadrature",
    "rkf45_quadrature5", "rkf45_order4", "rkf45_order5", "ctl_constants_sane", "ctl_threshold_consistent",
    "rk4_stage_times", "rkf45_stage_times", "ab2_stage_times",
    "rk4Times_extracted", "rkfTimes_extracted", "ab2Times_extracted",
]

RULE = ("linear test equations u' = a u + b0 + b1 t + b2 t^2 + b3 t^3 (real and complex a; flavours: "
        "amplification b=0, quadrature a=0, general) on 1-3 cells, as a PDEBase subclass "
        "(evolution_rate + make_evolution_rate) or PDE({...}); solver x backend (numpy, numba source, "
        "numba JIT subset) x stepping (fixed: seed-derived dt, 1..50 steps per call, 1-3 consecutive "
        "calls, start times, rounding ties of the step count; adaptive: tolerance, initial dt, calls; "
        "scipy) through the stepper or eq.solve; a fixed corpus (inputs of the recorded findings, adaptive calls of "
        "2-3 accepted steps on u'=g(t)) in all three modes; a malformed stream (dt = 0: an exception is expected); "
        "a case is distinct by all of these and non-trivial if the state is not identically zero and the rate is "
        "not identically zero")
ASSUMPTIONS = [
    "rates are total functions (the exception/NaN retry branches of the adaptive loops are modelled only "
    "through the isNan oracle of adjust_dt and are not exercised)",
    "fixed-step results are compared with exact rational arithmetic at 1e-12 of the natural scale; "
    "adaptive runs are compared with the Float instantiation at max(1e-9, 1e-14/tolerance) relative, not bit-exactly "
    "(the rate function and pow are not evaluated in the same operation order as numpy/LLVM)",
    "global error bound: proved for adaptive Euler / step doubling on real a <= 0 (exact arithmetic); for RKF45 the "
    "literal bound is false (known finding, proved with the 5th-order remainders); for complex a with Re a <= 0 the "
    "literal bound is false for the step-doubling estimate as well (finding, no theorem): every run is monitored, an "
    "excess is keyed only within the explicit next-order remainders of the accepted steps",
    "adaptive runs with complex a have no model (monitors only)",
    "scipy solver: external integrator, only end time / untouched initial state / accuracy / backend agreement",
    "post-step hooks, MPI synchronisation and stochastic terms are outside the property",
]
TRUSTED_EXTRA = [
    "extractor E1 (harness/common/e1_tableau.py, Python ast) for the constants in Generated/Tableau.lean",
    "libm pow of Lean's Float equals numpy's/LLVM's to 1e-9 relative",
]

GEN_FILE = os.path.join(paths.LEAN, "PdeVerif", "Generated", "Tableau.lean")
PROPS_FILE = os.path.join(paths.LEAN, "PdeVerif", "Props", "C06.lean")
FIXED_SOLVERS = ["euler", "runge-kutta", "implicit", "crank-nicolson", "adams-bashforth"]
ADAPTIVE_SOLVERS = ["euler", "runge-kutta", "richardson"]
DT_MIN = 1e-10


# =============================================================================================
# E1: regenerate Generated/Tableau.lean; classification of build failures
# =============================================================================================
def _pristine_repo():
    return os.path.realpath(paths.REPO) == "/repo"


def _private_lean_tree(ctx, text):
    """A run against another tree than /repo (seeded-change trials, mutation experiments) must not touch
    the shared lean/ directory: the package is copied into the run's work directory (sources and
    the compiled modules, so that only Generated -> Model -> Props/Drv are rebuilt), the extracted
    constants are written there, and the Lean side of this run (build, audit, model driver) is
    pointed to the copy.  `harness.common.lean` reads `paths.LEAN` at call time."""
    import shutil

    global GEN_FILE, PROPS_FILE
    dst = os.path.join(ctx.workdir, "lean_private")
    shutil.copytree(paths.LEAN, dst, symlinks=True)
    paths.LEAN = dst
    GEN_FILE = os.path.join(dst, "PdeVerif", "Generated", "Tableau.lean")
    PROPS_FILE = os.path.join(dst, "PdeVerif", "Props", "C06.lean")
    with open(GEN_FILE, "w") as fh:
        fh.write(text)


def regenerate(ctx):
    from harness.common import e1_tableau

    try:
        consts = e1_tableau.extract(paths.REPO)
        text = e1_tableau.render(consts)
    except e1_tableau.ExtractError as e:
        # the source no longer has the shape the extractor knows: the generated file (and with it
        # the model's constants) stays as it is and the tie is reported as broken
        ctx.extra["e1"] = f"extraction failed: {e}"
        return [{"obligation": "E1 extraction of the stepper constants", "log": str(e)}]
    old = open(GEN_FILE).read() if os.path.exists(GEN_FILE) else None
    if old == text:
        ctx.extra["e1"] = "Generated/Tableau.lean unchanged"
    elif _pristine_repo():
        tmp = GEN_FILE + f".{os.getpid()}.tmp"
        with open(tmp, "w") as fh:
            fh.write(text)
        os.replace(tmp, GEN_FILE)
        ctx.extra["e1"] = "Generated/Tableau.lean rewritten"
    else:
        # not the tree the committed constants describe: never write into the shared lean/ directory
        _private_lean_tree(ctx, text)
        ctx.extra["e1"] = "constants differ from the committed Generated/Tableau.lean: private copy of lean/ in the work directory"
    ctx.extra["e1_constants"] = {k: str(v) for k, v in consts.items()}
    return []


def _theorem_spans():
    """[(first_line, last_line, name)] of the theorems of Props/C06.lean"""
    import re

    lines = open(PROPS_FILE).read().split("\n")
    starts = []
    for i, l in enumerate(lines, 1):
        m = re.match(r"\s*(?:private\s+)?(theorem|lemma|def|example|instance|abbrev|noncomputable def)\s+([\w.']+)?", l)
        if m:
            starts.append((i, m.group(2) or m.group(1)))
    spans = []
    for j, (i, name) in enumerate(starts):
        end = starts[j + 1][0] - 1 if j + 1 < len(starts) else len(lines)
        spans.append((i, end, name))
    return spans


def build_failure_is_obligation(log):
    """True iff every error of the failed build lies inside a theorem of Props/C06.lean that is
    about the generated constants (then the build failure is a broken generated obligation)."""
    import re

    errs = re.findall(r"error: ([\w./-]+\.lean):(\d+):(\d+)", log)
    if not errs:
        return False
    spans = _theorem_spans()
    for f, line, _col in errs:
        if not f.replace("\\", "/").endswith("PdeVerif/Props/C06.lean"):
            return False
        line = int(line)
        name = next((n for a, b, n in spans if a <= line <= b), None)
        if name not in GENERATED_DEPENDENT:
            return False
    return True


# =============================================================================================
# real-code side (runs inside worker processes)
# =============================================================================================
_LIN = None
_RICH = None


def lin_class():
    """PDEBase subclass for u' = a u + b0 + b1 t + b2 t^2 + b3 t^3 with both rate interfaces;
    `calls` (a list) records the time argument of every rate evaluation (python execution only)"""
    global _LIN
    if _LIN is None:
        import numba as nb
        from pde import PDEBase

        class LinearTestEquation(PDEBase):
            check_implementation = False

            def __init__(self, a, b, cplx, calls=None):
                super().__init__()
                self.a = a
                self.b = tuple(b)
                self.complex_valued = bool(cplx)
                self.calls = calls

            def evolution_rate(self, state, t=0):
                if self.calls is not None:
                    self.calls.append(float(t))
                b0, b1, b2, b3 = self.b
                res = state.copy()
                res.data = self.a * state.data + (b0 + b1 * t + b2 * t * t + b3 * t * t * t)
                return res

            def make_evolution_rate(self, state, backend):
                a = self.a
                b0, b1, b2, b3 = self.b
                calls = self.calls
                if calls is not None and nb.config.DISABLE_JIT:
                    def rhs(state_data, t=0):
                        calls.append(float(t))
                        return a * state_data + (b0 + b1 * t + b2 * t * t + b3 * t * t * t)
                else:
                    def rhs(state_data, t=0):
                        return a * state_data + (b0 + b1 * t + b2 * t * t + b3 * t * t * t)
                return rhs

        _LIN = LinearTestEquation
    return _LIN


def richardson_class():
    """a plain AdaptiveSolverBase: generic adaptive loop + Euler step-doubling estimate of base.py"""
    global _RICH
    if _RICH is None:
        from pde.solvers.base import AdaptiveSolverBase

        class PlainAdaptiveSolverC06(AdaptiveSolverBase):
            pass

        _RICH = PlainAdaptiveSolverC06
    return _RICH


def build_eq(case, calls):
    a = complex(*case["a"]) if case["cplx"] else case["a"][0]
    b = case["b"]
    if case["impl"] == "expr":
        from pde import PDE

        return PDE({"u": "a*u + b0 + b1*t + b2*t**2 + b3*t**3"},
                   consts={"a": a, "b0": b[0], "b1": b[1], "b2": b[2], "b3": b[3]})
    return lin_class()(a, b, case["cplx"], calls)


def build_state(case, u0=None):
    import numpy as np
    from pde import ScalarField, UnitGrid

    u0 = case["u0"] if u0 is None else u0
    grid = UnitGrid([len(u0)])
    if case["cplx"]:
        return ScalarField(grid, np.array([complex(*x) for x in u0]), dtype=complex)
    return ScalarField(grid, np.array([x[0] for x in u0], dtype=float))


def build_solver(case, eq, backend):
    from pde.solvers.base import SolverBase

    name = case["solver"]
    if case["kind"] == "adaptive":
        kw = {"adaptive": True, "tolerance": case["tol"]}
        if name == "richardson":
            return richardson_class()(eq, backend=backend, **kw)
        return SolverBase.from_name(name, eq, backend=backend, **kw)
    kw = {}
    if name in ("implicit", "crank-nicolson"):
        kw = {"maxiter": case["maxiter"], "maxerror": case["maxerror"]}
        if name == "crank-nicolson":
            kw["explicit_fraction"] = case["alpha"]
    if name == "scipy":
        kw = dict(case.get("scipy_args", {}))
    return SolverBase.from_name(name, eq, backend=backend, **kw)


def _cells(arr):
    return [[float(x.real), float(x.imag)] for x in arr]


# CPU seconds (not wall time: the check must not depend on the load of the machine) per real execution;
# python execution of a case takes milliseconds to a second, a compiled one 1-10 s of JIT compilation
CASE_CPU_LIMIT = {"numpy": 30.0, "nojit": 30.0, "jit": 150.0}
CASE_HARD_CPU_LIMIT = 400.0     # watchdog: a worker stuck inside compiled code is terminated


class CaseTimeout(BaseException):
    """Raised by the CPU-time limit.  Not an `Exception`: the adaptive Euler loops wrap their rate
    evaluations in `except Exception` and would otherwise swallow the limit and carry on."""


class _Deadline:
    """CPU-time limit for one execution of the real code.  A run that does not come back (e.g. a
    controller loop that never reaches t_end after a stepper returned a wrong time) is reported as a
    TimeoutError of that case instead of stalling the check.  The timer repeats (every 10 CPU seconds
    after the limit) in case the first signal is lost in code that catches everything."""

    def __init__(self, soft, hard=CASE_HARD_CPU_LIMIT):
        self.soft, self.hard = soft, hard

    def __enter__(self):
        import signal
        import threading
        import time

        def on_alarm(_sig, _frm):
            raise CaseTimeout(f"no result within {self.soft:.0f} s of CPU time")

        self.use_signal = threading.current_thread() is threading.main_thread()
        if self.use_signal:
            self.old = signal.signal(signal.SIGPROF, on_alarm)
            signal.setitimer(signal.ITIMER_PROF, self.soft, 10.0)
        self.done = threading.Event()
        start = time.process_time()

        def watch():
            while not self.done.wait(5.0):
                if time.process_time() - start > self.hard:
                    os._exit(3)

        self.watchdog = threading.Thread(target=watch, daemon=True)
        self.watchdog.start()
        return self

    def __exit__(self, *exc):
        import signal

        self.done.set()
        if self.use_signal:
            signal.setitimer(signal.ITIMER_PROF, 0)
            signal.signal(signal.SIGPROF, self.old)
        return False


def exec_case(task):
    """run one case on the real code (with a time limit); returns a plain dict"""
    try:
        with _Deadline(CASE_CPU_LIMIT.get(task["mode"], 150.0)):
            return _exec_case(task)
    except CaseTimeout as e:
        return {"mode": task["mode"], "segments": [], "error": {"type": "TimeoutError", "msg": str(e), "segment": 0},
                "calls": None, "initial_untouched": None}


def _exec_case(task):
    """run one case on the real code; returns a plain dict (see compare_* for its use)"""
    import numba as nb
    import numpy as np

    case, mode = task["case"], task["mode"]
    if mode == "nojit" and not nb.config.DISABLE_JIT:
        raise RuntimeError("nojit mode needs NUMBA_DISABLE_JIT=1")
    if mode == "jit" and nb.config.DISABLE_JIT:
        raise RuntimeError("jit mode with disabled JIT")
    backend = "numpy" if mode == "numpy" else "numba"
    record = (mode != "jit") and case["impl"] == "class"
    calls = [] if record else None
    u0 = task.get("u0")
    segments = task.get("segments", case["segments"])
    out = {"mode": mode, "segments": [], "error": None, "calls": calls, "initial_untouched": None}
    eq = build_eq(case, calls)
    state = build_state(case, u0)
    initial = state.data.copy()
    dt = case.get("dt")
    try:
        if case["via"] == "solve":
            from pde.solvers.controller import Controller

            solver = build_solver(case, eq, backend)
            ts, te = segments[0][0], segments[-1][1]
            ctrl = Controller(solver, t_range=(ts, te), tracker=None)
            res = ctrl.run(state, dt=dt)
            out["initial_untouched"] = bool(np.array_equal(state.data, initial))
            info = ctrl.diagnostics
            seg = {"t": float(info["controller"]["t_final"]), "steps": int(info["solver"]["steps"]),
                   "state": _cells(res.data), "ncalls": len(calls) if record else None}
            if case["kind"] == "adaptive":
                seg["dt_opt"] = float(info["solver"]["dt"])
                st = info["solver"]["dt_statistics"]
                seg["dt_stats"] = {k: float(st[k]) for k in ("min", "max", "mean", "count")}
            out["segments"].append(seg)
        else:
            solver = build_solver(case, eq, backend)
            stepper = solver.make_stepper(state, dt)
            for j, (ts, te) in enumerate(segments):
                out["error_segment"] = j
                t = stepper(state, ts, te)
                seg = {"t": float(t), "steps": int(solver.info["steps"]), "state": _cells(state.data),
                       "ncalls": len(calls) if record else None}
                if case["kind"] == "adaptive":
                    seg["dt_opt"] = float(solver.info["dt"])
                    st = solver.info["dt_statistics"].to_dict()
                    seg["dt_stats"] = {k: float(st[k]) for k in ("min", "max", "mean", "count")}
                out["segments"].append(seg)
            out.pop("error_segment", None)
    except Exception as e:  # noqa: BLE001  (error class is part of the compared behaviour)
        out["error"] = {"type": type(e).__name__, "msg": str(e)[:200], "segment": out.get("error_segment", 0)}
    return out


def worker(task):
    """entry point for harness.common.isolated.run_many"""
    if task.get("targeted"):
        return {"id": "targeted", "runs": targeted_worker(None)}
    res = {"id": task["id"], "runs": {}}
    for mode in task["modes"]:
        res["runs"][mode] = exec_case({"case": task["case"], "mode": mode})
        # auxiliary one-step runs for the monitors of general-flavour cases
        for tag, aux in task.get("aux", {}).items():
            if mode in aux["modes"]:
                res["runs"][f"{mode}/{tag}"] = exec_case({"case": aux["case"], "mode": mode})
    return res


# =============================================================================================
# generators
# =============================================================================================
def rnd_num(rng, lo, hi, dyadic_prob=0.5, bits=6):
    if rng.random() < dyadic_prob:
        den = 2 ** rng.randint(0, bits)
        return rng.randint(int(math.floor(lo * den)), int(math.ceil(hi * den))) / den
    return rng.uniform(lo, hi)


def gen_equation(rng, flavour, cplx, hist):
    if flavour == "quad":
        a = [0.0, 0.0]
    else:
        while True:
            re = rnd_num(rng, -3.0, 1.5)
            im = rnd_num(rng, -3.0, 3.0) if cplx else 0.0
            if abs(complex(re, im)) > 1 / 16:
                break
        a = [re, im]
    if flavour == "amp":
        b = [0.0, 0.0, 0.0, 0.0]
    else:
        b = [0.0 if rng.random() < 0.2 else rnd_num(rng, -2.0, 2.0) for _ in range(4)]
        if not any(b):
            b[rng.randrange(4)] = 1.0
    n = rng.choice([1, 2, 2, 2, 3])
    u0 = []
    for _ in range(n):
        re = rnd_num(rng, -2.0, 2.0)
        im = rnd_num(rng, -2.0, 2.0) if cplx else 0.0
        u0.append([re, im])
    if rng.random() < 0.03:
        u0 = [[0.0, 0.0] for _ in u0]
        hist("state", "zero")
    else:
        hist("state", "generic")
    return a, b, u0


def predicted_t(ts, te, dt):
    steps = max(1, round((te - ts) / dt))
    return (ts + (steps - 1) * dt) + dt, steps


def gen_fixed(rng, solver, hist):
    flavour = rng.choice(["amp", "amp", "quad", "general", "general"])
    cplx = rng.random() < 0.3
    a, b, u0 = gen_equation(rng, flavour, cplx, hist)
    amag = abs(complex(*a))
    # step size: target |z| = |a| dt
    if solver in ("implicit", "crank-nicolson"):
        zmax = 0.85 if solver == "implicit" else 1.6
        if rng.random() < 0.06:
            zt = rng.uniform(1.05, 1.6) * (1 if solver == "implicit" else 2)  # diverging iteration
            hist("implicit-regime", "divergent")
        else:
            zt = rng.uniform(0.02, zmax)
            hist("implicit-regime", "contracting")
    else:
        zt = rng.uniform(0.02, 1.5)
    if amag > 0:
        dt = zt / amag
    else:
        dt = rng.uniform(1 / 64, 0.5)
    if rng.random() < 0.6:
        e = math.floor(math.log2(dt)) - rng.randint(2, 5)
        dt = max(round(dt / 2 ** e), 1) * 2 ** e  # dyadic with few bits
        hist("dt", "dyadic")
    else:
        hist("dt", "full-mantissa")
    t0 = rng.choice([0.0, 0.0, rnd_num(rng, -4.0, 4.0), rnd_num(rng, 0.0, 2.0)])
    if flavour != "amp" and abs(t0) + 50 * dt > 8:
        t0 = rnd_num(rng, -1.0, 1.0)
    case = {"kind": "fixed", "solver": solver, "flavour": flavour, "cplx": cplx, "a": a, "b": b, "u0": u0,
            "dt": dt, "impl": "expr" if rng.random() < 0.25 else "class",
            "via": "solve" if rng.random() < 0.3 else "stepper",
            "maxiter": 100, "maxerror": 1e-4, "alpha": 0.0}
    max_steps = 50
    if solver in ("implicit", "crank-nicolson"):
        case["maxiter"] = rng.choice([100, 100, 100, 100, 100, 1000, 1000, 20, 5, 1])
        case["maxerror"] = rng.choice([1e-4, 1e-4, 1e-4, 1e-8, 1e-2, 1e-12, 2.0 ** -20])
        if solver == "crank-nicolson":
            case["alpha"] = rng.choice([0.0, 0.0, 0.0, 0.25, 0.5, 0.75, 0.125])
        # contraction factor of the fixed-point iteration and the number of iterations it needs;
        # the exact model pays for (iterations x steps) with the size of its rationals
        z = complex(*a) * dt
        qq = abs(z) if solver == "implicit" else abs(case["alpha"] + (1 - case["alpha"]) * z / 2)
        if flavour == "quad":
            qq = case["alpha"]
        if qq >= 0.97:
            case["maxiter"] = rng.choice([1, 5, 20])
            k_est = case["maxiter"]
        elif qq <= 0:
            k_est = 2
        else:
            k_est = min(case["maxiter"], 2 + int(math.log(case["maxerror"] * 1e-2) / math.log(qq)))
        full = sum(1 for x in [dt] + a + [v for u in u0 for v in u] if Fraction(x).denominator > 2 ** 12)
        max_steps = max(1, min(50, (600 if full == 0 else 120) // max(1, k_est)))
        hist("implicit-iterations-estimate", min(k_est, 100) // 10 * 10)
    # calls
    nseg = 1 if case["via"] == "solve" else rng.choice([1, 1, 2, 3])
    segs, t = [], t0
    for _ in range(nseg):
        n = rng.choice([1, 2, 3, rng.randint(4, 12), rng.randint(5, 30), rng.randint(1, 50), rng.randint(20, 50)])
        n = min(n, max_steps)
        r = rng.random()
        if r < 0.55:
            eps, tag = 0.0, "exact-multiple"
        elif r < 0.75:
            eps, tag = rng.uniform(-0.45, 0.45), "rounded"
        elif r < 0.87:
            eps, tag = rng.choice([0.5, -0.5]), "tie-half"
            if n == 1 and eps < 0:
                eps = 0.5
        elif r < 0.95:
            n, eps, tag = 0, rng.uniform(0.01, 0.49), "shorter-than-half-dt"
        else:
            n, eps, tag = 0, -rng.uniform(0.1, 3.0), "t_end-before-t_start"
        hist("segment", tag)
        te = t + (n + eps) * dt
        if case["via"] == "solve":
            if te <= t:
                te = t + max(1, n) * dt
            # the controller calls the stepper until t >= t_end - 1e-6 dt
            cur = t
            while cur < te - 1e-6 * dt:
                segs.append([cur, te])
                cur, _ = predicted_t(cur, te, dt)
            t = cur
        else:
            segs.append([t, te])
            t, _ = predicted_t(t, te, dt)
    case["segments"] = segs
    hist("steps_total", min(60, sum(predicted_t(s[0], s[1], dt)[1] for s in segs)) // 10 * 10)
    return case


def gen_adaptive(rng, solver, hist):
    flavour = rng.choice(["amp", "amp", "amp", "quad", "general"])
    cplx = flavour == "amp" and rng.random() < 0.25
    a, b, u0 = gen_equation(rng, flavour, cplx, hist)
    if flavour != "quad":
        # dissipative: Re a <= 0 (a few growing ones for the loop logic only)
        if a[0] > 0 and rng.random() < 0.85:
            a[0] = -a[0]
    T = rng.choice([0.25, 0.5, 1.0, 1.0, 2.0, rng.uniform(0.1, 3.0)])
    if solver == "runge-kutta":
        tol = rng.choice([1e-2, 1e-3, 1e-4, 1e-5, 1e-6, 1e-8, 1e-10])
    else:
        tol = rng.choice([1e-1, 1e-2, 1e-3, 1e-4, 1e-5, 3e-6])
    dt0 = rng.choice([None, 1e-3, 0.01, 0.1, 1.0, rng.uniform(1e-3, 0.5), 10.0])
    t0 = rng.choice([0.0, 0.0, rnd_num(rng, -2.0, 2.0)])
    case = {"kind": "adaptive", "solver": solver, "flavour": flavour, "cplx": cplx, "a": a, "b": b, "u0": u0,
            "dt": dt0, "tol": tol, "impl": "expr" if rng.random() < 0.2 else "class",
            "via": "solve" if rng.random() < 0.3 else "stepper"}
    nseg = 1 if case["via"] == "solve" else rng.choice([1, 1, 2, 3])
    cuts = sorted(rng.uniform(0, T) for _ in range(nseg - 1))
    pts = [t0] + [t0 + c for c in cuts] + [t0 + T]
    # every call starts where the previous one was asked to end (adaptive steppers end there up to dt_min)
    case["segments"] = [[pts[i], pts[i + 1]] for i in range(nseg)]
    hist("tolerance", tol)
    hist("dt0", "default" if dt0 is None else ("large" if dt0 >= 1 else "small"))
    return case


def gen_scipy(rng, hist):
    flavour = rng.choice(["amp", "quad", "general"])
    cplx = rng.random() < 0.3
    a, b, u0 = gen_equation(rng, flavour, cplx, hist)
    if a[0] > 0:
        a[0] = -a[0]
    t0 = rng.choice([0.0, rnd_num(rng, -2.0, 2.0)])
    T = rng.choice([0.5, 1.0, rng.uniform(0.1, 2.0)])
    case = {"kind": "scipy", "solver": "scipy", "flavour": flavour, "cplx": cplx, "a": a, "b": b, "u0": u0,
            "dt": rng.choice([None, 0.1, 1e-3]), "impl": "expr" if rng.random() < 0.3 else "class",
            "via": rng.choice(["solve", "stepper"]), "segments": [[t0, t0 + T]],
            "scipy_args": rng.choice([{}, {"method": "RK45"}, {"method": "DOP853", "rtol": 1e-8, "atol": 1e-10},
                                      {"rtol": 1e-6, "atol": 1e-9}])}
    return case


# =============================================================================================
# exact closed forms for the monitors (independent of the Lean model)
# =============================================================================================
def _poly(b, t):
    t = Fraction(t)
    return Fraction(b[0]) + Fraction(b[1]) * t + Fraction(b[2]) * t ** 2 + Fraction(b[3]) * t ** 3


def _poly_int(b, t0, t1):
    t0, t1 = Fraction(t0), Fraction(t1)
    return sum(Fraction(b[k]) * (t1 ** (k + 1) - t0 ** (k + 1)) / (k + 1) for k in range(4))


def amp_factor(solver, z):
    """exact amplification factor of one step of an explicit scheme on u' = a u (z = a dt)"""
    if solver == "euler":
        return 1 + z
    if solver == "runge-kutta":
        return 1 + z + z ** 2 / 2 + z ** 3 / 6 + z ** 4 / 24
    raise ValueError(solver)


def expected_amp(case, seg_steps, iters=None):
    """exact states after every call of an amplification-flavour case; for the iterated schemes
    `iters` are the observed iteration counts (None: converged value).  Returns list (per call)
    of lists (cells) of CQ."""
    a = CQ.of(case["a"])
    dt = Fraction(case["dt"])
    z = a * dt
    solver = case["solver"]
    us = [CQ.of(u) for u in case["u0"]]
    out = []
    it = iter(iters) if iters is not None else None
    prev = None
    for n in seg_steps:
        for _ in range(n):
            if solver in ("euler", "runge-kutta"):
                f = amp_factor(solver, z)
                us = [f * u for u in us]
            elif solver == "implicit":
                if it is None:
                    us = [u / (1 - z) for u in us]
                else:
                    k = next(it)
                    us = [(1 - z ** (k + 2)) / (1 - z) * u for u in us]
            elif solver == "crank-nicolson":
                al = Fraction(case["alpha"])
                fix = (1 + z / 2) / (1 - z / 2)
                if it is None:
                    us = [fix * u for u in us]
                else:
                    k = next(it)
                    qq = al + (1 - al) * z / 2
                    x0 = al + (1 - al) * (1 + z)
                    us = [(fix + qq ** k * (x0 - fix)) * u for u in us]
            elif solver == "adams-bashforth":
                if prev is None:
                    prev = [(1 - z) * u for u in us]  # u - dt f(u)
                new = [u + z * (Fraction(3, 2) * u - Fraction(1, 2) * p) for u, p in zip(us, prev)]
                prev, us = us, new
        out.append(list(us))
    return out


def expected_quad(case, segments, seg_steps, iters=None):
    """exact states after every call of a quadrature-flavour case (a = 0).  Crank-Nicolson with
    an explicit fraction alpha reaches the trapezoidal value only geometrically:
    x_k = u + I (1 - alpha^(k+1)) after k iterations (`iters`: observed counts, None: converged)"""
    b, dt = case["b"], Fraction(case["dt"])
    solver = case["solver"]
    us = [CQ.of(u) for u in case["u0"]]
    out = []
    it = iter(iters) if iters is not None else None
    al = Fraction(case["alpha"])
    for (ts, _te), n in zip(segments, seg_steps):
        ts = Fraction(ts)
        inc = Fraction(0)
        for i in range(n):
            t = ts + i * dt
            if solver == "euler":
                inc += dt * _poly(b, t)
            elif solver == "runge-kutta":
                inc += _poly_int(b, t, t + dt)
            elif solver == "implicit":
                inc += dt * _poly(b, t + dt)
            elif solver == "crank-nicolson":
                k = next(it) if it is not None else None
                inc += dt / 2 * (_poly(b, t) + _poly(b, t + dt)) * (1 if k is None else 1 - al ** (k + 1))
            elif solver == "adams-bashforth":
                inc += dt * (Fraction(3, 2) * _poly(b, t) - Fraction(1, 2) * _poly(b, t - dt))
        us = [u + inc for u in us]
        out.append(list(us))
    return out


def group_times(times, tol):
    """run-length groups of (almost) equal consecutive times -> [(time, count)]"""
    groups = []
    for t in times:
        if groups and abs(groups[-1][0] - t) <= tol:
            groups[-1][1] += 1
        else:
            groups.append([t, 1])
    return groups


def parse_fixed_calls(case, segments, seg_steps, calls, ncalls):
    """check the recorded rate-evaluation times of a fixed-step run against the stage times of
    the scheme; returns (problem or None, iteration counts of the implicit schemes)"""
    solver, dt = case["solver"], case["dt"]
    iters = []
    lo = 0
    first = True
    for (ts, _te), n, hi in zip(segments, seg_steps, ncalls):
        times = calls[lo:hi]
        lo = hi
        tol = 1e-9 * dt + 1e-12 * abs(ts)
        lat = [ts + i * dt for i in range(n + 1)]
        if solver == "euler":
            exp = lat[:n]
        elif solver == "runge-kutta":
            exp = [x for i in range(n) for x in (lat[i], lat[i] + dt / 2, lat[i] + dt / 2, lat[i] + dt)]
        elif solver == "adams-bashforth":
            exp = ([ts] if first else []) + [x for i in range(n) for x in (lat[i] - dt, lat[i])]
        else:
            g = group_times(times, tol)
            if len(g) != n + 1 or any(not abs(gt - lt) <= tol for (gt, _), lt in zip(g, lat)):
                return (f"rate evaluated at times {[x[0] for x in g][:6]}.. instead of the lattice "
                        f"{lat[:6]}.. of a {solver} step"), None
            extra = 0 if solver == "implicit" else 1   # CN: one evaluation at t+dt before the loop
            for i in range(1, n + 1):
                cnt = g[i][1] - (1 if i < n else 0) - extra
                if g[0][1] != 1 or cnt < 1:
                    return f"unexpected number of rate evaluations per step {[x[1] for x in g]}", None
                iters.append(cnt)
            first = False
            continue
        first = False
        if len(times) != len(exp):
            return f"{len(times)} rate evaluations instead of {len(exp)} in a call of {n} steps", None
        for i, (x, y) in enumerate(zip(times, exp)):
            if not abs(x - y) <= tol:
                return (f"rate evaluation {i} of the call at time {x!r}, the scheme evaluates at {y!r} "
                        f"(t_start={ts!r}, dt={dt!r})"), None
    return None, iters


# =============================================================================================
# comparison with the model and monitors
# =============================================================================================
def _scale(case, states):
    s = max([abs(complex(*u)) for u in case["u0"]] + [1e-300])
    for st in states:
        s = max([s] + [abs(complex(*u)) for u in st])
    if case["flavour"] != "amp":
        tmax = max(max(abs(x) for x in sg) for sg in case["segments"])
        T = sum(abs(sg[1] - sg[0]) for sg in case["segments"]) + (case.get("dt") or 0)
        s = max(s, sum(abs(x) * max(1.0, tmax) ** k for k, x in enumerate(case["b"])) * T)
    return s


def model_request_fixed(case, backend):
    cplx = case["cplx"]
    enc = (lambda x: [q(x[0]), q(x[1])]) if cplx else (lambda x: q(x[0]))
    return {"num": "C" if cplx else "Q", "solver": case["solver"], "backend": backend,
            "a": enc(case["a"]), "b": [enc([x, 0.0]) for x in case["b"]], "u0": [enc(u) for u in case["u0"]],
            "dt": q(case["dt"]), "maxiter": case["maxiter"], "maxerror": q(case["maxerror"]),
            "alpha": q(case["alpha"]), "segments": [[q(s[0]), q(s[1])] for s in case["segments"]]}


def model_request_steps(case):
    return {"dt": fbits(case["dt"]), "segments": [[fbits(s[0]), fbits(s[1])] for s in case["segments"]]}


def model_request_adaptive(case):
    return {"solver": case["solver"], "a": fbits(case["a"][0]), "b": [fbits(x) for x in case["b"]],
            "u0": [fbits(u[0]) for u in case["u0"]], "dt0": fbits(1e-3 if case["dt"] is None else case["dt"]),
            "tol": fbits(case["tol"]), "dt_min": fbits(DT_MIN), "dt_max": fbits(1e10),
            "segments": [[fbits(s[0]), fbits(s[1])] for s in case["segments"]], "fuel": 200000}


def decode_model_fixed(case, val):
    cplx = case["cplx"]
    segs = []
    for s in val["segments"]:
        st = [[float(unq(x[0])), float(unq(x[1]))] if cplx else [float(unq(x)), 0.0] for x in s["state"]]
        segs.append({"t": float(unq(s["t"])), "steps": s["steps"], "state": st, "iters": s["iters"]})
    return segs, val["error"]


def aggregate_for_solve(case, msegs):
    """eq.solve reports one final record for all internal stepper calls"""
    if case["via"] != "solve" or not msegs:
        return msegs
    last = dict(msegs[-1])
    last["steps"] = sum(s["steps"] for s in msegs)
    last["iters"] = [k for s in msegs for k in s["iters"]]
    return [last]


def cumulative_steps(segs):
    out, prev = [], 0
    for s in segs:
        out.append(s["steps"] - prev)
        prev = s["steps"]
    return out


def compare_times(ctx, case, mode, run, val, leg):
    """the times at which the real stepper evaluates the rate (recording rate function) against `callTimes` of the model
    (`eulerTimes`, `rk4Times rk4Tab`, `ab2Times`, `implicitTimes`: the stage-time lists of the theorems `*_stage_times`,
    `fixedStepper_callTimes`); implicit / Crank-Nicolson: the distinct times (the multiplicities are the iteration counts,
    compared separately)"""
    if run["calls"] is None or case["via"] != "stepper" or run["error"] is not None:
        return
    dt, lo = case["dt"], 0
    for j, (seg, ms, n) in enumerate(zip(run["segments"], val["segments"], cumulative_steps(run["segments"]))):
        times = run["calls"][lo:seg["ncalls"]]
        lo = seg["ncalls"]
        if ms["steps"] != n:
            ctx.hist("stage-times-vs-model", "skipped: exact and float step counts differ")
            return
        mt = [float(unq(x)) for x in ms["times"]]
        tol = 1e-9 * abs(dt) + 1e-12 * abs(case["segments"][j][0])
        if case["solver"] in ("implicit", "crank-nicolson"):
            times = [g[0] for g in group_times(times, tol)]
            mt = [g[0] for g in group_times(mt, tol)]
        if len(times) != len(mt) or any(not abs(x - y) <= tol for x, y in zip(times, mt)):
            ctx.disagree(leg, {"case": case, "mode": mode}, {"rate_evaluation_times": mt[:16], "n": len(mt)},
                         {"rate_evaluation_times": times[:16], "n": len(times)},
                         f"call {j}: times at which the rate is evaluated vs callTimes of the model")
            return
    ctx.hist("stage-times-vs-model", "equal")


def compare_steps(ctx, case, mode, run, fval, leg):
    """step count and returned time against the Float instantiation of `fixedStepper`: exact"""
    if run["error"] is not None:
        return True
    rec = {"case": case, "mode": mode}
    counts = [x[0] for x in fval]
    times = [unfbits(x[1]) for x in fval]
    # python execution performs the IEEE operations of the source one by one: bit-exact.  The compiled
    # loop is built with LLVM fast-math flags (contract, reassoc): a few ulp.
    # (relative to the largest time of the run: `t_start + i*dt` cancels when the returned time is near zero)
    tmag = max([abs(b) for seg in case["segments"] for b in seg] + [abs(case["dt"])])
    same = (lambda x, y: x == y) if mode != "jit" else (lambda x, y: abs(x - y) <= 4e-15 * max(abs(y), tmag))
    if case["via"] == "solve":
        ok = run["segments"][0]["steps"] == sum(counts) and same(run["segments"][0]["t"], times[-1])
        impl = {"steps": run["segments"][0]["steps"], "t": run["segments"][0]["t"]}
        model = {"steps": sum(counts), "t": times[-1]}
    else:
        impl = {"steps": cumulative_steps(run["segments"]), "t": [s["t"] for s in run["segments"]]}
        model = {"steps": counts, "t": times}
        ok = impl["steps"] == model["steps"] and all(same(x, y) for x, y in zip(impl["t"], model["t"]))
    if not ok:
        ctx.disagree(leg, rec, model, impl, "step count / returned time (Float model, exact comparison)")
    return ok


def compare_fixed(ctx, case, mode, run, msegs, merr, leg, float_counts=None):
    """correspondence model <-> real run; returns True if they agree"""
    rec = {"case": case, "mode": mode}
    if float_counts is not None and merr is None and [s["steps"] for s in msegs] != float_counts[: len(msegs)]:
        # (t_end - t_start)/dt is a rounding tie in IEEE arithmetic but not exactly: the exact model
        # takes a different number of steps; the Float model above is the reference for the count
        ctx.hist("exact-vs-float", "step count parted at a rounding tie")
        return None
    ctx.hist("exact-vs-float", "same step count")
    if merr is not None or run["error"] is not None:
        ok = (merr == "convergence" and run["error"] is not None and run["error"]["type"] == "ConvergenceError"
              and (case["via"] == "solve" or run["error"]["segment"] == len(msegs)))
        if (not ok and merr is None and run["error"] is not None and run["error"]["type"] == "ConvergenceError"
                and msegs and case.get("maxerror", 1.0) <= 1e-13 * _scale(case, [s_["state"] for s_ in msegs])):
            # the requested accuracy of the fixed-point iteration lies below the resolution of doubles at the size of
            # the state: the exact model converges, the iterates of the real code stall at round-off and the code
            # reports non-convergence - loud, and not a difference of the schemes
            ctx.hist("outcome", "ConvergenceError below float resolution (maxerror < 1e-13 |state|)")
            return None
        if (not ok and merr == "convergence" and run["error"] is None and msegs
                and case.get("maxerror", 1.0) <= 1e-13 * _scale(case, [s_["state"] for s_ in msegs])):
            # the mirror image: the requested accuracy lies below the resolution of doubles at the size of the state,
            # so the iterates of the real code reach a stationary double (change exactly 0) long before the exact
            # iteration of the model gets below `maxerror` - the exact model runs out of iterations, the code converges
            ctx.hist("outcome", "converged at a stationary double where the exact iteration exceeds maxiter (maxerror < 1e-13 |state|)")
            return None
        if not ok:
            ctx.disagree(leg, rec, {"error": merr, "segments_done": len(msegs)}, {"error": run["error"]},
                         "error behaviour differs")
        else:
            ctx.hist("outcome", "ConvergenceError (model and code)")
        return ok
    msegs = aggregate_for_solve(case, msegs)
    rsegs = run["segments"]
    if len(msegs) != len(rsegs):
        ctx.disagree(leg, rec, {"n_calls": len(msegs)}, {"n_calls": len(rsegs)}, "number of stepper calls")
        return False
    rsteps = [s["steps"] for s in rsegs] if case["via"] == "solve" else cumulative_steps(rsegs)
    scale = _scale(case, [s["state"] for s in msegs])
    for j, (m, r) in enumerate(zip(msegs, rsegs)):
        if m["steps"] != rsteps[j]:
            ctx.disagree(leg, rec, {"call": j, "steps": m["steps"]}, {"call": j, "steps": rsteps[j]}, "step count")
            return False
        if not abs(m["t"] - r["t"]) <= 1e-12 * max(1.0, abs(m["t"])):
            ctx.disagree(leg, rec, {"call": j, "t": m["t"]}, {"call": j, "t": r["t"]}, "returned time")
            return False
        dev = max(abs(complex(*x) - complex(*y)) for x, y in zip(m["state"], r["state"]))
        if not dev <= 1e-12 * scale * (1 + sum(rsteps[: j + 1]) / 16):
            ctx.disagree(leg, rec, {"call": j, "state": m["state"]}, {"call": j, "state": r["state"]},
                         f"state deviates by {dev:.3e} (scale {scale:.3e})")
            return False
    return True


def monitor_fixed(ctx, case, mode, run, aux_runs, leg="monitor"):
    """the property statement on the real run (no model involved).  Returns number of failures."""
    fails = 0
    key = {"solver": case["solver"], "backend": "numpy" if mode == "numpy" else "numba"}
    rec = {"case": case, "mode": mode}
    dt = case["dt"]

    def fail(obs, exp, what):
        nonlocal fails
        fails += 1
        ctx.monitor_fail(leg, rec, obs, exp, what, key=dict(key))

    if run["error"] is not None:
        if run["error"]["type"] != "ConvergenceError":
            ctx.monitor_evals += 1
            fail(run["error"], "a result or ConvergenceError", f"{case['solver']}: unexpected exception")
        return fails
    segments = case["segments"]
    if case["via"] == "solve":
        # one record for all internal calls
        seg_steps_pred = [predicted_t(s[0], s[1], dt)[1] for s in segments]
        tot = sum(seg_steps_pred)
        ctx.monitor_evals += 1
        if run["segments"][0]["steps"] != tot:
            fail({"steps": run["segments"][0]["steps"]}, {"steps": tot},
                 f"{case['solver']}: number of steps != max(1, round((t_end-t_start)/dt)) per call")
            return fails
        if run["initial_untouched"] is False:
            fail("initial state modified", "unchanged", "solve modified the initial state")
        seg_steps = seg_steps_pred
    else:
        seg_steps = cumulative_steps(run["segments"])
        for j, (s, n) in enumerate(zip(segments, seg_steps)):
            ctx.monitor_evals += 1
            tp, np_ = predicted_t(s[0], s[1], dt)
            if n != np_:
                fail({"call": j, "steps": n}, {"steps": np_},
                     f"{case['solver']}: number of steps != max(1, round((t_end-t_start)/dt))")
                return fails
            if not abs(run["segments"][j]["t"] - tp) <= 1e-12 * max(1.0, abs(tp)):
                fail({"call": j, "t": run["segments"][j]["t"]}, {"t": tp},
                     f"{case['solver']}: returned time != t_start + steps*dt")
                return fails
    # stage times (python execution with the recording rate function)
    iters = None
    if run["calls"] is not None and case["via"] == "stepper":
        ctx.monitor_evals += 1
        bad, iters = parse_fixed_calls(case, segments, seg_steps, run["calls"], [s["ncalls"] for s in run["segments"]])
        if bad:
            fail(bad, "stage times of the scheme", f"{case['solver']}: rate evaluated at wrong stage times")
            return fails
        ctx.hist("stage-times", "checked")
    # amplification / quadrature identities
    for tag, c, r in [("main", case, run)] + [(t, a["case"], a["run"]) for t, a in aux_runs.items()]:
        if r is None or r["error"] is not None or c["flavour"] not in ("amp", "quad"):
            continue
        if tag == "main":
            ss, its = seg_steps, iters
        else:
            ss = cumulative_steps(r["segments"])
            its = None
            if r["calls"] is not None:
                _bad, its = parse_fixed_calls(c, c["segments"], ss, r["calls"], [s["ncalls"] for s in r["segments"]])
        ctx.monitor_evals += 1
        if c["flavour"] == "amp":
            exp = expected_amp(c, ss, its if c["solver"] in ("implicit", "crank-nicolson") else None)
            what = f"{c['solver']}: amplification factor on u'=a*u"
        else:
            exp = expected_quad(c, c["segments"], ss, its if c["solver"] == "crank-nicolson" else None)
            what = f"{c['solver']}: quadrature identity on u'=g(t)"
        if c["via"] == "solve":
            exp = exp[-1:]
        for j, (e, s) in enumerate(zip(exp, r["segments"])):
            ev = [complex(x) for x in e]
            ov = [complex(*x) for x in s["state"]]
            scale = max([abs(x) for x in ev] + [abs(complex(*u)) for u in c["u0"]] + [1e-300])
            if c["flavour"] == "quad":
                scale = max(scale, _scale(c, []))
            nsteps = sum(ss) if c["via"] == "solve" else sum(ss[: j + 1])
            tol = 1e-12 * scale * (1 + nsteps / 16)
            if c["flavour"] == "amp" and c["solver"] in ("implicit", "crank-nicolson") and its is None:
                # iteration counts unknown (compiled run): converged value within the stopping criterion,
                # |y - fix| <= |q|/|1-q| sqrt(N) maxerror per step (Props/C06.lean implicitStep_converged_distance,
                # cnStep_converged_close: no contraction hypothesis), propagated with the exact amplification
                a = complex(*c["a"])
                z = a * c["dt"]
                qq = z if c["solver"] == "implicit" else c["alpha"] + (1 - c["alpha"]) * z / 2
                if abs(1 - qq) < 1e-9 or abs(1 - z) < 1e-9 or abs(1 - z / 2) < 1e-9:
                    continue
                growth = max(1.0, abs(1 / (1 - z)) if c["solver"] == "implicit" else abs((1 + z / 2) / (1 - z / 2)))
                tol += (abs(qq) / abs(1 - qq)) * c["maxerror"] * math.sqrt(len(c["u0"])) * nsteps \
                    * growth ** nsteps * 1.001
            if c["flavour"] == "quad" and c["solver"] == "crank-nicolson" and its is None and c["alpha"] != 0:
                tol += c["alpha"] / (1 - c["alpha"]) * c["maxerror"] * nsteps * 1.001
            dev = max(abs(x - y) for x, y in zip(ev, ov))
            if not dev <= tol:
                fail({"call": j, "state": s["state"], "deviation": dev, "aux": tag},
                     {"state": [[x.real, x.imag] for x in ev], "tolerance": tol}, what)
                break
    return fails


def monitor_agreement(ctx, case, runs, leg="monitor"):
    """interpreted and compiled steppers give the same result (round-off for fixed steps, the
    tolerance for adaptive steps)"""
    fails = 0
    base = runs.get("numpy")
    if base is None:
        return 0
    for mode in ("nojit", "jit"):
        r = runs.get(mode)
        if r is None:
            continue
        ctx.monitor_evals += 1
        rec = {"case": case, "mode": mode}
        key = {"solver": case["solver"], "backend": "numba"}
        if (base["error"] is None) != (r["error"] is None) or \
                (base["error"] and base["error"]["type"] != r["error"]["type"]):
            ctx.monitor_fail(leg, rec, {"numba": r["error"]}, {"numpy": base["error"]},
                             f"{case['solver']}: numpy and numba backends differ (exception)", key=key)
            fails += 1
            continue
        if base["error"]:
            continue
        for j, (x, y) in enumerate(zip(base["segments"], r["segments"])):
            scale = max([abs(complex(*u)) for u in x["state"]] + [abs(complex(*u)) for u in case["u0"]] + [1e-300])
            if case["flavour"] != "amp":
                scale = max(scale, _scale(case, []))
            dev = max(abs(complex(*u) - complex(*v)) for u, v in zip(x["state"], y["state"]))
            if case["kind"] == "adaptive":
                # the property: "within the tolerance for adaptive steps"
                tol = case["tol"] * max(1, x["steps"], y["steps"]) + 1e-9 * scale
                strict = case["tol"] * max(1, x["steps"]) * 1e-3 + 1e-9 * scale
                ctx.hist("adaptive numpy-vs-numba", "same to round-off" if (dev <= strict and x["steps"] == y["steps"])
                         else "differ beyond round-off")
            elif case["kind"] == "scipy":
                tol = 1e-9 * scale
            else:
                tol = 1e-12 * scale * (1 + x["steps"] / 16)
            bad = None
            if x["steps"] != y["steps"] and case["kind"] == "fixed":
                bad = f"steps {y['steps']} vs {x['steps']}"
            elif not abs(x["t"] - y["t"]) <= 1e-12 * max(1.0, abs(x["t"])) + (DT_MIN * 1.000001 if case["kind"] == "adaptive" else 0):
                bad = f"time {y['t']!r} vs {x['t']!r}"
            elif not dev <= tol:
                bad = f"state deviates by {dev:.3e} (tolerance {tol:.3e})"
            if bad:
                ctx.monitor_fail(leg, rec, {"call": j, "numba": y, "problem": bad}, {"numpy": x},
                                 f"{case['solver']}: numpy and numba backends differ", key=key)
                fails += 1
                break
    return fails


# ---- adaptive -------------------------------------------------------------------------------
RKF_A = [0.0, 1 / 4, 3 / 8, 12 / 13, 1.0, 1 / 2]


def parse_adaptive_calls(case, run, info=None):
    """reconstruct [(t, dt, accepted)] per call from the recorded rate-evaluation times;
    returns (problem or None, list per call of lists).  `info` (a dict) receives, for adaptive Euler,
    `rate_times`: per call the list of (t, dt, time of the rate evaluation of the accepted state).
    Adaptive Euler: an iteration evaluates the rate at the midpoint t + dt/2; an accepted iteration is
    followed by the evaluation of the rate of the accepted state (which the next step reuses), a rejected
    one directly by the next midpoint t + dt'/2 with dt' in [0.1 dt, 0.9 dt].  The time of the rate
    evaluation of an accepted state is *recorded*, not presumed: the trace can be reconstructed whether
    it is taken at t + dt (the scheme) or at t."""
    solver = case["solver"]
    calls = run["calls"]
    out, lo = [], 0
    rate_times = []
    for (ts, te), seg in zip(case["segments"], run["segments"]):
        times = calls[lo:seg["ncalls"]]
        lo = seg["ncalls"]
        recs = []
        rts = []
        t = ts
        i = 0
        eps = lambda h: 1e-9 * abs(h) + 1e-13 * max(1.0, abs(t))
        if solver == "euler":
            if not times or not abs(times[0] - ts) <= 1e-13 * max(1.0, abs(ts)):
                return "first rate evaluation of the adaptive Euler call is not at t_start", None
            i = 1
            while i < len(times):
                h = 2 * (times[i] - t)
                if not h > 0:
                    return f"non-positive step reconstructed at evaluation {i}", None
                i += 1
                if i == len(times):
                    return ("the call ends with a midpoint evaluation: the rate of the last accepted state was "
                            "not evaluated"), None
                x = times[i]
                if abs(x - t) <= eps(h) or abs(x - (t + h)) <= eps(h):
                    acc = True
                    rts.append([t, h, x])
                    i += 1
                elif t + 0.04 * h <= x <= t + 0.46 * h:
                    acc = False           # x is the midpoint of the next, smaller attempt
                else:
                    return (f"evaluation {i} at {x!r} is neither the rate of the accepted state (t+dt={t + h!r}) "
                            f"nor the midpoint of a retry (t={t!r}, dt={h!r})"), None
                recs.append([t, h, acc])
                if acc:
                    t = t + h
            if recs and not recs[-1][2]:
                return "the call ends with a rejected iteration", None
        else:
            per = 3 if solver == "richardson" else 6
            if len(times) % per:
                return f"{len(times)} rate evaluations is not a multiple of {per}", None
            for k in range(0, len(times), per):
                blk = times[k:k + per]
                if solver == "richardson":
                    h = 2 * (blk[2] - blk[0])
                    stage = [0.0, 0.0, 0.5]
                else:
                    h = blk[4] - blk[0]
                    stage = RKF_A
                if not h > 0:
                    return f"non-positive step reconstructed in block {k // per}", None
                for c, a in zip(blk, stage):
                    if not abs(c - (blk[0] + a * h)) <= eps(h):
                        return (f"stage evaluated at {c!r}, expected t + {a!r}*dt = {blk[0] + a * h!r} "
                                f"(t={blk[0]!r}, dt={h!r})"), None
                if k + per < len(times):
                    nxt = times[k + per]
                    acc = not abs(nxt - blk[0]) <= 0.25 * h
                else:
                    acc = True
                if not abs(blk[0] - t) <= eps(h):
                    return f"iteration starts at {blk[0]!r}, expected {t!r}", None
                recs.append([blk[0], h, acc])
                if acc:
                    t = blk[0] + h
        out.append(recs)
        rate_times.append(rts)
    if info is not None:
        info["rate_times"] = rate_times
    return None, out


def compare_adaptive(ctx, case, mode, run, mval, leg):
    rec = {"case": case, "mode": mode}
    msegs = mval["segments"]
    status = [s["status"] for s in msegs]
    if run["error"] is not None or any(s != "done" for s in status):
        ok = (run["error"] is not None and status and status[-1] in ("below-min", "nan-below-min")
              and run["error"]["type"] == "RuntimeError")
        if not ok:
            ctx.disagree(leg, rec, {"status": status}, {"error": run["error"]}, "error behaviour differs")
        else:
            ctx.hist("outcome", "RuntimeError dt below dt_min (model and code)")
        return ok
    rsegs = run["segments"]
    if len(rsegs) != len(msegs):
        ctx.disagree(leg, rec, {"n_calls": len(msegs)}, {"n_calls": len(rsegs)}, "number of calls")
        return False
    rsteps = cumulative_steps(rsegs)
    traces = None
    if run["calls"] is not None and (case["via"] == "stepper" or len(case["segments"]) == 1):
        bad, traces = parse_adaptive_calls(case, run)
        if bad:
            ctx.disagree(leg, rec, "model trace", bad, "recorded rate evaluations cannot be parsed")
            return False
    scale = max([abs(u[0]) for u in case["u0"]] + [1e-300])
    if case["flavour"] != "amp":
        scale = max(scale, _scale(case, []))
    # The step sizes are a function of the error estimate, which is a difference of nearly equal
    # numbers of size ~tolerance: rounding differences between numpy/LLVM and the model's rate
    # evaluation (relative 1e-16 of the stage values) are amplified to ~1e-15/tolerance.
    rel = max(1e-9, 1e-14 / case["tol"])
    span = sum(abs(s[1] - s[0]) for s in case["segments"])
    for j, (m, r) in enumerate(zip(msegs, rsegs)):
        mt, mdt = unfbits(m["t"]), unfbits(m["dt_opt"])
        mstate = [unfbits(x) for x in m["state"]]
        dev = max(abs(x - y[0]) for x, y in zip(mstate, r["state"]))
        if abs(m["steps"] - rsteps[j]) == 1 and 0 < abs(mt - r["t"]) <= DT_MIN * (1 + 1e-6):
            # one of the two runs missed t_end by an ulp and appended a step of dt_min (the final time of the
            # real run is judged by the monitor): step counts, trace and saved dt of this call cannot be
            # compared, the state (which moved by dt_min * rate) still is
            ctx.hist("adaptive-model-vs-code", "parted by a final dt_min step")
            if not dev <= (rel + 1e-8) * max(scale, max(abs(x) for x in mstate)):
                ctx.disagree(leg, rec, {"call": j, "state": mstate}, {"state": r["state"]},
                             f"state deviates by {dev:.3e} (runs parted by a final dt_min step)")
                return False
            # later calls start from a different saved time step: no further comparison (None = not tied)
            return None
        if m["steps"] != rsteps[j]:
            ctx.disagree(leg, rec, {"call": j, "steps": m["steps"]}, {"steps": rsteps[j]}, "accepted steps")
            return False
        if not abs(mt - r["t"]) <= 1e-12 * max(1.0, abs(mt)):
            ctx.disagree(leg, rec, {"call": j, "t": mt}, {"t": r["t"]}, "final time")
            return False
        if not abs(mdt - r["dt_opt"]) <= rel * abs(mdt):
            ctx.disagree(leg, rec, {"call": j, "dt_opt": mdt}, {"dt_opt": r["dt_opt"]}, "saved time step")
            return False
        if not dev <= rel * max(scale, max(abs(x) for x in mstate)):
            ctx.disagree(leg, rec, {"call": j, "state": mstate}, {"state": r["state"]}, f"state deviates by {dev:.3e}")
            return False
        if traces is not None:
            mtr = [[unfbits(x[0]), unfbits(x[1]), x[3]] for x in m["trace"]]
            rtr = traces[j]
            if len(mtr) != len(rtr):
                ctx.disagree(leg, rec, {"call": j, "iterations": len(mtr)}, {"iterations": len(rtr)},
                             "number of loop iterations")
                return False
            for k, (a, b) in enumerate(zip(mtr, rtr)):
                if a[2] != b[2] or not abs(a[1] - b[1]) <= rel * max(abs(a[1]), span) or \
                        not abs(a[0] - b[0]) <= rel * max(1.0, span):
                    ctx.disagree(leg, rec, {"call": j, "iteration": k, "t_dt_accepted": a},
                                 {"t_dt_accepted": b}, "(t, dt, accepted) sequence")
                    return False
            ctx.hist("adaptive-trace", "compared")
    # dt statistics of the last call (accumulated over all calls) against the model's accepted steps
    acc = [unfbits(x[1]) for m in msegs for x in m["trace"] if x[3]]
    st = rsegs[-1].get("dt_stats")
    if st and acc:
        tol = rel * max(max(acc), span)
        if int(st["count"]) != len(acc) or not abs(st["min"] - min(acc)) <= tol or \
                not abs(st["max"] - max(acc)) <= tol or not abs(st["mean"] - sum(acc) / len(acc)) <= tol:
            ctx.disagree(leg, rec, {"accepted_dt": {"count": len(acc), "min": min(acc), "max": max(acc)}},
                         {"dt_statistics": st}, "dt statistics")
            return False
    ctx.hist("adaptive-model-vs-code", "agree")
    return True


SYMPTOM_GLOBAL = "global-error-exceeds-steps-x-tolerance"
SYMPTOM_GLOBAL_5TH = "global-error-exceeds-steps-x-tolerance-within-5th-order-remainder"
SYMPTOM_GLOBAL_CPLX = "global-error-exceeds-steps-x-tolerance-complex-rate-within-third-order-remainder"
SYMPTOM_STALE_RATE = "rate of accepted state taken at old time"
SYMPTOM_OVERSHOOT = "final time beyond t_end by one extra step of dt_min"


def accepted_dts(case, run, mval=None, model_agrees=False):
    """accepted step sizes per record of the real run: from the Float model trace of the same case
    when the correspondence leg has tied it to this run, else from the recorded rate evaluations,
    else None.  Step sizes that do not add up to the time the run covered are not used."""
    per = None
    if mval is not None and model_agrees:
        per = [[unfbits(x[1]) for x in m["trace"] if x[3]] for m in mval["segments"]]
        if case["via"] == "solve":
            per = [[h for seg in per for h in seg]]
    elif run.get("calls") is not None and run["error"] is None and \
            (case["via"] == "stepper" or len(case["segments"]) == 1):
        bad, traces = parse_adaptive_calls(case, run)
        if not bad:
            per = [[x[1] for x in tr if x[2]] for tr in traces]
    if per is None or run["error"] is not None or len(per) != len(run["segments"]):
        return None
    starts = [case["segments"][0][0]] if case["via"] == "solve" else [s[0] for s in case["segments"]]
    for hs, ts, r in zip(per, starts, run["segments"]):
        if not abs(sum(hs) - (r["t"] - ts)) <= 1e-9 * abs(r["t"] - ts) + 2 * DT_MIN:
            return None
    return per


def fifth_order_budget(case, dts_per_call):
    """sum over the accepted steps of |R5(z_i) - exp(z_i)| * |u_i|_max (z_i = a*dt_i, u_i the state
    before step i, advanced with the amplification R4 of the returned 4th-order state): the part of
    the local error of an accepted Runge-Kutta-Fehlberg step that the acceptance test does not control
    (Props/C06.lean: adaptive_rkf45_model_global_error).  Cumulative value after every call."""
    import cmath

    a = complex(*case["a"])
    us = [complex(*u) for u in case["u0"]]
    total, out = 0.0, []
    for dts in dts_per_call:
        for h in dts:
            z = a * h
            r4 = 1 + z + z ** 2 / 2 + z ** 3 / 6 + z ** 4 / 24 + z ** 5 / 104
            r5 = 1 + z + z ** 2 / 2 + z ** 3 / 6 + z ** 4 / 24 + z ** 5 / 120 + z ** 6 / 2080
            total += abs(r5 - cmath.exp(z)) * max(abs(u) for u in us)
            us = [r4 * u for u in us]
        out.append(total)
    return out


def doubling_ratio(z):
    """rho(z) = |exp z - (1+z/2)^2| / |z^2/4|: local error of an Euler step-doubling step on u'=a u
    (z = a dt) relative to its own error estimate |(1+z) - (1+z/2)^2| = |z|^2/4.  rho <= 1 for real
    z <= 0 (Props/C06.lean euler_local_error_le_estimate); for complex z with Re z <= 0 it is
    1 + 2 Re z/3 + (Im z)^2/18 + O(|z|^3), i.e. larger than 1 when (Im z)^2 > -12 Re z."""
    import cmath

    if abs(z) < 1e-4:   # series (the quotient cancels): 1 + 2z/3 + z^2/6 + z^3/30
        return abs(1 + 2 * z / 3 + z * z / 6 + z ** 3 / 30)
    return abs(cmath.exp(z) - (1 + z / 2) ** 2) / (abs(z) ** 2 / 4)


def doubling_budget(case, dts_per_call, rsegs):
    """tol * sum over the accepted steps of max(1, rho(a dt_i)) (cumulative per record): what the
    acceptance test |z_i|^2/4 |u| <= tol leaves for the local errors of an Euler step-doubling run on
    u' = a u with complex a, Re a <= 0.  Without step sizes: accepted steps * tol * sup of max(1, rho)
    over the step sizes up to the largest accepted one (dt_statistics, observable in every mode)."""
    a = complex(*case["a"])
    tol = case["tol"]
    if dts_per_call is not None:
        total, out = 0.0, []
        for dts in dts_per_call:
            total += sum(max(1.0, doubling_ratio(a * h)) for h in dts) * tol
            out.append(total * (1 + 1e-9))
        return out
    out = []
    for r in rsegs:
        st = r.get("dt_stats")
        if not st or not st["max"] > 0:
            return None
        hmax = st["max"] * (1 + 1e-9)
        sup = max(max(1.0, doubling_ratio(a * hmax * k / 2000)) for k in range(1, 2001))
        out.append(r["steps"] * tol * sup * (1 + 1e-6))
    return out


def _adaptive_quadrature(case, traces, stale):
    """exact value (Fraction per cell, cumulative per call) of an adaptive Euler / step-doubling run on
    u' = g(t) over the accepted steps (t_i, h_i) of `traces`: every accepted step adds
    h/2 g(t) + h/2 g(t + h/2).  `stale`: the variant in which the first half of step i+1 of a call
    uses g at the *start* of step i (rate of the accepted state evaluated before the time advanced)."""
    b = case["b"]
    us = [Fraction(u[0]) for u in case["u0"]]
    out = []
    for (ts, _te), tr in zip(case["segments"], traces):
        inc = Fraction(0)
        tau = Fraction(ts)
        for t, h, acc in tr:
            if not acc:
                continue
            t, h = Fraction(t), Fraction(h)
            inc += h / 2 * (_poly(b, tau if stale else t) + _poly(b, t + h / 2))
            tau = t
        us = [u + inc for u in us]
        out.append(list(us))
    return out


def monitor_adaptive(ctx, case, mode, run, leg="monitor", dts=None):
    fails = 0
    key = {"solver": case["solver"], "backend": "numpy" if mode == "numpy" else "numba", "stepping": "adaptive"}
    rec = {"case": case, "mode": mode}

    def fail(obs, exp, what, symptom=None):
        nonlocal fails
        fails += 1
        k = dict(key)
        if symptom:
            k["symptom"] = symptom
        ctx.monitor_fail(leg, rec, obs, exp, what, key=k)

    ctx.monitor_evals += 1
    if run["error"] is not None:
        fail(run["error"], "a result", f"adaptive {case['solver']}: exception")
        return fails
    if run["initial_untouched"] is False:
        fail("initial state modified", "unchanged", "solve modified the initial state")
    segs = case["segments"]
    rsegs = run["segments"]
    ends = [segs[-1][1]] if case["via"] == "solve" else [s[1] for s in segs]
    # ---- "adaptive stepping ends exactly at the requested time": the literal clause -----------------
    for j, (te, r) in enumerate(zip(ends, rsegs)):
        over = r["t"] - te
        if r["t"] == te:
            ctx.hist("adaptive-end", "exact")
        elif abs(over - DT_MIN) <= 1e-4 * DT_MIN + 8e-16 * abs(te):
            # t + (t_end - t) was rounded to the float below t_end: `t < t_end` held once more and a step of
            # dt_min (the loop never steps by less) was appended
            ctx.hist("adaptive-end", "beyond t_end by one step of dt_min")
            fail({"call": j, "t_final": r["t"], "overshoot": over}, {"t_final": te},
                 "adaptive stepping: final time beyond t_end by one extra step of dt_min", SYMPTOM_OVERSHOOT)
            break
        else:
            ctx.hist("adaptive-end", "wrong")
            fail({"call": j, "t_final": r["t"], "overshoot": over}, {"t_final": te},
                 f"adaptive {case['solver']}: final time not at t_end")
            return fails
    # ---- stage times of every rate evaluation (python execution with the recording rate function) ----
    traces = None
    if run["calls"] is not None and (case["via"] == "stepper" or len(segs) == 1):
        ctx.monitor_evals += 1
        info = {}
        bad, traces = parse_adaptive_calls(case, run, info)
        if bad:
            fail(bad, "stage times of the scheme", f"adaptive {case['solver']}: rate evaluated at wrong stage times")
            return fails
        ctx.hist("adaptive-stage-times", "checked")
        if [sum(1 for x in tr if x[2]) for tr in traces] != cumulative_steps(rsegs):
            fail({"accepted iterations in the recorded evaluations": [sum(1 for x in tr if x[2]) for tr in traces]},
                 {"steps": cumulative_steps(rsegs)}, f"adaptive {case['solver']}: reported steps != accepted iterations")
            return fails
        for j, rts in enumerate(info.get("rate_times", [])):
            wrong = [(t, h, x) for t, h, x in rts if not abs(x - (t + h)) <= 1e-9 * h + 1e-13 * max(1.0, abs(t))]
            if wrong:
                t, h, x = wrong[0]
                fail({"call": j, "step_start": t, "dt": h, "rate_of_accepted_state_evaluated_at": x,
                      "n_steps_affected": len(wrong)}, {"rate_of_accepted_state_evaluated_at": t + h},
                     "adaptive euler: the rate of an accepted state (reused as first stage of the next step) is "
                     "evaluated at the time before the step", SYMPTOM_STALE_RATE)
                break
    # ---- quadrature identity on u' = g(t) ---------------------------------------------------------
    if case["flavour"] == "quad" and not case["cplx"]:
        scale = _scale(case, [r["state"] for r in rsegs])
        t0 = segs[0][0]
        if case["solver"] == "runge-kutta":
            # both embedded formulas integrate a cubic exactly, whatever steps were taken
            ctx.monitor_evals += 1
            for j, r in enumerate(rsegs):
                inc = float(_poly_int(case["b"], t0, r["t"]))
                exp = [u[0] + inc for u in case["u0"]]
                dev = max(abs(x[0] - e) for x, e in zip(r["state"], exp))
                if not dev <= 1e-11 * scale * (1 + r["steps"] / 16):
                    fail({"call": j, "state": r["state"], "deviation": dev}, {"state": exp},
                         "adaptive runge-kutta: quadrature identity on u'=g(t)")
                    break
        elif traces is not None:
            ctx.monitor_evals += 1
            good = _adaptive_quadrature(case, traces, stale=False)
            old = _adaptive_quadrature(case, traces, stale=True) if case["solver"] == "euler" else None
            for j, r in enumerate(rsegs):
                obs = [x[0] for x in r["state"]]
                tolq = 1e-11 * scale * (1 + r["steps"] / 16)
                dev = max(abs(x - float(e)) for x, e in zip(obs, good[j]))
                if not dev <= tolq:
                    sym = None
                    what = f"adaptive {case['solver']}: quadrature identity on u'=g(t)"
                    if old is not None and max(abs(x - float(e)) for x, e in zip(obs, old[j])) <= tolq:
                        sym = SYMPTOM_STALE_RATE
                        what = ("adaptive euler: quadrature identity on u'=g(t) (the result is the one with the first "
                                "stage of every step after the first taken at the start of the previous step)")
                    fail({"call": j, "state": obs, "deviation": dev}, {"state": [float(e) for e in good[j]]}, what, sym)
                    break
    # ---- global error on autonomous dissipative linear problems -------------------------------------
    a = complex(*case["a"])
    if case["flavour"] == "amp" and a.real <= 0:
        ctx.monitor_evals += 1
        t0 = segs[0][0]
        import cmath
        for j, r in enumerate(rsegs):
            exact = [cmath.exp(a * (r["t"] - t0)) * complex(*u) for u in case["u0"]]
            err = max(abs(complex(*x) - e) for x, e in zip(r["state"], exact))
            bound = r["steps"] * case["tol"]
            slack = 1e-13 * max(abs(complex(*u)) for u in case["u0"]) + 1e-300
            if not err <= bound * (1 + 1e-9) + slack:
                # classify the excess: for Runge-Kutta-Fehlberg the acceptance test controls |5th - 4th|, the
                # returned 4th-order state additionally carries the remainder of the 5th-order value; for Euler
                # step doubling with a complex rate the estimate |z|^2/4 is smaller than the local error by
                # the factor rho(z) (doubling_ratio)
                symptom, b5, what = SYMPTOM_GLOBAL, None, "global error exceeds steps*tolerance"
                have_dts = dts is not None and j < len(dts) and sum(len(d) for d in dts[: j + 1]) == r["steps"]
                if case["solver"] == "runge-kutta" and have_dts:
                    b5 = bound + fifth_order_budget(case, dts)[j]
                    if err <= b5 * (1 + 1e-9) + slack:
                        symptom = SYMPTOM_GLOBAL_5TH
                        what = "global error exceeds steps*tolerance (within the 5th-order remainders of the accepted steps)"
                    else:
                        what = "global error exceeds steps*tolerance + 5th-order remainders of the accepted steps"
                elif case["solver"] in ("euler", "richardson") and a.imag != 0:
                    bud = doubling_budget(case, dts if have_dts else None, rsegs)
                    if bud is not None:
                        b5 = bud[j]
                        if err <= b5 + slack:
                            symptom = SYMPTOM_GLOBAL_CPLX
                            what = ("global error exceeds steps*tolerance for a complex rate (within the third-order "
                                    "remainders of the accepted step-doubling steps)")
                        else:
                            what = "global error exceeds steps*tolerance + third-order remainders of the accepted steps"
                k_extra = {"estimator": "euler-step-doubling"} if symptom == SYMPTOM_GLOBAL_CPLX else {}
                key.update(k_extra)
                fail({"call": j, "global_error": err, "steps": r["steps"], "state": r["state"],
                      "ratio_to_bound": err / bound if bound else None},
                     {"bound_steps_x_tol": bound, "bound_plus_next_order_remainders": b5,
                      "exact": [[e.real, e.imag] for e in exact]},
                     f"adaptive {case['solver']}: {what}", symptom)
                for kk in k_extra:
                    key.pop(kk)
                ctx.hist("global-error-excess", symptom)
                break
            ctx.hist("global-error/bound", "%.0e" % (err / bound) if bound > 0 and err > 0 else "0")
    if case.get("multistep"):
        fails += monitor_multistep(ctx, case, mode, run, leg)
    return fails


def multistep_adaptive_cases():
    """adaptive runs with an enormous tolerance on u' = g(t): every step is accepted, so the call consists
    of two or three accepted steps whose sizes can be read from dt_statistics in every execution mode
    (also compiled).  They pin the time at which the rate carried from one step to the next is taken."""
    cases = []
    for solver in ADAPTIVE_SOLVERS:
        for b in ([1.0, -2.0, 3.0, 1.0], [0.0, 1.0, 0.0, 0.0]):
            for h, mult in ((0.25, 2), (0.25, 5), (0.125, 21)):
                for t0 in (0.0, 0.5):
                    for via in ("stepper", "solve"):
                        cases.append({"kind": "adaptive", "solver": solver, "flavour": "quad", "cplx": False,
                                      "a": [0.0, 0.0], "b": b, "u0": [[1.0, 0.0], [-0.75, 0.0]], "dt": h, "tol": 1e30,
                                      "impl": "class", "via": via, "segments": [[t0, t0 + mult * h]],
                                      "multistep": True})
    return cases


def _sizes_from_stats(st, T):
    """the multiset of at most three accepted step sizes from dt_statistics, as ordered candidates"""
    import itertools

    n = int(st["count"])
    if n == 1:
        sizes = [st["mean"]]
    elif n == 2:
        sizes = [st["min"], st["max"]]
    elif n == 3:
        sizes = [st["min"], 3 * st["mean"] - st["min"] - st["max"], st["max"]]
    else:
        return None
    if not abs(sum(sizes) - T) <= 1e-12 * max(1.0, abs(T)) or not all(x > 0 for x in sizes):
        return None
    return sorted(set(itertools.permutations(sizes)))


def monitor_multistep(ctx, case, mode, run, leg="monitor"):
    """quadrature identity of a call of several accepted steps, from observables that exist in every
    execution mode (final state, steps, dt_statistics)"""
    ctx.monitor_evals += 1
    key = {"solver": case["solver"], "backend": "numpy" if mode == "numpy" else "numba", "stepping": "adaptive"}
    rec = {"case": case, "mode": mode}
    if run["error"] is not None or not run["segments"]:
        ctx.monitor_fail(leg, rec, {"error": run["error"]}, "a result",
                         f"adaptive {case['solver']}: exception", key=key)
        return 1
    r = run["segments"][0]
    ts, te = case["segments"][0]
    obs = [x[0] for x in r["state"]]
    scale = _scale(case, [r["state"]])
    tolq = 1e-12 * scale
    what = f"adaptive {case['solver']}: quadrature identity on u'=g(t) over a call of several accepted steps"
    if case["solver"] == "runge-kutta":
        inc = float(_poly_int(case["b"], ts, r["t"]))
        exp = [u[0] + inc for u in case["u0"]]
        if not max(abs(x - e) for x, e in zip(obs, exp)) <= tolq:
            ctx.monitor_fail(leg, rec, {"state": obs, "steps": r["steps"]}, {"state": exp}, what, key=key)
            return 1
        return 0
    cands = _sizes_from_stats(r.get("dt_stats") or {"count": 0}, r["t"] - ts)
    if cands is None or r["steps"] != len(cands[0]):
        ctx.hist("multistep-adaptive", "step sizes not reconstructible from dt_statistics")
        ctx.monitor_fail(leg, rec, {"steps": r["steps"], "dt_statistics": r.get("dt_stats"), "t_final": r["t"]},
                         "at most three accepted steps that add up to the requested interval",
                         f"adaptive {case['solver']}: accepted steps with an enormous tolerance do not cover the interval",
                         key=key)
        return 1
    best, stale_hit = None, False
    for sizes in cands:
        tr, t = [], ts
        for h in sizes:
            tr.append([t, h, True])
            t = t + h
        good = _adaptive_quadrature(case, [tr], stale=False)[0]
        dev = max(abs(x - float(e)) for x, e in zip(obs, good))
        if best is None or dev < best[0]:
            best = (dev, [float(e) for e in good], list(sizes))
        old = _adaptive_quadrature(case, [tr], stale=True)[0]
        if max(abs(x - float(e)) for x, e in zip(obs, old)) <= tolq:
            stale_hit = True
    ctx.hist("multistep-adaptive", f"{r['steps']} steps")
    if not best[0] <= tolq:
        if stale_hit and case["solver"] == "euler":
            key["symptom"] = SYMPTOM_STALE_RATE
            what = ("adaptive euler: quadrature identity on u'=g(t) over a call of several accepted steps (the result "
                    "is the one with the first stage of every step after the first taken at the start of the previous step)")
        ctx.monitor_fail(leg, rec, {"state": obs, "steps": r["steps"], "deviation": best[0]},
                         {"state": best[1], "accepted_step_sizes": best[2]}, what, key=key)
        return 1
    return 0


def monitor_malformed(ctx, case, mode, run, leg="monitor"):
    """malformed stream (dt = 0): an exception, never a result and never a run that does not come back"""
    ctx.monitor_evals += 1
    key = {"solver": case["solver"], "backend": "numpy" if mode == "numpy" else "numba", "input": case["malformed"]}
    err = run["error"]
    ctx.hist("malformed outcome", err["type"] if err else "result")
    if err is None or err["type"] == "TimeoutError":
        ctx.monitor_fail(leg, {"case": case, "mode": mode}, {"error": err, "segments": run["segments"]},
                         "an exception (the step count is undefined)",
                         f"{case['solver']}: step size 0 accepted", key=key)
        return 1
    return 0


def monitor_scipy(ctx, case, mode, run, leg="monitor"):
    fails = 0
    key = {"solver": "scipy", "backend": "numpy" if mode == "numpy" else "numba"}
    rec = {"case": case, "mode": mode}
    ctx.monitor_evals += 1
    if run["error"] is not None:
        ctx.monitor_fail(leg, rec, run["error"], "a result", "scipy: exception", key=key)
        return 1
    te = case["segments"][-1][1]
    r = run["segments"][-1]
    if r["t"] != te:
        ctx.monitor_fail(leg, rec, {"t_final": r["t"]}, {"t_end": te}, "scipy: final time != t_end", key=key)
        fails += 1
    if run["initial_untouched"] is False:
        ctx.monitor_fail(leg, rec, "initial state modified", "unchanged", "scipy: solve modified the initial state", key=key)
        fails += 1
    exact = None
    T = te - case["segments"][0][0]
    if case["flavour"] == "amp":
        import cmath
        exact = [cmath.exp(complex(*case["a"]) * T) * complex(*u) for u in case["u0"]]
    elif case["flavour"] == "quad":
        inc = float(_poly_int(case["b"], case["segments"][0][0], te))
        exact = [complex(*u) + inc for u in case["u0"]]
    if exact is not None:
        rtol = case["scipy_args"].get("rtol", 1e-3)
        atol = case["scipy_args"].get("atol", 1e-6)
        scale = max([abs(e) for e in exact] + [abs(complex(*u)) for u in case["u0"]])
        err = max(abs(complex(*x) - e) for x, e in zip(r["state"], exact))
        # solve_ivp controls the local error; allow 50 x (atol + rtol*scale) globally
        if not err <= 50 * (atol + rtol * scale):
            ctx.monitor_fail(leg, rec, {"error": err, "state": r["state"]},
                             {"exact": [[e.real, e.imag] for e in exact], "allowed": 50 * (atol + rtol * scale)},
                             "scipy: inaccurate result", key=key)
            fails += 1
    return fails


# =============================================================================================
# orchestration
# =============================================================================================
def is_nontrivial(case):
    zero_state = all(u[0] == 0 and u[1] == 0 for u in case["u0"])
    return not (zero_state and case["flavour"] == "amp")


def aux_cases(case):
    """one-step amplification and quadrature runs for a general-flavour fixed case"""
    if case["kind"] != "fixed" or case["flavour"] != "general":
        return {}
    t0 = case["segments"][0][0]
    base = dict(case, via="stepper", segments=[[t0, t0 + 2 * case["dt"]]])
    amp = dict(base, flavour="amp", b=[0.0, 0.0, 0.0, 0.0])
    quad = dict(base, flavour="quad", a=[0.0, 0.0])
    return {"amp": {"case": amp, "modes": ["numpy", "nojit"]}, "quad": {"case": quad, "modes": ["numpy", "nojit"]}}


# inputs on which the real code is known to miss the literal bound (adaptive Runge-Kutta: the accepted
# estimate |5th - 4th| is not a bound of the error of the returned 4th-order state; known finding,
# Props/C06.lean rkf45_estimate_is_not_a_bound).  They run first in every tier so that the finding is
# reported by every run and not only when the random sample happens to contain such a step.
CORPUS = [
    {"kind": "adaptive", "solver": "runge-kutta", "flavour": "amp", "cplx": False, "a": [-0.9375, 0.0],
     "b": [0.0, 0.0, 0.0, 0.0], "u0": [[0.9987481592594376, 0.0], [0.7377506285537212, 0.0]], "dt": 1.0,
     "tol": 1e-6, "impl": "class", "via": "solve", "segments": [[0.0, 0.25]],
     "corpus": "rkf45-estimate-is-not-a-bound/1"},
    {"kind": "adaptive", "solver": "runge-kutta", "flavour": "amp", "cplx": False, "a": [-1.3, 0.0],
     "b": [0.0, 0.0, 0.0, 0.0], "u0": [[1.0, 0.0]], "dt": 1.0, "tol": 1e-2, "impl": "class", "via": "stepper",
     "segments": [[0.0, 1.0]], "corpus": "rkf45-estimate-is-not-a-bound/2"},
    # adaptive Euler on u' = t, two accepted steps of 0.25: 0.0625 instead of 0.09375 (the rate reused by the
    # second step is evaluated at t=0 instead of t=0.25); runs on every execution mode incl. compiled
    {"kind": "adaptive", "solver": "euler", "flavour": "quad", "cplx": False, "a": [0.0, 0.0],
     "b": [0.0, 1.0, 0.0, 0.0], "u0": [[0.0, 0.0]], "dt": 0.25, "tol": 1e30, "impl": "class", "via": "solve",
     "segments": [[0.0, 0.5]], "multistep": True, "corpus": "adaptive-euler-rate-at-old-time/1"},
    {"kind": "adaptive", "solver": "euler", "flavour": "quad", "cplx": False, "a": [0.0, 0.0],
     "b": [1.0, -2.0, 3.0, 1.0], "u0": [[1.0, 0.0], [-0.75, 0.0]], "dt": 0.125, "tol": 1e30, "impl": "class",
     "via": "stepper", "segments": [[0.5, 3.125]], "multistep": True, "corpus": "adaptive-euler-rate-at-old-time/2"},
    # the same two calls for the generic loop with the step-doubling estimate (no carried rate: must hold)
    {"kind": "adaptive", "solver": "richardson", "flavour": "quad", "cplx": False, "a": [0.0, 0.0],
     "b": [1.0, -2.0, 3.0, 1.0], "u0": [[1.0, 0.0], [-0.75, 0.0]], "dt": 0.125, "tol": 1e30, "impl": "class",
     "via": "stepper", "segments": [[0.5, 3.125]], "multistep": True, "corpus": "adaptive-multistep-quadrature/richardson"},
    # an adaptive call that misses t_end: fl(t + fl(t_end - t)) < t_end after four steps, a fifth step of dt_min
    # follows and the call returns 1.7000000000999997
    {"kind": "adaptive", "solver": "richardson", "flavour": "amp", "cplx": False, "a": [-0.5, 0.0],
     "b": [0.0, 0.0, 0.0, 0.0], "u0": [[1.0, 0.0]], "dt": 0.02, "tol": 1e30, "impl": "class", "via": "solve",
     "segments": [[0.0, 1.7]], "corpus": "adaptive-end-beyond-t_end/1"},
    # Euler step doubling with a complex rate, Re a < 0: one accepted step (estimate |z|^2/4 = 0.062515 <= tol)
    # whose error 0.06306 exceeds 1 x tolerance
    {"kind": "adaptive", "solver": "euler", "flavour": "amp", "cplx": True, "a": [-0.015625, 1.0],
     "b": [0.0, 0.0, 0.0, 0.0], "u0": [[1.0, 0.0]], "dt": 0.5, "tol": 0.0626, "impl": "class", "via": "stepper",
     "segments": [[0.0, 0.5]], "corpus": "step-doubling-estimate-is-not-a-bound-for-complex-rates/euler"},
    {"kind": "adaptive", "solver": "richardson", "flavour": "amp", "cplx": True, "a": [-0.015625, 1.0],
     "b": [0.0, 0.0, 0.0, 0.0], "u0": [[1.0, 0.0]], "dt": 0.5, "tol": 0.0626, "impl": "class", "via": "solve",
     "segments": [[0.0, 0.5]], "corpus": "step-doubling-estimate-is-not-a-bound-for-complex-rates/richardson"},
]


def generate(ctx):
    rng = ctx.rng
    n_fixed = ctx.budget(900, 9000)
    n_adapt = ctx.budget(240, 2400)
    n_scipy = ctx.budget(40, 300)
    n_jit_fixed = ctx.budget(66, 700)
    n_jit_adapt = ctx.budget(30, 260)
    n_jit_scipy = ctx.budget(4, 40)
    tasks = [{"case": dict(c), "modes": ["numpy", "nojit"], "aux": {}} for c in CORPUS]
    for c in CORPUS:
        ctx.hist("corpus", c["corpus"])
    for i in range(n_fixed):
        solver = FIXED_SOLVERS[i % 5]
        case = gen_fixed(rng, solver, ctx.hist)
        tasks.append({"case": case, "modes": ["numpy", "nojit"], "aux": aux_cases(case)})
    for i in range(n_adapt):
        solver = ADAPTIVE_SOLVERS[i % 3]
        tasks.append({"case": gen_adaptive(rng, solver, ctx.hist), "modes": ["numpy", "nojit"], "aux": {}})
    for i in range(n_scipy):
        tasks.append({"case": gen_scipy(rng, ctx.hist), "modes": ["numpy", "nojit"], "aux": {}})
    # malformed stream: a vanishing step size.  Expected outcome: an exception before any step is taken
    # (the step count divides by dt), the state untouched.  The model is total (x/0 = 0) and is not
    # consulted here: its theorems speak about dt > 0 only where they say so.
    for solver in FIXED_SOLVERS:
        for via in ("stepper", "solve"):
            a, b, u0 = gen_equation(rng, "general", False, ctx.hist)
            tasks.append({"case": {"kind": "malformed", "solver": solver, "flavour": "general", "cplx": False, "a": a,
                                   "b": b, "u0": u0, "dt": 0.0, "impl": "class", "via": via, "maxiter": 100,
                                   "maxerror": 1e-4, "alpha": 0.0, "segments": [[0.0, 1.0]], "malformed": "dt=0"},
                          "modes": ["numpy", "nojit"], "aux": {}})
    # JIT subset: stratified over solvers
    def pick(kind, n, names):
        per = {s: [t for t in tasks if t["case"]["kind"] == kind and t["case"]["solver"] == s] for s in names}
        chosen = []
        k = 0
        while len(chosen) < n and any(per.values()):
            s = names[k % len(names)]
            k += 1
            if per[s]:
                chosen.append(per[s].pop(rng.randrange(len(per[s]))))
        return chosen
    jit = pick("fixed", n_jit_fixed, FIXED_SOLVERS) + pick("adaptive", n_jit_adapt, ADAPTIVE_SOLVERS) \
        + pick("scipy", n_jit_scipy, ["scipy"])
    for i, t in enumerate(tasks):
        t["id"] = i
    for t in jit + tasks[: len(CORPUS)]:
        t["jit"] = True
    return tasks


def execute(ctx, tasks):
    """real executions (two pools) and the model, concurrently"""
    from concurrent.futures import ThreadPoolExecutor
    from harness.common.isolated import run_many
    from harness.common.lean import LeanBatch

    base_env = {"NUMBA_NUM_THREADS": "1", "OMP_NUM_THREADS": "1", "MKL_NUM_THREADS": "1",
                "OPENBLAS_NUM_THREADS": "1", "PYTHONWARNINGS": "ignore"}
    nojit_tasks = [{"id": "targeted", "targeted": True}] + \
        [{"id": t["id"], "case": t["case"], "modes": t["modes"], "aux": t["aux"]} for t in tasks]
    jit_tasks = [{"id": t["id"], "case": t["case"], "modes": ["jit"], "aux": {}} for t in tasks if t.get("jit")]
    # order the JIT tasks so that every process gets a similar mix
    wd1 = os.path.join(ctx.workdir, "pool_nojit")
    wd2 = os.path.join(ctx.workdir, "pool_jit")

    n_py, n_jit, n_lean = ctx.budget((4, 9, 3), (5, 9, 2))
    batch = _ParallelBatch(ctx.workdir, n_lean)
    index = {}
    for t in tasks:
        c = t["case"]
        if c["kind"] == "fixed":
            index[(t["id"], "numpy")] = batch.add("c06.fixed", model_request_fixed(c, "numpy"))
            index[(t["id"], "steps")] = batch.add("c06.steps", model_request_steps(c))
            if c["solver"] == "adams-bashforth":
                index[(t["id"], "numba")] = batch.add("c06.fixed", model_request_fixed(c, "numba"))
        elif c["kind"] == "adaptive" and not c["cplx"]:
            index[(t["id"], "numpy")] = batch.add("c06.adaptive", model_request_adaptive(c))
    index["constants"] = batch.add("c06.constants", {})

    import time

    def timed(name, fn, *a):
        t0 = time.time()
        try:
            return fn(*a)
        finally:
            ctx.extra.setdefault("wall_s_parts", {})[name] = round(time.time() - t0, 1)

    with ThreadPoolExecutor(3) as ex:
        f1 = ex.submit(timed, "python_execution_pool", run_many, "harness.c06", "worker",
                       _interleave(nojit_tasks, n_py), dict(base_env, NUMBA_DISABLE_JIT="1"), n_py, wd1)
        f2 = ex.submit(timed, "jit_pool", run_many, "harness.c06", "worker", _interleave(jit_tasks, n_jit),
                       base_env, n_jit, wd2)
        f3 = ex.submit(timed, "lean_model", batch.run)
        r1, r2 = f1.result(), f2.result()
        try:
            answers = f3.result()
        except Exception as e:  # noqa: BLE001  the monitors below do not need the model
            answers = None
            ctx.extra["model_driver"] = f"failed: {str(e)[-400:]}"
    runs = {}
    from harness.common.lean import BrokenCheck
    for r in list(r1) + list(r2):
        if isinstance(r, str):
            raise BrokenCheck("worker failed:\n" + r)
        runs.setdefault(r["id"], {}).update(r["runs"])
    return runs, answers, index


class _ParallelBatch:
    """several model drivers side by side (the exact model of the implicit schemes is the
    slowest part of the check)"""

    def __init__(self, workdir, n):
        from harness.common.lean import LeanBatch

        self.parts = [LeanBatch(workdir) for _ in range(n)]
        self.where = []

    def add(self, fn, args):
        k = len(self.where) % len(self.parts)
        self.where.append((k, self.parts[k].add(fn, args)))
        return len(self.where) - 1

    def run(self):
        from concurrent.futures import ThreadPoolExecutor

        with ThreadPoolExecutor(len(self.parts)) as ex:
            res = list(ex.map(lambda b: b.run(), self.parts))
        return [res[k][i] for k, i in self.where]


def _interleave(xs, n):
    """reorder so that run_many's contiguous chunks each get every n-th task"""
    if not xs:
        return xs
    cols = [xs[i::n] for i in range(n)]
    return [x for c in cols for x in c]


def evaluate(ctx, tasks, runs, answers, index):
    from harness.common.lean import BrokenCheck

    have_model = answers is not None
    if have_model:
        st, consts = answers[index["constants"]]
        if st != "ok":
            raise BrokenCheck(f"driver constants: {consts}")
        extracted = ctx.extra.get("e1_constants")
        if extracted is not None and {k: str(Fraction(v)) for k, v in consts.items()} != extracted:
            raise BrokenCheck("the model driver was not built from the freshly extracted constants")
    for t in tasks:
        case, tid = t["case"], t["id"]
        rr = runs.get(tid, {})
        kind = case["kind"]
        leg = f"{kind}:{case['solver']}"
        ctx.count({k: v for k, v in case.items()}, nontrivial=is_nontrivial(case), leg=leg)
        ctx.hist("solver", leg)
        ctx.hist("flavour", case["flavour"] + ("/complex" if case["cplx"] else "/real"))
        ctx.hist("impl", case["impl"] + "/" + case["via"])
        modes = [m for m in ("numpy", "nojit", "jit") if m in rr]
        for m in modes:
            ctx.hist("mode", m)
        if "jit" in modes:
            ctx.hist("jit leg: solver x flavour", f"{leg}/{case['flavour']}" + ("/complex" if case["cplx"] else ""))
        if kind == "fixed":
            for m in modes:
                key = (tid, "numba" if (m != "numpy" and case["solver"] == "adams-bashforth") else "numpy")
                stt, val = answers[index[key]] if have_model else ("skip", None)
                ctx.impl_traces += 1 if have_model else 0
                if stt == "skip":
                    pass
                elif stt != "ok":
                    ctx.disagree("correspondence:" + leg, {"case": case, "mode": m}, f"model error: {val}", None)
                else:
                    fst, fval = answers[index[(tid, "steps")]]
                    if fst != "ok":
                        raise BrokenCheck(f"c06.steps: {fval}")
                    compare_steps(ctx, case, m, rr[m], fval, "correspondence:" + leg)
                    msegs, merr = decode_model_fixed(case, val)
                    compare_times(ctx, case, m, rr[m], val, "correspondence:" + leg)
                    if compare_fixed(ctx, case, m, rr[m], msegs, merr, "correspondence:" + leg,
                                     [x[0] for x in fval]):
                        # iteration counts of the implicit schemes against the model's convergence test
                        if rr[m]["calls"] is not None and case["via"] == "stepper" and rr[m]["error"] is None \
                                and case["solver"] in ("implicit", "crank-nicolson"):
                            ss = cumulative_steps(rr[m]["segments"])
                            bad, its = parse_fixed_calls(case, case["segments"], ss, rr[m]["calls"],
                                                         [s["ncalls"] for s in rr[m]["segments"]])
                            mits = [k for s in msegs for k in s["iters"]]
                            umax = max([abs(complex(*u)) for u in case["u0"]]
                                       + [abs(complex(*u)) for s in msegs for u in s["state"]])
                            if not bad and its != mits and case["maxerror"] <= 1e5 * 2.2e-16 * umax:
                                # the absolute threshold is within 1e5 ulp of the state: the float differences of
                                # successive iterates carry rounding noise that decides near-ties differently
                                ctx.hist("implicit-iteration-count", "differs; threshold within float resolution of the state")
                            elif not bad and its != mits:
                                ctx.disagree("correspondence:" + leg, {"case": case, "mode": m}, {"iterations": mits},
                                             {"iterations": its}, "iteration counts of the fixed-point loop")
                            elif not bad:
                                ctx.hist("implicit-iteration-count", "equal to the model's")
                                ctx.hist("implicit-iterations", min(its + [99]) if its else "-")
                aux = {tag: {"case": a["case"], "run": rr.get(f"{m}/{tag}")} for tag, a in t["aux"].items()
                       if f"{m}/{tag}" in rr}
                monitor_fixed(ctx, case, m, rr[m], aux)
        elif kind == "adaptive":
            for m in modes:
                mval, agrees = None, False
                if not case["cplx"] and have_model:
                    stt, val = answers[index[(tid, "numpy")]]
                    ctx.impl_traces += 1
                    if stt != "ok":
                        ctx.disagree("correspondence:" + leg, {"case": case, "mode": m}, f"model error: {val}", None)
                    else:
                        mval = val
                        agrees = bool(compare_adaptive(ctx, case, m, rr[m], val, "correspondence:" + leg))
                monitor_adaptive(ctx, case, m, rr[m], dts=accepted_dts(case, rr[m], mval, agrees))
        elif kind == "malformed":
            for m in modes:
                monitor_malformed(ctx, case, m, rr[m])
            continue
        else:
            for m in modes:
                monitor_scipy(ctx, case, m, rr[m])
        monitor_agreement(ctx, case, rr)


def run(ctx):
    from harness.common.lean import BrokenCheck

    tasks = generate(ctx)
    runs, answers, index = execute(ctx, tasks)
    tg = runs.pop("targeted", None)
    if tg:
        ctx.monitor_evals += tg["evals"]
        ctx.monitor_failures.extend(tg["failures"])
        ctx.hist("targeted-monitors", "evaluations", tg["evals"])
    evaluate(ctx, tasks, runs, answers, index)
    ctx.disagreements.sort(key=lambda d: len(str(d["case"])))
    ctx.monitor_failures.sort(key=lambda d: len(str(d["case"])))
    import collections
    if ctx.monitor_failures:
        ctx.extra["monitor_failure_kinds"] = dict(collections.Counter(m["what"] for m in ctx.monitor_failures))
    if ctx.disagreements:
        ctx.extra["disagreement_kinds"] = dict(collections.Counter(
            f"{d['leg']}: {str(d['note'])[:60]}" for d in ctx.disagreements))
    if answers is None:
        raise BrokenCheck("model driver: " + ctx.extra.get("model_driver", "failed"))


# =============================================================================================
# failing-input search and replay
# =============================================================================================
def _search_cases(rng):
    """small, simple cases that expose a wrong coefficient / stage time directly: one or two
    steps, one cell, dyadic numbers"""
    cases = []
    for solver in FIXED_SOLVERS:
        for flavour in ("amp", "quad"):
            for cplx in (False, True) if flavour == "amp" else (False,):
                a = [0.0, 0.0] if flavour == "quad" else ([-0.5, 0.75] if cplx else [-0.5, 0.0])
                b = [0.0] * 4 if flavour == "amp" else [1.0, -2.0, 3.0, 1.0]
                for n in (1, 2, 5):
                    for t0 in (0.0, 0.5):
                        cases.append({"kind": "fixed", "solver": solver, "flavour": flavour, "cplx": cplx, "a": a,
                                      "b": b, "u0": [[1.0, 0.0]], "dt": 0.25, "impl": "class", "via": "stepper",
                                      "maxiter": 100, "maxerror": 1e-8, "alpha": 0.0,
                                      "segments": [[t0, t0 + n * 0.25]]})
    return cases


def onestep_adaptive_cases():
    """adaptive runs that consist of exactly one accepted step of size h (huge tolerance):
    the real stepper then returns the one-step map of the estimator"""
    cases = []
    for solver in ADAPTIVE_SOLVERS:
        for flavour, a, b in (("amp", [-0.5, 0.0], [0.0] * 4), ("amp", [-1.25, 0.0], [0.0] * 4),
                              ("quad", [0.0, 0.0], [1.0, -2.0, 3.0, 1.0])):
            for h in (0.25, 0.5):
                for t0 in (0.0, 0.5):
                    cases.append({"kind": "adaptive", "solver": solver, "flavour": flavour, "cplx": False, "a": a,
                                  "b": b, "u0": [[1.0, 0.0], [-0.75, 0.0]], "dt": h, "tol": 1e30, "impl": "class",
                                  "via": "stepper", "segments": [[t0, t0 + h]], "onestep": True})
    return cases


def expected_onestep(case):
    """exact result of one step of the error-estimating single step"""
    h = Fraction(case["segments"][0][1]) - Fraction(case["segments"][0][0])
    t0 = Fraction(case["segments"][0][0])
    us = [Fraction(u[0]) for u in case["u0"]]
    solver = case["solver"]
    if case["flavour"] == "amp":
        z = Fraction(case["a"][0]) * h
        if solver == "runge-kutta":
            f = 1 + z + z ** 2 / 2 + z ** 3 / 6 + z ** 4 / 24 + z ** 5 / 104
        else:
            f = (1 + z / 2) ** 2
        return [f * u for u in us]
    b = case["b"]
    if solver == "runge-kutta":
        inc = _poly_int(b, t0, t0 + h)
    elif solver == "richardson":
        inc = h / 2 * (_poly(b, t0) + _poly(b, t0 + h / 2))
    else:  # adaptive Euler: first half step with the rate at t_start, second with the midpoint rate
        inc = h / 2 * (_poly(b, t0) + _poly(b, t0 + h / 2))
    return [u + inc for u in us]


def monitor_onestep(ctx, case, mode, run, leg="monitor"):
    ctx.monitor_evals += 1
    key = {"solver": case["solver"], "backend": "numpy" if mode == "numpy" else "numba", "stepping": "adaptive"}
    rec = {"case": case, "mode": mode}
    if run["error"] is not None or run["segments"][0]["steps"] != 1:
        ctx.monitor_fail(leg, rec, {"error": run["error"], "segments": run["segments"]}, "one accepted step",
                         f"adaptive {case['solver']}: single step with huge tolerance", key=key)
        return 1
    exp = [float(x) for x in expected_onestep(case)]
    obs = [x[0] for x in run["segments"][0]["state"]]
    scale = max([abs(x) for x in exp] + [1.0])
    if not max(abs(x - y) for x, y in zip(exp, obs)) <= 1e-12 * scale:
        what = ("amplification factor of the error-estimating step on u'=a*u" if case["flavour"] == "amp"
                else "quadrature identity of the error-estimating step on u'=g(t)")
        ctx.monitor_fail(leg, rec, {"state": obs}, {"state": exp}, f"adaptive {case['solver']}: {what}", key=key)
        return 1
    return 0


def estimate_cases():
    """two-step adaptive runs whose saved time step reveals the error estimate of the first step"""
    cases = []
    for solver in ADAPTIVE_SOLVERS:
        for a, h in ((-1.0, 0.5), (-2.0, 0.25), (-0.5, 0.5)):
            z = a * h
            est = abs(z ** 5 * (1 / 120 - 1 / 104) + z ** 6 / 2080) if solver == "runge-kutta" else z * z / 4
            tol = est / 0.3   # error_rel = 0.3: accepted, dt scaled by 0.9 * 0.3**-0.2
            cases.append({"kind": "adaptive", "solver": solver, "flavour": "amp", "cplx": False, "a": [a, 0.0],
                          "b": [0.0] * 4, "u0": [[1.0, 0.0]], "dt": h, "tol": tol, "impl": "class",
                          "via": "stepper", "segments": [[0.0, h], [h, 1e3]], "estimate": True})
    return cases


def _exec_local(case, mode="numpy", segments=None):
    t = {"case": case, "mode": mode}
    if segments is not None:
        t["segments"] = segments
    return exec_case(t)


def monitor_estimate(ctx, case, mode, leg="monitor", run=None):
    """error estimate of one step on u' = a u, read back from the step-size controller:
    after an accepted first step with error_rel in (small, 1) the next step is
    dt * 0.9 * error_rel**-0.2"""
    ctx.monitor_evals += 1
    key = {"solver": case["solver"], "backend": "numpy" if mode == "numpy" else "numba", "stepping": "adaptive"}
    h = case["dt"]
    # a call that needs two steps: the first one (size h) is followed by an adjustment
    if run is None:
        run = _exec_local(case, mode, segments=[[0.0, 2.5 * h]])
    rec = {"case": dict(case, segments=[[0.0, 2.5 * h]]), "mode": mode}
    if run["error"] is not None or not run["calls"]:
        ctx.monitor_fail(leg, rec, run["error"], "a result", f"adaptive {case['solver']}: exception", key=key)
        return 1
    bad, traces = parse_adaptive_calls(rec["case"], run)
    if bad or len(traces[0]) < 2 or not traces[0][0][2]:
        ctx.monitor_fail(leg, rec, {"trace": traces, "problem": bad}, "first step of size dt accepted",
                         f"adaptive {case['solver']}: first step not accepted at error_rel=0.3", key=key)
        return 1
    h2 = traces[0][1][1]
    err_rel = (h2 / (0.9 * h)) ** -5
    if not abs(err_rel - 0.3) <= 1e-6:
        z = case["a"][0] * h
        ctx.monitor_fail(leg, rec, {"second_step": h2, "error_rel_read_back": err_rel, "error": err_rel * case["tol"]},
                         {"error_rel": 0.3, "error": 0.3 * case["tol"], "z": z},
                         f"adaptive {case['solver']}: step after an accepted step is not dt*0.9*error_rel**-0.2 with "
                         f"error = |high order - low order| on u'=a*u", key=key)
        return 1
    return 0


def targeted_monitors(ctx):
    """monitors on the real solvers that pin the coefficients one by one (cheap; python execution)"""
    fails = 0
    import numba as nb

    modes = ["numpy"] + (["nojit"] if nb.config.DISABLE_JIT else [])
    for case in _search_cases(ctx.rng):
        for mode in modes:
            run = _exec_local(case, mode)
            fails += monitor_fixed(ctx, case, mode, run, {})
    for case in onestep_adaptive_cases():
        for mode in modes:
            fails += monitor_onestep(ctx, case, mode, _exec_local(case, mode))
    for case in estimate_cases():
        for mode in modes:
            fails += monitor_estimate(ctx, case, mode)
    for case in multistep_adaptive_cases():
        for mode in modes:
            fails += monitor_adaptive(ctx, case, mode, _exec_local(case, mode))
    return fails


def targeted_worker(_arg):
    """runs `targeted_monitors` in a fresh interpreter (NUMBA_DISABLE_JIT=1) and returns the failures"""
    from harness.common.context import Ctx

    c = Ctx(PID, "quick", 0, os.environ.get("VERIF_WORKDIR", "."))
    targeted_monitors(c)
    return {"failures": c.monitor_failures, "evals": c.monitor_evals}


def search(ctx, broken):
    """failing-input search after a broken tie (generated obligation or correspondence): the
    targeted monitors on the real solvers, then the monitors of the disagreeing cases"""
    from harness.common.isolated import run_one

    env = {"NUMBA_DISABLE_JIT": "1", "PYTHONWARNINGS": "ignore", "NUMBA_NUM_THREADS": "1"}
    res = run_one("harness.c06", "targeted_worker", None, env=env)
    if isinstance(res, str):
        ctx.note("targeted search failed: " + res[-300:])
        res = {"failures": [], "evals": 0}
    ctx.monitor_evals += res["evals"]
    found = list(res["failures"])
    if not found:
        # fresh structured sample of the same generators, monitors only (python execution)
        from harness.common.context import Ctx
        from harness.common.isolated import run_many

        c2 = Ctx(PID, ctx.tier, ctx.seed, ctx.workdir)
        c2.rng = ctx.sub_rng("search")
        tasks = []
        for i in range(ctx.budget(2000, 6000)):
            tasks.append({"case": gen_fixed(c2.rng, FIXED_SOLVERS[i % 5], c2.hist), "modes": ["numpy", "nojit"]})
        for i in range(ctx.budget(400, 1200)):
            tasks.append({"case": gen_adaptive(c2.rng, ADAPTIVE_SOLVERS[i % 3], c2.hist), "modes": ["numpy", "nojit"]})
        for i, t in enumerate(tasks):
            t["id"] = i
            t["aux"] = aux_cases(t["case"])
        rs = run_many("harness.c06", "worker", _interleave(tasks, 12), env, 12,
                      os.path.join(ctx.workdir, "pool_search"))
        runs = {}
        for r in rs:
            if not isinstance(r, str):
                runs.setdefault(r["id"], {}).update(r["runs"])
        evaluate(c2, tasks, runs, None, {})
        ctx.monitor_evals += c2.monitor_evals
        found = c2.monitor_failures
    return sorted(found, key=lambda d: len(str(d["case"])))


# monitor failures after which the monitor of a case stops: the checks behind them were not evaluated
PREEMPTING = ("exception", "number of steps !=", "returned time !=", "rate evaluated at wrong stage times",
              "final time not at t_end", "reported steps != accepted iterations", "do not cover the interval",
              "single step with huge tolerance", "first step not accepted")


def replay(ctx, rep):
    """Re-runs the recorded case in the recorded execution mode (numpy backend / source of the numba
    loops with NUMBA_DISABLE_JIT=1 / compiled numba loops in an interpreter with the JIT enabled; the
    numpy run is added as the reference of the backend-agreement monitor) and judges the recorded
    symptom: False iff the monitor failure of the file (`what`) occurs again, or a failure occurs that
    stops the monitor before the recorded check."""
    from harness.common.context import Ctx
    from harness.common.isolated import run_one

    rec = rep.get("case")
    if not isinstance(rec, dict) or "case" not in rec:
        print("this replay file records no case (broken model/code tie or generated proof obligation without a "
              "failing input): nothing to re-run on the real code -> counted as still failing; re-run ./check C06")
        return False
    case, mode = rec["case"], rec.get("mode", "numpy")
    what = rep.get("what")
    base_env = {"NUMBA_NUM_THREADS": "1", "OMP_NUM_THREADS": "1", "PYTHONWARNINGS": "ignore"}
    runs, aux, est = {}, {}, {}
    plan = [(["numpy"] + (["nojit"] if mode == "nojit" else []), dict(base_env, NUMBA_DISABLE_JIT="1"))]
    if mode == "jit":
        plan.append((["jit"], dict(base_env, NUMBA_DISABLE_JIT="0")))
    for modes, env in plan:
        res = run_one("harness.c06", "replay_worker", {"case": case, "modes": modes}, env=env)
        if isinstance(res, str):
            print("the recorded case could not be executed:\n" + res[-1500:])
            return False
        runs.update(res["runs"])
        aux.update(res["aux"])
        est.update(res["estimate"])
    c = Ctx(PID, "quick", 0, ctx.workdir)
    print(f"recorded: mode={mode} what={what!r}")
    if case.get("estimate"):
        monitor_estimate(c, case, mode, run=est[mode])
    else:
        run = runs[mode]
        print(f"{mode}: {run['segments']} error={run['error']}")
        if case.get("onestep"):
            monitor_onestep(c, case, mode, run)
        elif case["kind"] == "fixed":
            monitor_fixed(c, case, mode, run, aux.get(mode, {}))
        elif case["kind"] == "adaptive":
            monitor_adaptive(c, case, mode, run, dts=accepted_dts(case, run))
        elif case["kind"] == "malformed":
            monitor_malformed(c, case, mode, run)
        else:
            monitor_scipy(c, case, mode, run)
        if mode != "numpy" and case["kind"] != "malformed":
            monitor_agreement(c, case, {"numpy": runs["numpy"], mode: run})
    same = [mf for mf in c.monitor_failures if what is None or mf["what"] == what]
    other = [mf for mf in c.monitor_failures if mf not in same]
    stops = [mf for mf in other if any(p in mf["what"] for p in PREEMPTING)]
    for mf in same:
        print(f"recorded symptom occurs again: {mf['what']}: observed {mf['observed']} expected {mf['expected']}")
    for mf in stops:
        print(f"the monitor stops before the recorded check: {mf['what']}: observed {mf['observed']} "
              f"expected {mf['expected']}")
    for mf in other:
        if mf not in stops:
            print(f"(another monitor failure of this case, not the recorded symptom: {mf['what']})")
    if not same and not stops:
        print("the recorded symptom does not occur")
    return not same and not stops


def replay_worker(arg):
    """executes the case (and what its monitors need besides) in the given modes of this interpreter"""
    case = arg["case"]
    out = {"runs": {}, "aux": {}, "estimate": {}}
    for m in arg["modes"]:
        if case.get("estimate"):
            out["estimate"][m] = _exec_local(case, m, segments=[[0.0, 2.5 * case["dt"]]])
            continue
        out["runs"][m] = _exec_local(case, m)
        if case["kind"] == "fixed":
            out["aux"][m] = {tag: {"case": a["case"], "run": _exec_local(a["case"], m)}
                             for tag, a in aux_cases(case).items() if m in a["modes"]}
    return out
