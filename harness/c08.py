"""C08 - trackers fire exactly once per scheduled time, in order, even when stopping.

Same real runs and the same Lean controller model as C07 (`c07.run`), with stop requests
(`StopIteration` / `FinishedSimulation`, with and without message) injected at (tracker, call)
positions chosen from the trace of a first, stop-free run: random calls, calls at a time where
several trackers are due together (first / last / all of them raise), calls of the final handle,
the very first call, calls that are never reached, several stops at different times.
Compared with the model: full event trace, `t_final`, `steps`, final state, `stop_reason`,
`successful`, finalize calls, `MemoryStorage.times/data`, `DataTracker.times/data`, pending action
times.  Monitor (every real run): per-tracker strictly increasing times on the step lattice with the
state after n steps (own copy of the solver's scheme; equations as in C07, incl. the state-dependent
ones), constant schedules with D >= dt served exactly once within dt/2, the frame count clauses of
the statement literally (floor(T/D)+1 on a whole number of steps; otherwise at most one more, at the
final time), "exactly at it" for every tracker of an adaptive / exact stepper, recorded frames =
calls, stop handling (all due trackers served, run ends at the stop time with the state of that time,
reason of the last raising tracker reported, every tracker finalised once).  Where the unchanged code
deviates from a literal clause the monitor recognises the corner on the data of the failing run and
names it in the key (ctrl.KNOWN_CORNERS); nothing is keyed by the leg it was found in.
Non-constant schedules (round-2 seed C08-3, review finding 6): three runs in ten start exactly ON a scheduled time of
a geometric schedule (t_start = scale*factor**k, k = 0 included; also written as the string 'geometric(1, 2)'), of
a logarithmic schedule or on an entry of a fixed list (sorted / dense / repeated / out of order; list, tuple,
array), time strings ('0:01' -> RealtimeInterrupts) are used as interrupts, and `ctrl.monitor_schedule` judges the
clause "every scheduled time in [t_start, t_end] is served exactly once, in order, within dt/2, the first one AT
t_start when t_start is scheduled" against the schedule's defining set for fixed-list, geometric and logarithmic
schedules."""
import copy
import math
import json

from harness.common import ctrl

PID = "C08"
LEVEL = "proof"
REQUIRED_THEOREMS = [
    "trace_sorted", "handle_times_strictly_increasing", "handle_times_on_lattice", "handled_state_is_iterate",
    "pending_window_invariant", "served_exactly_once_within_half_step", "frame_count", "frame_count_floor",
    "frame_count_general", "storage_frame_count", "served_exactly_once_constant_interrupts", "recorded_frames_are_calls",
    "stop_serves_all_due", "final_stop_serves_all_due", "stop_ends_at_stop_time", "stop_reason_reported",
    "all_finalized", "corner_scheduled_time_at_t_end_missed", "extra_frame_not_at_final_time",
    "frame_count_whole_range_sliver", "sliver_frame_on_whole_range",
    "adaptive_served_exactly_partial", "adaptive_served_exactly_run_partial", "adaptive_two_trackers_served_early",
    "seq_window_invariant", "served_exactly_once_sequence", "first_call_at_t_start", "sched_fixed_seqLike",
    "sched_log_seqLike", "sched_geom_seqLike", "fixed_list_served_exactly_once", "logarithmic_served_exactly_once",
    "geometric_served_exactly_once",
    # Props/C08b.lean (theorem-gap round)
    "frame_count_floor_iff", "scheduled_time_at_t_end_served_iff", "scheduled_times_up_to_t_end_served_whole_range",
    "adaptiveStepper_lands", "adaptive_served_exactly_up_to_dtmin", "adaptive_served_exactly_run",
    "adaptive_overshoot_by_dtmin", "adaptive_never_late_among_trackers", "adaptive_never_late_run",
]
EXTRA_PROP_FILES = ["C08b"]  # frame count iff, scheduled time at t_end, adaptive steppers (Model/Adaptive.lean)
MIN_LEGS = {"adaptive-model": 30}
RULE = ("pairs of runs (stop-free, then with injected stop requests placed on calls of the stop-free trace) "
        "with 1-4 trackers (callback / StorageTracker+MemoryStorage / DataTracker; constant, fixed, logarithmic, "
        "geometric, adversarial oracle schedules, time strings; several trackers due together; D/dt in {0.25..10, x.5 ties, "
        "non-commensurate}); 30 % of the runs start exactly on a scheduled time of a geometric (t_start = "
        "scale*factor**k, k >= 0, exact products in dyadic mode, the code's own float product in decimal mode; half of "
        "them given as the string 'geometric(a, b)'), logarithmic (own t_start ==, < the run's or omitted) or "
        "fixed-list schedule (t_start an entry; sorted, dense, repeated, unsorted, entries before the start; list / "
        "tuple / array through parse_interrupt); dyadic numbers compared exactly with the Rat model, decimal numbers bit-exactly with "
        "the Float model; a run is distinct by its full case record and non-trivial if it takes >= 2 steps and "
        "makes >= 2 tracker calls")
ASSUMPTIONS = [
    "theorems are about exact field arithmetic; the Float instantiation of the same definitions is replayed bit for bit",
    "GeometricInterrupts answers (libm log/pow) are replayed as an oracle schedule in Float mode and at float ties",
    "served-exactly-once is proved for constant schedules (D >= dt) and for every schedule whose scheduled times are "
    "at least dt apart (served_exactly_once_sequence; instances: fixed lists, logarithmic with d0 >= dt, geometric from "
    "the member where the gaps have reached dt); the frame-count clauses are proved for constant schedules only",
    "schedules with members closer than dt (dense / repeated list entries, the early part of a geometric sequence) and "
    "lists that are not increasing are judged by the monitor against C09's definition of the schedule - the pending "
    "time is the first not-yet-passed member after the one served last, for a list in list order - : members the "
    "schedule passes over are not served (properties.jsonl C09: `the first not-yet-passed element of the given "
    "increasing list`); logarithmic schedules with d0 < dt (history-dependent catch-up) and wall-clock schedules have "
    "no history-independent defining set: general clauses only (+ first call at t_start for time strings)",
    "`exactly at it for adaptive steppers` is judged for trackers whose schedule is t_start + k*D (the statement's "
    "schedule); a tracker with an own start offset less than dt/2 after t_start is served at t_start",
    "adaptive steppers (Model/Adaptive.lean, handler c08.adaptive): the inner loop of adaptive_stepper (clipping of the "
    "step to the next tracker time, landing on it, dt_min) and the controller loop whose tolerances follow the current dt "
    "are modelled and replayed bit for bit; what the error estimator decides per attempt (accepted?, time step proposed "
    "by adjust_dt) is recorded from the real run and given to the model as an oracle; the state between tracker times "
    "is that of u' = 1 (compared for that equation only)",
]
TRUSTED_EXTRA = ["IEEE double arithmetic of Lean's Float equals CPython/numpy/numba float64 for + - * / floor"]

MSGS = ["", "", "done", "converged", "Field was not finite"]


def gen_case(rng, hist, exec_mode, max_steps):
    # under JIT only dyadic numbers have a bit-exact reference (see ctrl.resolve): favour them there
    numbers = rng.choice(["Q", "F"]) if exec_mode != "numba-J" else rng.choice(["Q", "Q", "Q", "F"])
    anchor = None
    if rng.random() < 0.3:
        # the run starts exactly on a scheduled time of a geometric / logarithmic / fixed-list schedule
        dt = ctrl.dyadic(rng, 1, 24, 6) if numbers == "Q" else rng.choice(ctrl.DECIMAL_DT)
        anchor = ctrl.gen_anchor(rng, numbers, dt, hist)
        dt, t0, t1, N, delta = ctrl.gen_range(rng, numbers, hist, max_steps, dt, anchor[1])
    else:
        dt, t0, t1, N, delta = ctrl.gen_base(rng, numbers, hist, max_steps)
    eq, a, u0 = ctrl.gen_equation(rng, numbers, dt, t0, t1, hist, state_dependent=0.4)
    solver = "euler" if rng.random() < 0.7 else rng.choice(ctrl.FIXED_SOLVERS[1:])
    n = rng.choice([1, 1, 2, 2, 3, 3, 4])
    trs = ctrl.gen_trackers(rng, numbers, dt, t0, t1, hist, n=n)
    for tr in trs:
        # fixed lists of every shape the constructor accepts: out of order, entries closer than dt, repeated entries
        pts = tr["sched"].get("interrupts") if tr["sched"]["kind"] == "fixed" else None
        if pts and len(pts) >= 2 and rng.random() < 0.3:
            style = rng.choice(["unsorted", "dense", "duplicates"])
            pts = list(pts)
            if style == "unsorted":
                rng.shuffle(pts)
            else:
                j = rng.randrange(len(pts))
                off = 0.0 if style == "duplicates" else rng.choice([0.25, 0.5, 0.125, 0.75] if numbers == "Q" else [0.3, 0.5, 0.1, 1e-7]) * dt
                pts.insert(j + 1, pts[j] + off)
                pts.sort()
            tr["sched"] = dict(tr["sched"], interrupts=pts)
            hist("fixed list shape", style)
    if anchor is None and rng.random() < 0.5:
        # favour the case the property singles out: a storage-like tracker with constant interval D >= dt
        ratios = [r for r in (ctrl.RATIOS_Q if numbers == "Q" else ctrl.RATIOS_F) if r >= 1]
        trs[0] = {"kind": rng.choice(["storage", "data", "callback"]),
                  "sched": {"kind": "constant", "dt": rng.choice(ratios) * dt, "t_start": None}, "stops": [],
                  "via_parse": rng.random() < 0.3}
        hist("tracker", "constant D>=dt (forced)")
    if anchor is not None:
        sched, _t0, via_parse, label = anchor
        trs[rng.randrange(len(trs))] = {"kind": rng.choice(["storage", "data", "callback", "storage"]), "sched": sched,
                                        "stops": [], "via_parse": via_parse}
        hist("tracker", "start on a scheduled time: " + sched["kind"] + (" (string / sequence via parse_interrupt)" if via_parse else ""))
    if numbers == "F" and rng.random() < 0.06:
        # an interrupt given as a time string: RealtimeInterrupts (wall clock), first call at t_start
        trs[rng.randrange(len(trs))] = {"kind": rng.choice(["storage", "callback"]), "stops": [],
                                        "sched": {"kind": "realtime", "duration": rng.choice(ctrl.REALTIME_STRINGS)}}
        hist("tracker", "time string (RealtimeInterrupts)")
    hist("numbers", "dyadic" if numbers == "Q" else "decimal")
    hist("solver", solver)
    hist("exec", exec_mode)
    return {"numbers": numbers, "dt": dt, "t_start": t0, "t_end": t1, "u0": u0, "eq": eq, "a": a, "solver": solver,
            "backend": "numpy" if exec_mode == "numpy" else "numba", "jit": exec_mode == "numba-J", "N": N,
            "delta": delta, "cells": 1, "trackers": trs}


def call_index(trace, pos):
    """(tracker, number of earlier calls of that tracker) of trace entry `pos`"""
    i = trace[pos][0]
    return i, sum(1 for e in trace[:pos] if e[0] == i)


def place_stops(rng, hist, case, real):
    """stop requests for the second run, chosen from the stop-free trace"""
    trace = real["trace"]
    case2 = copy.deepcopy(case)
    if not trace:
        hist("stop placement", "no call to stop at")
        i = rng.randrange(len(case2["trackers"]))
        case2["trackers"][i]["stops"] = [[0, rng.choice("SF"), rng.choice(MSGS)]]
        return case2
    times = {}
    for pos, e in enumerate(trace):
        times.setdefault(e[1], []).append(pos)
    coincident = [ps for ps in times.values() if len(ps) >= 2]
    final_ps = times.get(real["t_final"], []) if ctrl.final_handle_time(case, real["t_final"]) else []
    styles = ["random"] * 3 + ["first", "never", "two-times"]
    if coincident:
        styles += ["coincident-first", "coincident-last", "coincident-all", "coincident-some"] * 2
    if final_ps:
        styles += ["final"] * 3
    style = rng.choice(styles)
    hist("stop placement", style)
    chosen = []
    if style == "random":
        chosen = [rng.randrange(len(trace))]
    elif style == "first":
        chosen = [0]
    elif style == "never":
        i = rng.randrange(len(case2["trackers"]))
        case2["trackers"][i]["stops"] = [[len(trace) + 3, rng.choice("SF"), rng.choice(MSGS)]]
        return case2
    elif style == "two-times":
        chosen = sorted({rng.randrange(len(trace)), rng.randrange(len(trace))})
    elif style == "final":
        chosen = [rng.choice(final_ps)] if rng.random() < 0.5 else list(final_ps)
    else:
        ps = rng.choice(coincident)
        if style == "coincident-first":
            chosen = [ps[0]]
        elif style == "coincident-last":
            chosen = [ps[-1]]
        elif style == "coincident-all":
            chosen = list(ps)
        else:
            chosen = sorted(rng.sample(ps, rng.randint(1, len(ps))))
    for pos in chosen:
        i, k = call_index(trace, pos)
        kind = rng.choice("SF")
        msg = rng.choice(MSGS)
        hist("stop kind", ("FinishedSimulation" if kind == "F" else "StopIteration") + ("(msg)" if msg else "()"))
        case2["trackers"][i]["stops"].append([k, kind, msg])
    return case2


def report(ctx, leg, case, failures):
    """monitor failures -> ctx; the key names a known corner only if the monitor recognised it on this run"""
    for what, obs, exp, *rest in failures:
        ctx.monitor_fail(leg, case, obs, exp, what, key=ctrl.failure_key(what, rest[0] if rest else None))


# deterministic probes of the corners in which the unchanged code deviates from the literal statement (found
# while proving the frame-count theorems; Lean witnesses corner_scheduled_time_at_t_end_missed,
# extra_frame_not_at_final_time, sliver_frame_on_whole_range).  Same monitor, same keys as the random stream.
#   (dt, D, T)
CORNER_PROBE = [(1.0, 1.000001, 1.000001), (0.5, 2.0000005, 2.0000005), (0.25, 1.00000025, 1.00000025),
                (1.0, 1.5000005, 3.000001),          # a time scheduled exactly at t_end = t_final + 1e-6*dt is missed
                (1.0, 1.2, 2.3), (0.5, 0.7, 1.6),    # the extra frame of a general range is not at the final time
                (1.0, 1.0000002, 2.0), (0.25, 0.25000001, 1.0),  # whole range: a time in (t_end, t_end+1e-6*dt) adds a frame
                (0.25, 0.2500001, 1.0)]              # ... and just beyond that sliver (4e-7 > 2.5e-7) it does not: holds


# deterministic probes of runs that start exactly on a scheduled time (the first call must be AT t_start), with the
# interrupts written as a user writes them; the last geometric ones sit in the corner in which the unchanged code's
# float estimate of the exponent overshoots (known corner geometric-log-overshoot, recognised on the run)
#   (t_start, t_end, dt, schedule)
def _geo(sc, f, text=True):
    d = {"kind": "geometric", "scale": float(sc), "factor": float(f)}
    if text:
        d["text"] = f"geometric({sc}, {f})"
    return d


START_PROBE = [
    ("Q", 1.0, 20.0, 0.125, _geo(1, 2)), ("Q", 4.0, 40.0, 0.125, _geo(1, 2)), ("Q", 0.5, 5.0, 0.125, _geo(0.5, 2)),
    ("Q", 3.0, 20.0, 0.125, _geo(1, 2)), ("Q", 0.0, 20.0, 0.125, _geo(1, 2)),  # controls: start between / before
    ("Q", 9.0, 100.0, 0.5, _geo(1, 3)), ("Q", 2.25, 30.0, 0.25, _geo(1, 1.5)), ("Q", 25.0, 700.0, 1.0, _geo(1, 5)),
    ("Q", 2.0, 9.0, 0.25, {"kind": "fixed", "interrupts": [2.0, 3.0, 5.5, 9.0], "container": "list"}),
    ("Q", 2.0, 9.0, 0.25, {"kind": "fixed", "interrupts": [1.0, 2.0, 2.0, 2.125, 7.0], "container": "tuple"}),
    ("Q", 2.0, 9.0, 0.25, {"kind": "fixed", "interrupts": [5.5, 2.0, 3.0, 9.0], "container": "array"}),
    ("Q", 2.0, 9.0, 0.25, {"kind": "logarithmic", "dt_initial": 0.5, "factor": 2.0, "t_start": 2.0}),
    ("F", 2.0, 9.0, 0.25, {"kind": "realtime", "duration": "0:01"}),
    ("Q", 125.0, 700.0, 1.0, _geo(1, 5)), ("F", 0.15000000000000002, 2.0, 0.05, _geo(0.1, 1.5, text=False)),
]


def start_probe(ctx, batch, pending):
    for numbers, t0, t1, dt, sched in START_PROBE:
        whole = (t1 - t0) / dt == round((t1 - t0) / dt)
        case = {"numbers": numbers, "dt": dt, "t_start": t0, "t_end": t1, "u0": 0.0, "eq": "one",
                "solver": "euler", "backend": "numpy", "jit": False, "N": round((t1 - t0) / dt) if whole else None,
                "delta": 0.0, "cells": 1,
                "trackers": [{"kind": "storage", "sched": sched, "stops": [], "via_parse": True},
                             {"kind": "callback", "sched": sched, "stops": [], "via_parse": True}]}
        real = ctrl.execute(case)
        ctx.count(case, nontrivial=True, leg="start-probe")
        ctx.hist("start probe", f"t_range=({t0}, {t1}) dt={dt} {sched.get('text') or sched['kind']}")
        if real.get("error"):
            ctx.disagree("correspondence", case, "run completes", real["error"], "start probe raised")
            continue
        ctx.monitor_evals += 1
        fails = ctrl.monitor_trackers(case, real, stats=ctx.hist)
        for f in fails:
            ctx.hist("start probe outcome", f[3] if len(f) > 3 and f[3] else "unrecognised failure")
        if not fails:
            ctx.hist("start probe outcome", "property holds")
        report(ctx, "start-probe", case, fails)
        ctrl.check_run(ctx, case, real, batch, pending)


def corner_probe(ctx):
    for dt, D, T in CORNER_PROBE:
        whole = T / dt == round(T / dt)
        case = {"numbers": "F", "dt": dt, "t_start": 0.0, "t_end": T, "u0": 0.0, "eq": "one", "solver": "euler",
                "backend": "numpy", "jit": False, "N": round(T / dt) if whole else None, "delta": 0.0, "cells": 1,
                "trackers": [{"kind": "storage", "sched": {"kind": "constant", "dt": D, "t_start": None}, "stops": []}]}
        real = ctrl.execute(case)
        ctx.count(case, nontrivial=True, leg="corner-probe")
        ctx.hist("corner probe", f"dt={dt} D={D} T={T}")
        if real.get("error"):
            ctx.disagree("correspondence", case, "run completes", real["error"], "corner probe raised")
            continue
        ctx.monitor_evals += 1
        fails = ctrl.monitor_trackers(case, real)
        for f in fails:
            ctx.hist("corner probe outcome", f[3] if len(f) > 3 and f[3] else "unrecognised failure")
        if not fails:
            ctx.hist("corner probe outcome", "property holds")
        report(ctx, "corner-probe", case, fails)


# ------------------------------------------------------------------------------------------
# steppers that reach their target exactly: ScipySolver(dt) against the model `runExactSpec`, adaptive
# Euler / Runge-Kutta monitor-only
def gen_exact_case(rng, hist, solver):
    numbers = rng.choice(["Q", "F"])
    anchor = None
    if rng.random() < 0.25:
        # start exactly on a scheduled time of a geometric / logarithmic / fixed-list schedule
        dt = ctrl.dyadic(rng, 1, 24, 6) if numbers == "Q" else rng.choice(ctrl.DECIMAL_DT)
        anchor = ctrl.gen_anchor(rng, numbers, dt, hist)
        dt, t0, t1, N, delta = ctrl.gen_range(rng, numbers, lambda *a: None, 30, dt, anchor[1])
    else:
        dt, t0, t1, N, delta = ctrl.gen_base(rng, numbers, lambda *a: None, 30)
    trs = []
    n = rng.choice([1, 1, 2, 3])
    for _ in range(n):
        while True:
            sch = ctrl.gen_sched(rng, numbers, dt, t0, t1, lambda *a: None, adversarial=False)
            if sch["kind"] == "constant" and sch["dt"] >= 0.3 * dt:
                break
            if sch["kind"] == "fixed" or (sch["kind"] == "logarithmic" and sch["dt_initial"] >= 0.3 * dt):
                if solver == "scipy":
                    break
        if solver != "scipy" and n == 1:
            sch["t_start"] = None
        trs.append({"kind": rng.choice(["callback", "storage", "data"]), "sched": sch, "stops": []})
        hist("exact-stepper tracker", f"{trs[-1]['kind']}/{sch['kind']}")
    if anchor is not None:
        if solver == "scipy" and anchor[0]["kind"] == "fixed":
            # a repeated entry makes the controller ask for a step of length zero, which scipy's solve_ivp rejects
            # (ValueError: `first_step` must be positive) - a list with repeated entries is not "increasing" (C09);
            # the fixed-step stream keeps them (the repeated entry is served one step later)
            pts = anchor[0]["interrupts"]
            anchor[0]["interrupts"] = [e for j, e in enumerate(pts) if j == 0 or e != pts[j - 1]]
        trs[rng.randrange(n)] = {"kind": rng.choice(["callback", "storage", "data"]), "sched": anchor[0], "stops": [],
                                 "via_parse": anchor[2]}
        hist("exact-stepper tracker", f"start on a scheduled time: {anchor[0]['kind']}")
    hist("exact-stepper solver", solver)
    hist("exact-stepper n_trackers", n)
    case = {"numbers": numbers, "dt": dt, "t_start": t0, "t_end": t1, "u0": 0.5 if numbers == "Q" else 0.1,
            "eq": "one" if solver == "scipy" else rng.choice(["one", "time"]), "solver": solver, "backend": "numpy",
            "jit": False, "N": N, "delta": delta, "cells": 1, "trackers": trs, "stepper": "exact"}
    if solver != "scipy":
        case["adaptive"] = True
        case["round_off"] = True  # the adaptive stepper's last step is `t_end - t`: target reached to round-off
    return case


ADAPTIVE_PROBE = [
    ("scipy", False, 0.1, [1.0, 0.97]),
    ("runge-kutta", True, 0.1, [1.0, 0.97]),
    ("euler", True, 0.25, [1.0, 0.9]),
]


def exact_leg(ctx, batch, pending):
    rng = ctx.rng
    n_scipy, n_adapt = ctx.budget(120, 3000), ctx.budget(30, 600)
    for k in range(n_scipy + n_adapt):
        solver = "scipy" if k < n_scipy else rng.choice(["euler", "runge-kutta"])
        case = gen_exact_case(rng, ctx.hist, solver)
        real = ctrl.execute(case)
        if not real.get("error") and real["trace"] and rng.random() < 0.4:
            # second pass with stop requests placed on the stop-free trace
            case = place_stops(rng, lambda *a: None, case, real)
            real = ctrl.execute(case)
        ok = not real.get("error")
        ctx.count(case, nontrivial=ok and len(real["trace"]) >= 2, leg="exact-stepper/" + solver)
        if not ok:
            ctx.disagree("correspondence", case, "run completes", real["error"], "real run raised on a valid case")
            continue
        ctx.monitor_evals += 1
        report(ctx, "exact-stepper", case, ctrl.monitor_exact(case, real))
        if solver == "scipy":
            ctrl.check_run(ctx, case, real, batch, pending)
    # deterministic two-tracker probes of the clause "exactly at it for adaptive steppers"
    for solver, adaptive, dt, intervals in ADAPTIVE_PROBE:
        case = {"numbers": "F", "dt": dt, "t_start": 0.0, "t_end": 3.0, "u0": 0.0, "eq": "time" if adaptive else "one",
                "solver": solver, "backend": "numpy", "jit": False, "N": None, "delta": 0.0, "cells": 1,
                "stepper": "exact", "adaptive": adaptive, "round_off": adaptive,
                "trackers": [{"kind": "storage", "sched": {"kind": "constant", "dt": D, "t_start": None}, "stops": []}
                             for D in intervals]}
        real = ctrl.execute(case)
        ctx.count(case, nontrivial=True, leg="adaptive-probe")
        ctx.hist("adaptive probe", f"{solver} adaptive={adaptive} two trackers")
        if real.get("error"):
            ctx.disagree("correspondence", case, "run completes", real["error"], "adaptive probe raised")
            continue
        ctx.monitor_evals += 1
        report(ctx, "adaptive-probe", case, ctrl.monitor_exact(case, real))



# ------------------------------------------------------------------------------------------
# adaptive steppers against the model `runAdaptiveSpec` (Model/Adaptive.lean, handler c08.adaptive): the decisions of
# the error estimator (per attempt of the inner loop: accepted?, time step proposed by adjust_dt) are recorded from
# the real run; everything the stepper and the controller do with them is replayed bit for bit by the model
def execute_adaptive_recorded(case):
    """`ctrl.execute` with `_make_dt_adjuster` / `make_stepper` of the adaptive solvers wrapped by recorders
    (numpy backend, in-process); `case["dt_max"]` sets the class attribute `dt_max` for the run"""
    import pde.solvers.base as sb
    import pde.solvers.euler as se
    log = {"calls": [], "dt_min": None}
    cur = []
    orig_adj, orig_adj_e, orig_ms = sb._make_dt_adjuster, se._make_dt_adjuster, sb.AdaptiveSolverBase.make_stepper
    orig_max = sb.AdaptiveSolverBase.dt_max

    def rec_adjuster(dt_min, dt_max):
        f = orig_adj(dt_min, dt_max)
        log["dt_min"] = float(dt_min)

        def adjust_dt(dt, err):
            out = f(dt, err)
            cur.append((float(dt), bool(err <= 1), float(out)))
            return out
        return adjust_dt

    def rec_make_stepper(self, state, dt=None):
        stepper = orig_ms(self, state, dt=dt)
        solver = self

        def wrapped(state, t_start, t_end):
            del cur[:]
            t = stepper(state, t_start, t_end)
            log["calls"].append({"t": float(t_start), "target": float(t_end), "attempts": list(cur), "ret": float(t),
                                 "dt": float(solver.info["dt"])})
            return t
        return wrapped

    sb._make_dt_adjuster = se._make_dt_adjuster = rec_adjuster
    sb.AdaptiveSolverBase.make_stepper = rec_make_stepper
    if case.get("dt_max") is not None:
        sb.AdaptiveSolverBase.dt_max = case["dt_max"]
    try:
        real = ctrl.execute(case)
    finally:
        sb._make_dt_adjuster, se._make_dt_adjuster = orig_adj, orig_adj_e
        sb.AdaptiveSolverBase.make_stepper = orig_ms
        sb.AdaptiveSolverBase.dt_max = orig_max
    real["adaptive_log"] = log
    return real


def adaptive_request(case, real):
    from harness.common.num import fbits
    log = real["adaptive_log"]
    req = ctrl.model_request(case, "F", ctrl.oracle_answers(real, ctrl.needs_oracle(case, "F")))
    for k in ("eq", "stepper", "shift", "a", "solver"):
        req.pop(k, None)
    att = []
    for c in log["calls"]:
        att += [[bool(acc), fbits(new)] for _dt, acc, new in c["attempts"]]
        att.append([True, fbits(c["dt"])])  # the accepted attempt that reached the target (adjust_dt is not called)
    req.update(dt_min=fbits(log["dt_min"] if log["dt_min"] is not None else 1e-10), attempts=att,
               fuel=len(log["calls"]) + 5)
    return req


def adaptive_compare(case, real, model):
    """first difference between an adaptive run and the answer of `c08.adaptive`, or None; times, dt bit for bit"""
    from harness.common.num import fbits, unfbits
    same = lambda x, s: fbits(x) == s
    if model["exit"] == "fuel":
        return {"what": "model ran out of fuel / oracle entries"}
    if len(real["trace"]) != len(model["trace"]):
        return {"what": "number of handle calls", "impl": real["trace"][:40],
                "model": [[e[0], unfbits(e[1])] for e in model["trace"][:40]]}
    for n, (r, m) in enumerate(zip(real["trace"], model["trace"])):
        if r[0] != m[0] or not same(r[1], m[1]):
            return {"what": f"handle call {n}", "impl": list(r), "model": [m[0], unfbits(m[1])]}
        if case["eq"] == "one" and not ctrl.state_close(case, r[2], unfbits(m[2]), 1e-9):
            return {"what": f"state at handle call {n}", "impl": list(r), "model": unfbits(m[2])}
    if real["steps"] != model["steps"]:
        return {"what": "steps (accepted steps)", "impl": real["steps"], "model": model["steps"]}
    if not same(real["t_final"], model["t_final"]):
        return {"what": "t_final", "impl": real["t_final"], "model": unfbits(model["t_final"])}
    if not same(real["dt_final"], model["dt_final"]):
        return {"what": "last solver.info['dt']", "impl": real["dt_final"], "model": unfbits(model["dt_final"])}
    if model["iters"] != len(real["adaptive_log"]["calls"]):
        return {"what": "number of stepper calls", "impl": len(real["adaptive_log"]["calls"]), "model": model["iters"]}
    if real["stop_reason"] != model["stop_reason"] or real["successful"] != model["successful"]:
        return {"what": "stop reason", "impl": [real["stop_reason"], real["successful"]],
                "model": [model["stop_reason"], model["successful"]]}
    fin_model = [i for i, tr in enumerate(model["trackers"]) for _ in range(tr["finalized"])]
    if real["finalized"] != fin_model:
        return {"what": "finalize calls", "impl": real["finalized"], "model": fin_model}
    for i, (tr, mt) in enumerate(zip(case["trackers"], model["trackers"])):
        if tr["kind"] == "callback":
            continue
        rt = real["times"][i]
        if len(rt) != len(mt["times"]) or not all(same(a, b) for a, b in zip(rt, mt["times"])):
            return {"what": f"recorded times of tracker {i}", "impl": rt, "model": [unfbits(x) for x in mt["times"]]}
    return None


# (solver, eq, dt, dt_max, t_end, intervals): constant time step dt_max accumulates round-off, so that an accepted step
# ends an ulp before the tracker time and the stepper adds a step of dt_min (the overshoot of `adaptiveStepper_lands`)
DTMIN_PROBE = [
    ("euler", "one", 0.1, 0.1, 2.0, [0.8]),
    ("euler", "one", 0.1, 0.1, 3.0, [0.3, 0.7]),
    ("runge-kutta", "one", 0.1, 0.1, 2.5, [1.2]),
    ("euler", "time", 0.05, 0.1, 2.0, [0.6]),
    ("runge-kutta", "time", 0.1, 0.1, 2.0, [0.8, 0.5]),
]


def adaptive_leg(ctx):
    from harness.common.lean import LeanBatch
    rng = ctx.rng
    batch, pend = LeanBatch(ctx.workdir), []
    cases = []
    for k in range(ctx.budget(60, 1200)):
        case = gen_exact_case(rng, lambda *a: None, rng.choice(["euler", "runge-kutta"]))
        case["eq"] = rng.choice(["one", "time", "time"])  # u' = t: steps are rejected, dt is not monotone
        if rng.random() < 0.3:
            case["dt_max"] = case["dt"] * rng.choice([0.5, 1.0, 1.0, 2.0, 3.0])
        cases.append(case)
    for solver, eq, dt, dt_max, t1, intervals in DTMIN_PROBE:
        cases.append({"numbers": "F", "dt": dt, "t_start": 0.0, "t_end": t1, "u0": 0.0, "eq": eq, "solver": solver,
                      "backend": "numpy", "jit": False, "N": None, "delta": 0.0, "cells": 1, "stepper": "exact",
                      "adaptive": True, "round_off": True, "dt_max": dt_max,
                      "trackers": [{"kind": "storage", "sched": {"kind": "constant", "dt": D, "t_start": None},
                                    "stops": []} for D in intervals]})
    for case in cases:
        real = execute_adaptive_recorded(case)
        if not real.get("error") and real["trace"] and rng.random() < 0.3:
            case = place_stops(rng, lambda *a: None, case, real)
            real = execute_adaptive_recorded(case)
        ok = not real.get("error")
        ctx.count(case, nontrivial=ok and len(real["trace"]) >= 2 and len(real["adaptive_log"]["calls"]) >= 2,
                  leg="adaptive-model/" + case["solver"])
        if not ok:
            ctx.hist("adaptive-model outcome", "real run raised: " + real["error"][:40])
            if "Time step below" not in real["error"]:
                ctx.disagree("correspondence", case, "run completes", real["error"], "adaptive run raised")
            continue
        log = real["adaptive_log"]
        n_att = sum(len(c["attempts"]) + 1 for c in log["calls"])
        n_rej = sum(1 for c in log["calls"] for _d, acc, _n in c["attempts"] if not acc)
        over = sum(1 for c in log["calls"] if c["ret"] > c["target"])
        ctx.hist("adaptive-model attempts", min(n_att, 255) // 32 * 32)
        ctx.hist("adaptive-model rejected steps", "0" if n_rej == 0 else "1-3" if n_rej <= 3 else "4+")
        ctx.hist("adaptive-model stepper calls that overshoot by dt_min", min(over, 3))
        ctx.hist("adaptive-model dt_final / dt", "grown" if real["dt_final"] > case["dt"] else
                 "same" if real["dt_final"] == case["dt"] else "shrunk")
        ctx.monitor_evals += 1
        report(ctx, "exact-stepper", case, ctrl.monitor_exact(case, real))
        # every stepper call returns its target or overshoots it by less than dt_min (theorem adaptiveStepper_lands)
        for c in log["calls"]:
            # (the theorem is about exact arithmetic; the float sum t + dt_step carries up to an ulp of t, which at
            #  t = 12 is 2e-15 - far more than a relative allowance on dt_min = 1e-10)
            if not (c["ret"] == c["target"]
                    or c["target"] < c["ret"] < c["target"] + log["dt_min"] + 4 * math.ulp(abs(c["ret"]))):
                report(ctx, "exact-stepper", case, [("adaptive stepper returns its target (or overshoots by < dt_min)",
                                                     c["ret"], c["target"])])
                break
        pend.append((case, real, batch.add("c08.adaptive", adaptive_request(case, real))))
    answers = batch.run()
    for case, real, i in pend:
        kind, val = answers[i]
        ctx.impl_traces += 1
        slim = {k: v for k, v in case.items()}
        if kind != "ok":
            ctx.disagree("correspondence", slim, "model answer", val, "c08.adaptive failed")
            continue
        diff = adaptive_compare(case, real, val)
        if diff is not None:
            ctx.disagree("correspondence", slim, diff.get("model"), diff.get("impl"),
                         "adaptive run vs runAdaptiveSpec: " + diff["what"])


def monitors(ctx, case, real):
    if isinstance(real, str) or real.get("error"):
        return
    ctx.monitor_evals += 1
    report(ctx, "trackers", case, ctrl.monitor_trackers(case, real, stats=ctx.hist))


def run(ctx):
    from harness.common.lean import LeanBatch
    rng = ctx.rng
    plan = {"numpy": ctx.budget(500, 18000), "numba-S": ctx.budget(60, 3000), "numba-J": ctx.budget(8, 320)}
    first = {m: [[gen_case(rng, ctx.hist, m, 100 if m != "numba-J" else 40)] for _ in range(n)] for m, n in plan.items()}
    res1 = ctrl.exec_groups(ctx, first)
    second = {m: [] for m in plan}
    for m in plan:
        for (g, rs) in zip(first[m], res1.get(m, [])):
            real = rs[0]
            if isinstance(real, str) or real.get("error"):
                second[m].append([g[0]])
            else:
                second[m].append([place_stops(rng, ctx.hist, g[0], real)])
    res2 = ctrl.exec_groups(ctx, second)
    batch, pending = LeanBatch(ctx.workdir), []
    for m in plan:
        for groups, results in ((first[m], res1.get(m, [])), (second[m], res2.get(m, []))):
            for g, rs in zip(groups, results):
                case, real = g[0], rs[0]
                ok = not isinstance(real, str) and not real.get("error")
                ctx.count(case, nontrivial=ok and real["steps"] >= 2 and len(real["trace"]) >= 2, leg=m)
                if ok:
                    ctx.hist("steps", min(real["steps"], 128) // 16 * 16)
                    ctx.hist("handle calls", min(len(real["trace"]), 64) // 8 * 8)
                    ctx.hist("outcome", real["stop_reason"] if real["stop_reason"] in (
                        "Reached final time", "Tracker raised StopIteration", "Tracker raised FinishedSimulation") else "custom message")
                    if real["raised"]:
                        ctx.hist("trackers raising together", len(real["raised"]))
                        ctx.hist("stop during", "final handle" if ctrl.final_handle_time(case, real["raised"][0][2]) else "main loop")
                        served = sum(1 for e in real["trace"] if e[1] == real["raised"][0][2])
                        ctx.hist("trackers served at the stop time", served)
                ctrl.check_run(ctx, case, real, batch, pending)
                monitors(ctx, case, real)
    corner_probe(ctx)
    start_probe(ctx, batch, pending)
    exact_leg(ctx, batch, pending)
    adaptive_leg(ctx)
    answers = batch.run()
    batch2 = LeanBatch(ctx.workdir)
    retry = ctrl.resolve(ctx, pending, answers, batch2)
    ctrl.resolve_retry(ctx, retry, batch2.run())
    ctx.disagreements.sort(key=lambda d: len(json.dumps(d["case"], default=str)))


def judge(case, real):
    """the C08 monitor that applies to the case: list of monitor-failure dicts"""
    mon = ctrl.monitor_exact if case.get("stepper") == "exact" else ctrl.monitor_trackers
    return [{"leg": "exact-stepper" if case.get("stepper") == "exact" else "trackers", "case": case, "observed": obs,
             "expected": exp, "what": what, "key": ctrl.failure_key(what, rest[0] if rest else None)}
            for what, obs, exp, *rest in mon(case, real)]


def search(ctx, broken):
    """failing-input search after a broken tie: the monitor on the disagreeing cases (in the execution mode they
    were generated for), then on a larger fresh sample of stop-free / stopped pairs (numpy in-process, and the
    numba modes in which a disagreement occurred).  Failures that are known corners are not what is searched for."""
    from harness.common import findings
    known = findings.load()

    def unlisted(case, real):
        if isinstance(real, str) or real.get("error"):
            return []
        return [f for f in judge(case, real) if findings.match(PID, f["key"], known) is None]

    cases, modes = [], set()
    for d in broken:
        c = d.get("case") if isinstance(d, dict) else None
        if not c or "dt" not in c:
            continue
        modes.add(ctrl.exec_mode(c))
        if len(cases) < 40:
            cases.append(copy.deepcopy(c))
    for c, r in zip(cases, ctrl.execute_as_recorded(cases, procs=8)):
        found = unlisted(c, r)
        if found:
            return found[:1]
    rng = ctx.sub_rng("search")
    nohist = lambda *a, **k: None
    for _ in range(5000):
        case = gen_case(rng, nohist, "numpy", 120)
        real = ctrl.execute(case)
        found = unlisted(case, real)
        if not found and not real.get("error"):
            case = place_stops(rng, nohist, case, real)
            found = unlisted(case, ctrl.execute(case))
        if found:
            return found[:1]
    for mode in sorted(modes - {"numpy"}):
        first = [gen_case(rng, nohist, mode, 60) for _ in range(150 if mode == "numba-S" else 30)]
        res1 = ctrl.execute_as_recorded(first, procs=8)
        second = [c if r.get("error") else place_stops(rng, nohist, c, r) for c, r in zip(first, res1)]
        res2 = ctrl.execute_as_recorded(second, procs=8)
        for c, r in list(zip(first, res1)) + list(zip(second, res2)):
            found = unlisted(c, r)
            if found:
                return found[:1]
    return []


def replay(ctx, rep):
    """re-run the recorded case on the real code in the recorded execution mode (numpy / numba source / numba
    JIT) with the monitor of its leg and judge the recorded symptom"""
    case = rep.get("case")
    if not isinstance(case, dict) or "dt" not in case:
        print("this file records no case of C08 (nothing to re-run): cannot be replayed")
        return False
    print("execution mode:", ctrl.exec_mode(case), "| leg:", rep.get("leg"))
    if case.get("dt_max") is not None:
        real = execute_adaptive_recorded(case)  # (the adaptive-model leg sets the class attribute dt_max: in-process)
    else:
        real = ctrl.execute_as_recorded([case])[0]
    if real.get("error"):
        print("run raised:", real["error"])
        return False
    print("trace:", real["trace"][:60])
    print("steps", real["steps"], "t_final", real["t_final"], "state", repr(real["state"]), "stop_reason",
          real["stop_reason"], "finalized", real["finalized"])
    print("recorded times:", real["times"])
    bad = judge(case, real)
    for b in bad:
        print("monitor:", b["what"], "| observed", b["observed"], "| expected", b["expected"], "| key", b["key"])
    what = rep.get("what")
    same = [b for b in bad if what is None or b["what"] == what]
    if not bad:
        print("monitor: holds")
    elif not same:
        print(f"the recorded symptom `{what}` is gone; the failures above are different ones")
    return not same
