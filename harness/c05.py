"""C05 - discrete conservation: no-flux Laplacian and divergence integrate to zero.

Legs:
  integral : random (grid, field, arbitrary boundary conditions - also non-conserving, inhomogeneous
             ones) -> `field.laplace(bc).integral` / `field.divergence(bc).integral` of the real code
             compared with the Lean model `PdeVerif.Conserve.int*` (ghost cells by the BC model, stencil
             by the Stencil model, volumes by the Conserve model) over exact rationals.  This ties the
             *composition* the theorems are about to the code, with non-zero values.
  zero     : the property monitor: conserving conditions (periodic / derivative 0 / normal_value 0) on
             every grid class incl. 3-d, anisotropic, with hole -> |integral| <= 1e-10 * scale.  Stratified: every
             (grid class x number of axes) x {walls, periodic, mixed} / {hole, full, full with an arbitrary inner
             condition} x {laplace, divergence where the property claims it} appears on every seed; stale ghost
             cells hold random numbers.  Every case is also a correspondence case (`cons`): the ghost cells of the
             real code are compared with `setGhostAll (consFaces | radialFaces ...)` of the model and the model
             evaluates the very term of the zero-sum theorems of Props/C05b.lean, which must be exactly 0.
  sim      : Diffusion and Cahn-Hilliard runs with every solver (fixed and adaptive), integral recorded
             after every step; numba kernels with source semantics for breadth and JIT for a subset.
  run      : correspondence of the run theorems (Props/C05d.lean): diffusion / Cahn-Hilliard runs with the fixed-step Euler,
             Runge-Kutta, implicit Euler and Crank-Nicolson solvers on all grid classes; the driver handler `c05.run` evaluates `solverRuns (validCells shape) solver
             (consRate ...)` (Model/ConserveRun.lean: the controller loop around Solvers.fixedStepper around Solvers.eulerStep / rk4Step at the padded-array
             type) over exact rationals -> final `state.data`, step count, returned time and the conserved total must agree
             with `eq.solve(...)`, and the model total before/after must be exactly equal."""
import math
from fractions import Fraction

import numpy as np

from harness import c02
from harness.common.num import q, unq
from harness.common.isolated import run_many

PID = "C05"
LEVEL = "proof"
EXTRA_PROP_FILES = ["C01Nine", "C05b", "C05c", "C05d"]  # 9-point Laplacian; n-d + ghost-cell composition; solver steps; runs
REQUIRED_THEOREMS = [
    "stencil9_integral_zero", "cartLaplace9_integral_zero_neumann", "cartLaplace9_integral_zero_periodic_y", "cartLaplace9_integral_zero_periodic_x",
    "sumTo_telescope", "cart1_laplace_sum", "cart1_laplace_integral_zero_neumann", "cart1_laplace_integral_zero_periodic",
    "cart2_laplace_sum", "cart2_laplace_integral_zero_neumann", "cart2_laplace_integral_zero_periodic",
    "polar_laplace_flux_form", "polar_laplace_sum", "polar_laplace_integral_zero",
    "sph_laplace_flux_form", "sph_laplace_conservative_sum", "sph_laplace_conservative_integral_zero",
    "cyl_laplace_sum", "cyl_laplace_integral_zero", "cyl_volume_identity",
    "cart1_divergence_central_sum", "cart1_divergence_integral_zero", "cart1_divergence_integral_zero_periodic",
    "sph_divergence_flux_form", "sph_divergence_conservative_sum", "sph_divergence_conservative_integral_zero",
    "sph_laplace_nonconservative_not_conservative", "polar_divergence_not_conservative",
    "onesided_divergence_not_conservative_under_dirichlet",
    "integral_invariant_of_rate_zero_integral", "integral_invariant_over_steps",
    # Props/C05b.lean: per-axis conserving ghost cells, n-d divergence, composition with setGhostAll and centre
    "cart2_laplace_integral_zero", "cart3_laplace_integral_zero", "cart3_laplace_integral_zero_periodic",
    "cyl_laplace_integral_zero_axes", "cyl_laplace_integral_zero_periodic_z",
    "cart1_divergence_integral_zero_axes", "cart2_divergence_integral_zero", "cart3_divergence_integral_zero",
    "backward_divergence_not_conservative_under_dirichlet",
    "setGhostAll_neumann0", "setGhostAll_dirichlet0", "setGhostAll_periodic", "gridFaces_compatible",
    "consFaces_scalar_line", "consFaces_vector_line",
    "cart1_laplace_integral_zero_ghost", "cart2_laplace_integral_zero_ghost", "cart3_laplace_integral_zero_ghost",
    "cart1_divergence_integral_zero_ghost", "cart2_divergence_integral_zero_ghost", "cart3_divergence_integral_zero_ghost",
    "centre_lattice", "centre_inner_face", "centre_ne_zero", "centre_shell_ne",
    "polar_laplace_integral_zero_grid", "sph_laplace_conservative_integral_zero_grid",
    "sph_divergence_conservative_integral_zero_grid", "cyl_laplace_integral_zero_grid",
    # Props/C05c.lean: the solver steps and loops of Model/Solvers.lean
    "euler_step_conserves", "rk4_step_conserves", "rk4_step_conserves_source_tableau", "rkf45_step_conserves",
    "implicit_iterates_conserve", "cn_iter_conserves", "cn_iterates_conserve", "ab2_step_conserves", "euler_var_conserves",
    "solver_steps_conserve", "euler_steps_conserve", "fixedLoop_conserves", "fixedStepper_conserves",
    "adaptiveLoop_conserves", "fixpointLoop_conserves", "fixedStepper_euler_rk4_conserve",
    "cart1Rate_conserving", "cart2Rate_conserving", "cart3Rate_conserving", "polarRate_conserving", "sphRate_conserving",
    "cylRate_conserving", "polar_euler_run_conserves",
    # Props/C05d.lean: whole runs of the model the driver evaluates (c05.run), divergence flux identities
    "wholeStep_euler", "wholeStep_rk4", "cellStep_conserves", "fixpointLoop_invariant", "cellImplicitStep_conserves", "cellCNStep_conserves",
    "solverStep_conserves", "solverRun_conserves", "solverRuns_conserves", "cellSteps_conserve",
    "cart1_run_conserves", "cart2_run_conserves", "cart3_run_conserves", "polar_run_conserves", "sph_run_conserves",
    "cyl_run_conserves",
    "twoField_conserving", "twoField_readsOnly", "cart1_run2_conserves", "cart2_run2_conserves", "cart3_run2_conserves",
    "polar_run2_conserves", "sph_run2_conserves", "cyl_run2_conserves",
    "d1_fun_sum_flux", "faceFlux_zero", "cart2_divergence_sum", "cart3_divergence_sum",
    "cyl_divergence_sum", "cyl_divergence_defect", "cyl_divergence_not_conservative",
]
MIN_LEGS = {"run": 36}
RULE = ("integral leg: seed-derived grids of all classes, integer field data, one random condition per side of any class "
        "(value, derivative, mixed, curvature, expressions, periodic; homogeneous and inhomogeneous) so that the integral is "
        "generally non-zero; zero leg: conserving conditions with random real data (also in the stale ghost cells) on all classes "
        "incl. 3-d, stratified so that every class x axes x {walls, periodic, mixed | hole, full, full+any inner condition} x "
        "operator occurs on every seed, the rest seed-derived; sim leg: "
        "(equation, grid, solver, backend) combinations. Distinct by the whole case; non-trivial if the field is not constant.")
ASSUMPTIONS = ["integrals compared at 1e-10 relative to sum(volume*|data|)/dx_min^2", "pi is factored out of curvilinear volumes"]
TRUSTED_EXTRA = ["numba/scipy code generation and the external scipy integrator are observed only"]

CLS = {"UnitGrid": "cart", "CartesianGrid": "cart", "PolarSymGrid": "polar", "SphericalSymGrid": "sph", "CylindricalSymGrid": "cyl"}


def gen_case_rank(rng, rank, hist, classes=None, max_axes=3):
    while True:
        c = c02.gen_case(rng, lambda *a, **k: None)
        if c["rank"] != rank:
            continue
        if classes and CLS[c["grid"]["cls"]] not in classes:
            continue
        if len(c["grid"]["shape"]) > max_axes:
            continue
        return c


def real_integral(arg):
    import logging
    import pde

    logging.getLogger("pde").setLevel(logging.ERROR)
    case, op, kw = arg
    grid = c02.make_grid(case["grid"])
    rank = case["rank"]
    cls = [pde.ScalarField, pde.VectorField][rank]
    valid = tuple([slice(None)] * rank + [slice(1, -1)] * grid.num_axes)
    f = cls(grid, data=case["data"][valid].copy())
    try:
        res = getattr(f, op)(bc=case["spec"], args={"t": case["t"]}, **kw)
        return {"integral": float(np.asarray(res.integral)), "max": float(np.abs(res.data).max())}
    except Exception as e:  # noqa
        return {"error": f"{type(e).__name__}: {e}"}


def model_request(case, op, kw):
    r = c02.model_request(case)
    g = case["grid"]
    req = {"cls": CLS[g["cls"]], "shape": g["shape"], "lo": [q(b[0]) for b in g["bounds"]],
           "dx": [q(Fraction(b[1] - b[0]) / n) for b, n in zip(g["bounds"], g["shape"])], "op": op,
           "rank": case["rank"], "dim": case["dim"], "data": r["data"], "faces": r["faces"]}
    req.update(kw)
    return req


def pi_power(cls):
    return 0 if cls == "cart" else 1


# ------------------------------------------------------------------------------------------
def zero_spec(gd, op, kw):
    """the conserving boundary conditions of a zero-leg case (py-pde vocabulary)"""
    axes = list(c02.AXES[gd["cls"]])[:len(gd["shape"])]
    wall = {"derivative": 0} if op == "laplace" else {"normal_value": 0}
    spec = {ax: ("periodic" if per else wall) for ax, per in zip(axes, gd["periodic"])}
    if kw.get("inner") is not None:  # full disk / ball / cylinder: any condition on the inner face
        spec.pop("r")
        spec["r-"], spec["r+"] = kw["inner"], wall
    return spec


def zero_case(arg):
    """conserving conditions on a random grid; returns (integral, scale, max |result|, padded input, padded array after
    set_ghost_cells).  The ghost cells of the input hold random numbers (stale values must not matter)."""
    import logging
    import pde

    logging.getLogger("pde").setLevel(logging.ERROR)
    gd, op, seed, kw = arg
    grid = c02.make_grid(gd)
    rs = np.random.RandomState(seed)
    rank = 0 if op == "laplace" else 1
    full = rs.uniform(-3, 3, (grid.dim,) * rank + tuple(n + 2 for n in grid.shape))
    if rank and gd["cls"] == "SphericalSymGrid":
        full[1:] = 0  # spherical symmetry: only the radial component
    cls = pde.VectorField if rank else pde.ScalarField
    f = cls(grid, data=full.copy(), with_ghost_cells=True)
    spec = zero_spec(gd, op, kw)
    okw = {k: v for k, v in kw.items() if k != "inner"}
    res = getattr(f, op)(bc=spec, **okw)
    g = cls(grid, data=full.copy(), with_ghost_cells=True)
    g.set_ghost_cells(spec)
    vol = grid.cell_volumes
    inner = kw.get("inner") or {}
    extra = max([abs(float(v)) for v in inner.values() if isinstance(v, (int, float))] + [0.0])
    scale = float(np.sum(vol * (np.abs(f.data).sum(axis=0) if rank else np.abs(f.data))) + np.sum(vol) * extra) / min(grid.discretization) ** 2
    return float(np.asarray(res.integral)), scale, float(np.abs(res.data).max()), full, np.array(g._data_full)


PER_PATTERNS = {1: {"walls": [[False]], "periodic": [[True]]},
                2: {"walls": [[False, False]], "periodic": [[True, True]], "mixed": [[True, False], [False, True]]},
                3: {"walls": [[False] * 3], "periodic": [[True] * 3],
                    "mixed": [[True, False, False], [False, True, False], [False, False, True], [True, True, False], [True, False, True], [False, True, True]]}}
INNER_SCALAR = [{"value": 1.75}, {"derivative": -0.5}, {"type": "mixed", "value": 0.5, "const": 1.25}, {"value": -2.0}]
INNER_VECTOR = [{"normal_value": 1.25}, {"normal_derivative": 0.75}]


def strat_grid(rng, cls, nax, periodic, hole):
    """a grid of the given class with the given periodicity / hole; sizes and spacings as `c02.gen_grid`"""
    c = cls if cls != "cart" else rng.choice(["UnitGrid", "CartesianGrid", "CartesianGrid", "CartesianGrid"])
    shape = [rng.randint(1, 4 if nax < 3 else 3) for _ in range(nax)]
    bounds = []
    for i in range(nax):
        dx = rng.choice([0.25, 0.5, 1.0, 2.0, 0.125, 1.5, 0.75])
        if c == "UnitGrid":
            dx, lo = 1.0, 0.0
        elif c != "CartesianGrid" and i == 0:
            lo = rng.choice([0.5, 1.0, 2.25]) if hole else 0.0
        else:
            lo = rng.choice([0.0, -1.0, 0.5, -2.75, 3.0])
        bounds.append([lo, lo + dx * shape[i]])
    return {"cls": c, "shape": shape, "bounds": bounds, "periodic": list(periodic)}


def zero_strata(rng):
    """one job (grid, op, kw, label) per stratum: every class x axes x boundary pattern x operator the property claims"""
    out = []
    for nax in (1, 2, 3):
        for pat, choices in PER_PATTERNS[nax].items():
            for op in ("laplace", "divergence"):
                out.append((strat_grid(rng, "cart", nax, rng.choice(choices), False), op, {}, f"cart{nax}:{op}:{pat}"))
        # every variant of the difference conserves on a fully periodic grid
        for mth in ("forward", "backward"):
            out.append((strat_grid(rng, "cart", nax, [True] * nax, False), "divergence", {"method": mth},
                        f"cart{nax}:divergence-{mth}:periodic"))
    for pat, choices in PER_PATTERNS[2].items():
        out.append((strat_grid(rng, "cart", 2, rng.choice(choices), False), "laplace",
                    {"corner_weight": rng.choice([0.5, 1 / 3, 0.25])}, f"cart2:laplace-9-point:{pat}"))
    for where in ("hole", "full", "full-any-inner"):
        hole = where == "hole"
        inner_s = {"inner": rng.choice(INNER_SCALAR)} if where == "full-any-inner" else {}
        inner_v = {"inner": rng.choice(INNER_VECTOR)} if where == "full-any-inner" else {}
        out.append((strat_grid(rng, "PolarSymGrid", 1, [False], hole), "laplace", dict(inner_s), f"polar:laplace:{where}"))
        out.append((strat_grid(rng, "SphericalSymGrid", 1, [False], hole), "laplace", dict(inner_s), f"sph:laplace:{where}"))
        out.append((strat_grid(rng, "SphericalSymGrid", 1, [False], hole), "divergence", dict(inner_v, conservative=True), f"sph:divergence:{where}"))
        for pz in (False, True):
            out.append((strat_grid(rng, "CylindricalSymGrid", 2, [False, pz], hole), "laplace", dict(inner_s),
                        f"cyl:laplace:{where}:{'periodic-z' if pz else 'walls-z'}"))
    return out


def cons_request(gd, op, kw, full):
    """request for the driver handler `c05.cons`: the term of the zero-sum theorems (Props/C05b.lean) for this case"""
    cls = CLS[gd["cls"]]
    nax = len(gd["shape"])
    dxs = [Fraction(b[1] - b[0]) / n for b, n in zip(gd["bounds"], gd["shape"])]
    req = {"cls": cls, "shape": gd["shape"], "lo": [q(b[0]) for b in gd["bounds"]], "dx": [q(d) for d in dxs],
           "per": [bool(p) for p in gd["periodic"]], "op": op, "vector": op == "divergence",
           "dim": c02.DIM.get(gd["cls"], nax), "data": [q(float(x)) for x in np.asarray(full).ravel()]}
    if "method" in kw:
        req["method"] = kw["method"]
    inner = kw.get("inner")
    if inner is not None:
        face = gd["shape"][1:]  # shape of the inner face (the z axis of a cylinder)
        nface = int(np.prod(face)) if face else 1
        rep = lambda v: [q(float(v))] * nface  # noqa
        if "value" in inner and inner.get("type") != "mixed":
            cond, normal = {"kind": "dirichlet", "v": rep(inner["value"])}, False
        elif "derivative" in inner:
            cond, normal = {"kind": "neumann", "v": rep(inner["derivative"])}, False
        elif inner.get("type") == "mixed":
            cond, normal = {"kind": "mixed", "v": rep(inner["value"]), "c": rep(inner["const"])}, False
        elif "normal_value" in inner:
            cond, normal = {"kind": "dirichlet", "v": rep(inner["normal_value"])}, True
        else:
            cond, normal = {"kind": "neumann", "v": rep(inner["normal_derivative"])}, True
        cond["vshape"] = face
        req["inner"] = {"normal": normal, "cond": cond}
    return req


def sim_case(arg):
    """integral of the state after every step of a short simulation"""
    import logging
    import pde

    logging.getLogger("pde").setLevel(logging.ERROR)
    eqname, gd, solver, backend, adaptive, dt, steps, seed = arg[:8]
    solver_kw = arg[8] if len(arg) > 8 else {}
    grid = c02.make_grid(gd)
    rs = np.random.RandomState(seed)
    state = pde.ScalarField(grid, rs.uniform(-1, 1, grid.shape))
    opts = arg[9] if len(arg) > 9 else {}
    conserved = lambda s: s  # noqa: the field whose integral must stay constant
    if eqname == "diffusion":
        eq = pde.DiffusionPDE(diffusivity=0.7, bc="auto_periodic_neumann")
    elif eqname == "cahn-hilliard":
        # only the condition of the chemical potential (the OUTER Laplacian) has to be conserving; the condition of the
        # field itself may be anything
        eq = pde.CahnHilliardPDE(interface_width=1.3, bc_c=opts.get("bc_c", "auto_periodic_neumann"), bc_mu="auto_periodic_neumann")
    else:  # generic PDE with two fields: `a` relaxes with non-conserving conditions, `c` is conserved
        other = opts.get("bc_a", {"value": 0.2})
        eq = pde.PDE({"a": "laplace(a) - a", "c": "laplace(c**3 - c + 0.5 * a)"} if opts.get("order", "ac") == "ac" else
                     {"c": "laplace(c**3 - c + 0.5 * a)", "a": "laplace(a) - a"},
                     bc_ops={"a:laplace": other, "c:laplace": "auto_periodic_neumann"})
        fa = pde.ScalarField(grid, rs.uniform(-1, 1, grid.shape), label="a")
        state.label = "c"
        state = pde.FieldCollection([fa, state] if opts.get("order", "ac") == "ac" else [state, fa])
        conserved = lambda s: s["c"]  # noqa
    rec = []
    vols = grid.cell_volumes
    tr = pde.CallbackTracker(lambda s, t: rec.append((t, float(conserved(s).integral), float(np.sum(vols * np.abs(conserved(s).data))))), interrupts=dt)
    kw = {"adaptive": True, "tolerance": 1e-3} if adaptive else {}
    kw.update(solver_kw)
    try:
        eq.solve(state, t_range=dt * steps, dt=dt, solver=solver, backend=backend, tracker=[tr], **kw)
    except Exception as e:  # noqa
        return {"error": f"{type(e).__name__}: {e}"}
    i0 = float(conserved(state).integral)
    scale = float(np.sum(grid.cell_volumes * np.abs(conserved(state).data))) + 1e-300
    return {"i0": i0, "rec": rec, "scale": scale}


def run_case(arg):
    """a short run of the real fixed-step solver; returns final data, steps, final time, integral"""
    import logging
    import pde

    logging.getLogger("pde").setLevel(logging.ERROR)
    gd, eqname, coef, solver, backend, dt, ts, te, data = arg[:9]
    skw = arg[9] if len(arg) > 9 else {}
    grid = c02.make_grid(gd)
    cons = lambda s: s  # noqa: the conserved field
    if eqname == "two-fields":  # data = cells of `a`, then cells of `c`; only `c` is conserved
        half = len(data) // 2
        fa = pde.ScalarField(grid, np.array(data[:half], dtype=float).reshape(grid.shape), label="a")
        fc = pde.ScalarField(grid, np.array(data[half:], dtype=float).reshape(grid.shape), label="c")
        state = pde.FieldCollection([fa, fc])
        eq = pde.PDE({"a": "laplace(a) - a", "c": f"laplace(c**3 - c + {coef!r} * a)"},
                     bc_ops={"a:laplace": "auto_periodic_dirichlet", "c:laplace": "auto_periodic_neumann"})
        cons = lambda s: s["c"]  # noqa
    else:
        state = pde.ScalarField(grid, np.array(data, dtype=float).reshape(grid.shape))
        if eqname == "diffusion":
            eq = pde.DiffusionPDE(diffusivity=coef, bc="auto_periodic_neumann")
        else:
            eq = pde.CahnHilliardPDE(interface_width=coef, bc_c="auto_periodic_neumann", bc_mu="auto_periodic_neumann")
    i0 = float(cons(state).integral)
    sc0 = float(np.sum(grid.cell_volumes * np.abs(cons(state).data)))
    try:
        res, info = eq.solve(state, t_range=(ts, te) if ts else te, dt=dt, solver=solver, backend=backend, tracker=None,
                             ret_info=True, **(skw or {"adaptive": False}))
    except Exception as e:  # noqa
        return {"error": f"{type(e).__name__}: {e}"}
    return {"data": [float(x) for x in res.data.ravel()], "steps": int(info["solver"]["steps"]),
            "t": float(info["controller"]["t_final"]), "i0": i0, "i1": float(cons(res).integral),
            "scale": max(sc0, float(np.sum(grid.cell_volumes * np.abs(cons(res).data)))) + 1e-300}


def judge_run(rr):
    """the property on one real run: the integral after the run equals the initial one (NaN-safe)"""
    return bool(abs(rr["i1"] - rr["i0"]) <= 1e-9 * rr["scale"])


RUN_STRATA = [  # (class, axes, scheme, equation, largest number of cells per axis, largest number of steps)
    ("cart", 1, "euler", "diffusion", 6, 6), ("cart", 1, "rk4", "diffusion", 5, 3), ("cart", 1, "euler", "cahn-hilliard", 5, 3),
    ("cart", 1, "rk4", "cahn-hilliard", 3, 1), ("cart", 2, "euler", "diffusion", 4, 4), ("cart", 2, "rk4", "diffusion", 3, 2),
    ("cart", 2, "euler", "cahn-hilliard", 3, 2), ("cart", 3, "euler", "diffusion", 3, 3), ("cart", 3, "rk4", "diffusion", 2, 1),
    ("polar", 1, "euler", "diffusion", 6, 5), ("polar", 1, "rk4", "diffusion", 5, 2), ("polar", 1, "euler", "cahn-hilliard", 5, 3),
    ("sph", 1, "euler", "diffusion", 6, 5), ("sph", 1, "rk4", "diffusion", 5, 2), ("sph", 1, "euler", "cahn-hilliard", 5, 3),
    ("cyl", 2, "euler", "diffusion", 4, 4), ("cyl", 2, "rk4", "diffusion", 3, 2), ("cyl", 2, "euler", "cahn-hilliard", 3, 2),
    # two coupled fields (`a` not conserved, `c` conserved): twoFieldRate
    ("cart", 1, "euler", "two-fields", 5, 3), ("cart", 2, "euler", "two-fields", 3, 2), ("cart", 1, "rk4", "two-fields", 3, 1),
    ("polar", 1, "euler", "two-fields", 4, 2), ("sph", 1, "euler", "two-fields", 4, 2), ("cyl", 2, "euler", "two-fields", 3, 2),
    ("cart", 3, "euler", "two-fields", 2, 2),
    # implicit Euler and Crank-Nicolson (fixed-point iterations; linear equation: exact rationals stay small)
    ("cart", 1, "implicit", "diffusion", 5, 3), ("cart", 2, "implicit", "diffusion", 3, 2), ("cart", 3, "crank-nicolson", "diffusion", 2, 2),
    ("cart", 1, "crank-nicolson", "diffusion", 5, 3), ("cart", 2, "crank-nicolson", "diffusion", 3, 2),
    ("polar", 1, "implicit", "diffusion", 5, 2), ("sph", 1, "crank-nicolson", "diffusion", 5, 2), ("sph", 1, "implicit", "diffusion", 4, 2),
    ("polar", 1, "crank-nicolson", "diffusion", 4, 2), ("cyl", 2, "implicit", "diffusion", 3, 2), ("cyl", 2, "crank-nicolson", "diffusion", 3, 2),
]
RUN_SOLVER = {"euler": "euler", "rk4": "runge-kutta", "implicit": "implicit", "crank-nicolson": "crank-nicolson"}
RUN_CLS = {"cart": "CartesianGrid", "polar": "PolarSymGrid", "sph": "SphericalSymGrid", "cyl": "CylindricalSymGrid"}


def gen_run(rng, stratum):
    cls, nax, scheme, eqname, nmax, smax = stratum
    shape = [rng.randint(1, nmax) for _ in range(nax)]
    dxs = [rng.choice([0.5, 1.0, 0.75, 0.25, 2.0]) for _ in range(nax)]
    lo = [rng.choice([0.0, 1.0, 0.5]) if (cls != "cart" and i == 0) else rng.choice([0.0, -1.0, 0.5]) for i in range(nax)]
    per = [False if (cls != "cart" and i == 0) else rng.random() < 0.5 for i in range(nax)]
    if cls in ("polar", "sph"):
        per = [False]
    gd = {"cls": RUN_CLS[cls], "shape": shape, "bounds": [[l, l + d * n] for l, d, n in zip(lo, dxs, shape)], "periodic": per}
    dt = rng.choice([1 / 64, 1 / 128, 3 / 256]) if eqname == "diffusion" else rng.choice([1 / 1024, 1 / 2048])
    if eqname == "two-fields":
        dt = rng.choice([1 / 256, 1 / 512])
    skw = {}
    if scheme in ("implicit", "crank-nicolson"):  # documented solver options; small steps so that the iteration contracts (mostly)
        dt = rng.choice([1 / 512, 1 / 1024, 1 / 256])
        skw = {"maxiter": rng.choice([100, 100, 6, 3]), "maxerror": rng.choice([2.0 ** -10, 2.0 ** -14, 2.0 ** -20])}
        if scheme == "crank-nicolson":
            skw["explicit_fraction"] = rng.choice([0, 0, 0.25, 0.5])
    steps = rng.randint(1, smax)
    # the end time is a multiple of dt, or off by a quarter / a half step (the step count is a rounding: ties to even)
    off = rng.choice([0, 0, 0.25, -0.25, 0.5]) if steps > 1 else rng.choice([0, 0.25, -0.5])
    ts = rng.choice([0, 0, 0.5])
    te = ts + (steps + off) * dt
    coef = rng.choice([0.5, 1.0, 0.25, 1.5])
    data = [rng.randint(-12, 12) / 4 for _ in range(int(np.prod(shape)) * (2 if eqname == "two-fields" else 1))]
    return {"grid": gd, "eq": eqname, "coef": coef, "scheme": scheme, "dt": dt, "ts": ts, "te": te, "data": data,
            "backend": rng.choice(["numpy", "numba"]), "solver_options": skw}


def run_request(c):
    gd = c["grid"]
    dxs = [Fraction(b[1] - b[0]) / n for b, n in zip(gd["bounds"], gd["shape"])]
    req = {"cls": CLS[gd["cls"]], "shape": gd["shape"], "lo": [q(b[0]) for b in gd["bounds"]], "dx": [q(d) for d in dxs],
           "per": [bool(p) for p in gd["periodic"]], "scheme": c["scheme"], "eq": c["eq"], "coef": q(c["coef"]),
           "dt": q(c["dt"]), "ts": q(c["ts"]), "te": q(c["te"]), "data": [q(x) for x in c["data"]]}
    skw = c.get("solver_options") or {}
    if skw:
        req.update({"maxiter": skw["maxiter"], "maxerror": q(skw["maxerror"]), "alpha": q(skw.get("explicit_fraction", 0))})
    return req


def run_leg(ctx):
    """correspondence of `cellRun` (the term of the run theorems) with real simulations"""
    from harness.common.lean import LeanBatch

    rng = ctx.rng
    n_run = ctx.budget(72, 288)
    cases = []
    while len(cases) < n_run:
        for st in RUN_STRATA:
            cases.append((gen_run(rng, st), "%s%d:%s:%s" % st[:4]))
    batch = LeanBatch(ctx.workdir)
    ids = [batch.add("c05.run", run_request(c)) for c, _ in cases]
    from concurrent.futures import ThreadPoolExecutor
    pool = ThreadPoolExecutor(1)
    fut = pool.submit(batch.run)  # the model driver (one process) works while the real runs are executed
    solver_name = RUN_SOLVER
    args = [(c["grid"], c["eq"], c["coef"], solver_name[c["scheme"]], c["backend"], c["dt"], c["ts"], c["te"], c["data"], c["solver_options"])
            for c, _ in cases]
    res = run_many("harness.c05", "run_case", args, env={"NUMBA_DISABLE_JIT": "1"}, procs=16)
    n_j = ctx.budget(3, 16)
    jit_ids = sorted(rng.sample(range(len(cases)), min(n_j, len(cases))))
    res_j = dict(zip(jit_ids, run_many("harness.c05", "run_case", [args[i][:4] + ("numba",) + args[i][5:] for i in jit_ids],
                                       env={"NUMBA_DISABLE_JIT": "0"}, procs=16)))
    answers = fut.result()
    pool.shutdown()
    for k, ((c, label), i) in enumerate(zip(cases, ids)):
        cls = CLS[c["grid"]["cls"]]
        ctx.count(c, nontrivial=len(set(c["data"])) > 1, leg="run")
        ctx.hist("run", label)
        st, ans = answers[i]
        for mode, rr in (("source", res[k]), ("jit", res_j.get(k))):
            if rr is None:
                continue
            key = dict(c, mode=mode)
            ctx.impl_traces += 1
            if not isinstance(rr, str) and "error" in rr and "ConvergenceError" in rr["error"]:
                ctx.hist("run-outcome", f"{c['scheme']}: ConvergenceError")
                if st == "ok":
                    ctx.disagree("run:convergence", key, "converges", rr["error"], "the real solver raised a ConvergenceError, the model's fixed-point loop returned")
                continue
            if isinstance(rr, str) or "error" in rr:
                ctx.disagree("run", key, "runs", rr if isinstance(rr, str) else rr["error"], "real run failed")
                continue
            ctx.hist("run-outcome", f"{c['scheme']}: ok")
            ctx.monitor_evals += 1
            if not judge_run(rr):
                ctx.monitor_fail("run", key, {"initial": rr["i0"], "final": rr["i1"], "scale": rr["scale"]}, "integral after the run = initial integral",
                                 f"{c['eq']} with {c['scheme']}/{c['backend']}: integral changes over a fixed-step run",
                                 key={"eq": c["eq"], "solver": solver_name[c["scheme"]], "backend": c["backend"]})
            if st != "ok":
                ctx.disagree("run", key, f"model error {ans}", "runs")
                continue
            ctx.hist("run-steps", str(rr["steps"]))
            if int(ans["steps"]) != rr["steps"]:
                ctx.disagree("run:steps", key, ans["steps"], rr["steps"], "total number of steps differs from solverRuns (stepCount per stepper call)")
                continue
            model = np.array([float(unq(x)) for x in ans["state"]])
            real = np.array(rr["data"])
            scale = 1.0 + float(np.abs(real).max()) + float(np.abs(model).max())
            if model.shape != real.shape or not np.all(np.abs(model - real) <= 1e-10 * scale):
                ctx.disagree("run:state", key, [float(x) for x in model], rr["data"], "state after the run differs from solverRuns")
            if abs(float(unq(ans["t"])) - rr["t"]) > 1e-12 * (1 + abs(rr["t"])):
                ctx.disagree("run:time", key, ans["t"], rr["t"], "returned time differs")
            pi = math.pi ** pi_power(cls)
            vol = 1.0 + abs(rr["i0"]) + abs(rr["i1"])
            if abs(float(unq(ans["mass0"])) * pi - rr["i0"]) > 1e-10 * vol or abs(float(unq(ans["mass1"])) * pi - rr["i1"]) > 1e-10 * vol * scale:
                ctx.disagree("run:integral", key, [ans["mass0"], ans["mass1"]], [rr["i0"], rr["i1"]], "cellMass differs from state.integral")
            if unq(ans["mass0"]) != unq(ans["mass1"]):
                ctx.disagree("run:theorem-term", key, ans["mass1"], ans["mass0"], "the model run does not keep cellMass exactly")


# ------------------------------------------------------------------------------------------
def run(ctx):
    run_leg(ctx)
    from harness.common.lean import LeanBatch

    rng = ctx.rng
    batch = LeanBatch(ctx.workdir)
    n_int = ctx.budget(160, 1500)
    jobs = []
    for k in range(n_int):
        if k % 4 == 3:
            op, rank, classes = "divergence", 1, ("cart", "sph", "polar", "cyl")
        else:
            op, rank, classes = "laplace", 0, None
        c = gen_case_rank(rng, rank, ctx.hist, classes, max_axes=3)
        cls = CLS[c["grid"]["cls"]]
        kw = {}
        if cls == "sph":
            kw["conservative"] = rng.random() < 0.7
            if op == "divergence":
                kw["method"] = rng.choice(["central", "central", "forward", "backward"])
                c["data"][1:] = 0  # spherical symmetry: only the radial component
        if cls == "cart" and op == "divergence":
            kw["method"] = rng.choice(["central", "central", "forward", "backward"])
        idx = batch.add("c05.integral", model_request(c, op, kw))
        jobs.append((c, op, kw, idx))
    answers = batch.run()
    kw_real = lambda kw: dict(kw, **({"safe": False} if "method" in kw and "conservative" in kw else {}))  # noqa
    res_s = run_many("harness.c05", "real_integral", [(c, op, kw_real(kw)) for c, op, kw, _ in jobs],
                     env={"NUMBA_DISABLE_JIT": "1"}, procs=16)
    n_j = ctx.budget(10, 80)
    jit_ids = sorted(rng.sample(range(len(jobs)), min(n_j, len(jobs))))
    res_j = dict(zip(jit_ids, run_many("harness.c05", "real_integral",
                                       [(jobs[i][0], jobs[i][1], kw_real(jobs[i][2])) for i in jit_ids],
                                       env={"NUMBA_DISABLE_JIT": "0"}, procs=16)))
    for ji, (c, op, kw, idx) in enumerate(jobs):
        g = c["grid"]
        cls = CLS[g["cls"]]
        key = {"grid": g, "op": op, "kw": kw, "spec": repr(c["spec"]), "t": c["t"],
               "data": [float(x) for x in c["data"].ravel()]}
        ctx.count(key, nontrivial=len(set(key["data"])) > 2, leg="integral")
        ctx.hist("integral", f"{cls}:{op}:{len(g['shape'])}d")
        st, val = answers[idx]
        for rname, rr in (("source", res_s[ji]), ("jit", res_j.get(ji))):
            if rr is None:
                continue
            ctx.impl_traces += 1
            if isinstance(rr, str) or "error" in rr:
                ctx.disagree("integral:" + rname, {k: key[k] for k in ("grid", "op", "kw", "spec")}, "runs",
                             rr if isinstance(rr, str) else rr["error"], "real code raised")
                continue
            if st != "ok":
                ctx.disagree("integral:" + rname, {k: key[k] for k in ("grid", "op", "kw", "spec")}, f"model error {val}", rr)
                continue
            model = float(unq(val)) * math.pi ** pi_power(cls)
            dxmin = min((b[1] - b[0]) / n for b, n in zip(g["bounds"], g["shape"]))
            valid = tuple([slice(None)] * c["rank"] + [slice(1, -1)] * len(g["shape"]))
            vmax = float(np.abs(c["data"][valid]).max()) if c["data"][valid].size else 0.0  # not the ghost-cell markers
            nvol = float(np.prod([b[1] - b[0] for b in g["bounds"]])) * (1.0 + abs(g["bounds"][0][1]) ** (2 if cls == "sph" else 1 if cls != "cart" else 0))
            scale = 1.0 + abs(model) + (rr["max"] + vmax / dxmin ** 2) * nvol
            if not (abs(model - rr["integral"]) <= 1e-11 * scale):
                ctx.disagree("integral:" + rname, key, model, rr["integral"], "volume-weighted sum differs")

    # ---- zero leg: the property monitor (and the correspondence of the theorems' ghost-cell composition) ------------
    n_zero = ctx.budget(132, 1200)
    zjobs = []
    strata = zero_strata(rng)
    per_stratum = max(1, n_zero // len(strata))
    for rep_ in range(per_stratum):
        for gd, op, kw, label in (strata if rep_ == 0 else zero_strata(rng)):
            zjobs.append((gd, op, rng.randint(0, 10 ** 6), kw, label))
    while len(zjobs) < n_zero:  # the rest: seed-derived grids as before
        op = "divergence" if len(zjobs) % 3 == 2 else "laplace"
        while True:
            gd = c02.gen_grid(rng, min_cells=1)
            cls = CLS[gd["cls"]]
            if op == "divergence" and cls not in ("cart", "sph"):
                continue
            break
        kw = {}
        if op == "divergence" and cls == "sph":
            kw = {"conservative": True}
        if op == "laplace" and cls == "cart" and len(gd["shape"]) == 2 and rng.random() < 0.5:
            kw = {"corner_weight": rng.choice([0.5, 1 / 3, 0.25])}  # documented 9-point stencils
        zjobs.append((gd, op, rng.randint(0, 10 ** 6), kw, "random"))
    res_z = run_many("harness.c05", "zero_case", [j[:4] for j in zjobs], env={"NUMBA_DISABLE_JIT": "1"}, procs=16)
    # a subset again with the compiled kernels (one stratum each; compilation costs seconds per case)
    n_zj = ctx.budget(8, 48)
    zj_ids = sorted(rng.sample(range(min(len(strata) * per_stratum, len(zjobs))), min(n_zj, len(zjobs))))
    res_zj = run_many("harness.c05", "zero_case", [zjobs[i][:4] for i in zj_ids], env={"NUMBA_DISABLE_JIT": "0"}, procs=16)
    for i, rr in zip(zj_ids, res_zj):
        gd, op, seed, kw, label = zjobs[i]
        key = {"grid": gd, "op": op, "seed": seed, "kw": kw, "mode": "jit"}
        ctx.count(key, nontrivial=True, leg="zero")
        ctx.hist("zero-jit", label)
        ctx.monitor_evals += 1
        if isinstance(rr, str):
            ctx.disagree("zero", key, "runs", rr[-500:], "real code raised (compiled kernels)")
            continue
        val, scale, mx = rr[:3]
        if not (abs(val) <= 1e-10 * max(scale, 1e-300)):
            ctx.monitor_fail("zero", key, {"integral": val, "scale": scale, "max_abs_result": mx},
                             "|integral| <= 1e-10*scale", f"{CLS[gd['cls']]} {op}: conserving conditions do not integrate to zero",
                             key={"cls": CLS[gd["cls"]], "op": op})
    zbatch = LeanBatch(ctx.workdir)
    zidx = {}
    for k, ((gd, op, seed, kw, label), rr) in enumerate(zip(zjobs, res_z)):
        if not isinstance(rr, str) and "corner_weight" not in kw:  # the 9-point stencil has its own model (Props/C01Nine)
            zidx[k] = zbatch.add("c05.cons", cons_request(gd, op, kw, rr[3]))
    zans = zbatch.run()
    for k, ((gd, op, seed, kw, label), rr) in enumerate(zip(zjobs, res_z)):
        key = {"grid": gd, "op": op, "seed": seed, "kw": kw, "mode": "source"}
        cls = CLS[gd["cls"]]
        ctx.count(key, nontrivial=True, leg="zero")
        where = ("full-any-inner" if kw.get("inner") else "hole" if gd["bounds"][0][0] else "full") if cls != "cart" else "-"
        pat = "periodic" if all(gd["periodic"]) else "mixed" if any(gd["periodic"]) else "walls"
        ctx.hist("zero", f"{cls}:{op}:{len(gd['shape'])}d:{where}:{pat}")
        ctx.hist("zero-stratum", label)
        if "corner_weight" in kw:
            ctx.hist("zero-9-point", f"periodic={gd['periodic']}")
        if "method" in kw:
            ctx.hist("zero-onesided", f"{kw['method']}:{len(gd['shape'])}d")
        if kw.get("inner"):
            ctx.hist("zero-inner", f"{cls}:{sorted(kw['inner'])}")
        ctx.monitor_evals += 1
        if isinstance(rr, str):
            ctx.disagree("zero", key, "runs", rr[-500:], "real code raised")
            continue
        val, scale, mx, full, ghost = rr
        if not (abs(val) <= 1e-10 * max(scale, 1e-300)):
            ctx.monitor_fail("zero", key, {"integral": val, "scale": scale, "max_abs_result": mx},
                             "|integral| <= 1e-10*scale", f"{cls} {op}: conserving conditions do not integrate to zero",
                             key={"cls": cls, "op": op})
        if k in zidx:  # the composition the theorems are about: same ghost cells as the real code, and exactly zero
            ctx.impl_traces += 1
            st, ans = zans[zidx[k]]
            if st != "ok":
                ctx.disagree("cons", key, f"model error {ans}", "runs")
                continue
            bad = c02.compare_arrays([unq(x) for x in ans["ghost"]], ghost, 1.0)
            if bad is not None:
                ctx.disagree("cons:ghost-cells", key, str(ans["ghost"][bad]) if bad >= 0 else "shape", float(np.asarray(ghost).ravel()[bad]) if bad >= 0 else "shape",
                             f"set_ghost_cells of the conserving conditions differs from setGhostAll (consFaces ...) at flat index {bad}")
            if unq(ans["integral"]) != 0:
                ctx.disagree("cons:theorem-term", key, ans["integral"], val, "the term of the zero-sum theorem does not evaluate to exactly 0")

    # ---- sim leg -----------------------------------------------------------------------------------
    solvers = [("euler", False), ("runge-kutta", False), ("implicit", False), ("crank-nicolson", False),
               ("adams-bashforth", False), ("scipy", False), ("euler", True), ("runge-kutta", True)]
    sjobs = []
    n_sim = ctx.budget(48, 320)
    for k in range(n_sim):
        eqname = rng.choice(["diffusion", "cahn-hilliard", "cahn-hilliard", "two-fields"])
        cls_pick = rng.choice(["CartesianGrid", "CartesianGrid", "PolarSymGrid", "SphericalSymGrid", "CylindricalSymGrid"])
        nax = {"PolarSymGrid": 1, "SphericalSymGrid": 1, "CylindricalSymGrid": 2}.get(cls_pick) or rng.choice([1, 2, 2, 3])
        shape = [rng.randint(4, 8) if nax < 3 else rng.randint(3, 4) for _ in range(nax)]
        dxs = [rng.choice([0.5, 1.0, 0.75]) for _ in range(nax)]
        lo = [rng.choice([0.0, 1.0]) if (cls_pick != "CartesianGrid" and i == 0) else 0.0 for i in range(nax)]
        per = [False if (cls_pick in ("PolarSymGrid", "SphericalSymGrid") or (cls_pick == "CylindricalSymGrid" and i == 0)) else rng.random() < 0.5 for i in range(nax)]
        gd = {"cls": cls_pick, "shape": shape, "bounds": [[l, l + d * n] for l, d, n in zip(lo, dxs, shape)], "periodic": per}
        solver, adaptive = solvers[k % len(solvers)]
        dt = 2e-4 if eqname != "diffusion" else 5e-3
        eopts = {}
        if eqname == "cahn-hilliard":
            eopts = {"bc_c": rng.choice(["auto_periodic_neumann", "auto_periodic_neumann", "auto_periodic_dirichlet",
                                         {"derivative": 0.6} if not any(per) else "auto_periodic_neumann"])}
        elif eqname == "two-fields":
            eopts = {"order": rng.choice(["ac", "ca"]),
                     "bc_a": rng.choice(["auto_periodic_dirichlet", "auto_periodic_dirichlet"] + ([{"value": 0.2}] if not any(per) else []))}
        # half of the runs use the numba backend (source semantics here): the compiled right-hand sides are separate code
        # documented solver options (a conserved quantity must not depend on them)
        skw = {}
        if solver == "crank-nicolson":
            skw = rng.choice([{}, {"explicit_fraction": 0.3}, {"explicit_fraction": 0.5}, {"explicit_fraction": 0.1, "maxiter": 200}])
        elif solver == "implicit":
            skw = rng.choice([{}, {"maxiter": 200, "maxerror": 1e-6}])
        elif solver == "scipy":
            skw = rng.choice([{}, {"method": "RK23"}, {"method": "DOP853"}])
        elif adaptive:
            skw = rng.choice([{}, {"tolerance": 1e-2}, {"tolerance": 1e-5}])
        sjobs.append((eqname, gd, solver, rng.choice(["numpy", "numba"]), adaptive, dt, rng.choice([3, 10, 25]), rng.randint(0, 10 ** 6), skw, eopts))
    res_sim = run_many("harness.c05", "sim_case", sjobs, env={"NUMBA_DISABLE_JIT": "1"}, procs=16)
    n_simj = ctx.budget(4, 24)
    jobs_j = [tuple(list(j[:3]) + ["numba"] + list(j[4:])) for j in rng.sample(sjobs, min(n_simj, len(sjobs)))]  # compiled
    res_simj = run_many("harness.c05", "sim_case", jobs_j, env={"NUMBA_DISABLE_JIT": "0"}, procs=16)
    for mode, job, rr in [("source", j, r) for j, r in zip(sjobs, res_sim)] + [("jit", j, r) for j, r in zip(jobs_j, res_simj)]:
        eqname, gd, solver, backend, adaptive, dt, steps, seed, skw, eopts = job
        key = {"eq": eqname, "grid": gd, "solver": solver, "backend": backend, "adaptive": adaptive, "dt": dt, "steps": steps, "seed": seed,
               "solver_options": skw, "equation_options": eopts, "mode": mode}
        if eopts:
            ctx.hist("equation-options", f"{eqname}:{sorted((k, str(v)) for k, v in eopts.items())}")
        ctx.count(key, nontrivial=True, leg="sim")
        ctx.hist("sim", f"{eqname}:{solver}{'(adaptive)' if adaptive else ''}:{backend}:{CLS[gd['cls']]}")
        ctx.hist("sim-grid", f"{CLS[gd['cls']]}:{len(gd['shape'])}d:{mode}")
        if skw:
            ctx.hist("solver-options", f"{solver}:{sorted(skw.items())}")
        ctx.monitor_evals += 1
        if isinstance(rr, str) or "error" in rr:
            ctx.disagree("sim", key, "runs", rr if isinstance(rr, str) else rr["error"], "simulation failed")
            continue
        # scale = largest sum(volume*|state|) seen so far (an unstable run may grow by many orders of magnitude)
        dev, bad_dev, sc, judged = judge_sim(rr)
        if judged < len(rr["rec"]):
            ctx.hist("sim-unstable", f"{eqname}:{solver}: blow-up after {judged} records (not judged beyond)")
        if bad_dev or len(rr["rec"]) < 2:
            ctx.monitor_fail("sim", key, {"initial": rr["i0"], "recorded": rr["rec"][:8], "max_relative_deviation": dev},
                             "integral constant at every step", f"{eqname} with {solver}/{backend}: integral drifts",
                             key={"eq": eqname, "solver": solver, "backend": backend})


def judge_sim(rr):
    """(max relative deviation, drift?, scale, number of judged records).  The scale is the largest sum(volume*|state|)
    seen so far; a non-finite integral is a drift; records after a numerical blow-up (state grown by more than 1e6 or
    non-finite) are not judged - conservation in floating point is not decidable there"""
    dev, bad, sc, judged = 0.0, False, rr["scale"], 0
    for rec_ in rr["rec"]:
        if not np.isfinite(rec_[2]) or rec_[2] > 1e6 * max(rr["scale"], 1e-300):
            break
        judged += 1
        sc = max(sc, rec_[2])
        d_ = abs(rec_[1] - rr["i0"])
        if not (d_ <= 1e-9 * sc):
            bad = True
        dev = max(dev, d_ / sc if np.isfinite(d_) else float("inf"))
    return dev, bad, sc, judged


def replay(ctx, rep):
    """re-runs the recorded case in the recorded execution mode (fresh interpreter, numba kernels with source semantics or
    compiled) and judges the recorded symptom"""
    from harness.common.isolated import run_one

    c = rep["case"]
    if rep["leg"] == "zero":
        rr = run_one("harness.c05", "zero_case", (c["grid"], c["op"], c["seed"], c.get("kw", {})),
                     env={"NUMBA_DISABLE_JIT": "0" if c.get("mode") == "jit" else "1"})
        if isinstance(rr, str):
            print(rr[-800:])
            return False
        val, scale, mx = rr[:3]
        print("integral", val, "scale", scale, "max |result|", mx)
        return bool(abs(val) <= 1e-10 * max(scale, 1e-300))
    if rep["leg"] == "sim":
        jit = c.get("mode", "source") == "jit"
        rr = run_one("harness.c05", "sim_case", (c["eq"], c["grid"], c["solver"], c["backend"], c["adaptive"], c["dt"], c["steps"], c["seed"],
                                                 c.get("solver_options", {}), c.get("equation_options", {})),
                     env={"NUMBA_DISABLE_JIT": "0" if jit else "1"})
        print(rr)
        if isinstance(rr, str) or "error" in rr:
            return False
        dev, bad, sc, judged = judge_sim(rr)
        return not bad and len(rr["rec"]) >= 2
    if rep["leg"] == "run":
        rr = run_one("harness.c05", "run_case", (c["grid"], c["eq"], c["coef"], RUN_SOLVER[c["scheme"]],
                                                 "numba" if c.get("mode") == "jit" else c["backend"], c["dt"], c["ts"], c["te"], c["data"],
                                                 c.get("solver_options", {})),
                     env={"NUMBA_DISABLE_JIT": "0" if c.get("mode") == "jit" else "1"})
        print(rr)
        if isinstance(rr, str) or "error" in rr:
            return False
        return judge_run(rr)
    # the integral and cons legs only produce model/code disagreements (broken ties); run.py replays those by re-running the
    # whole check of the recorded seed and tier (kind == "no-failing-input-found") and never calls this function for them
    print(f"leg {rep['leg']!r} has no property monitor of its own: cannot be replayed as a failing input -> REPLAY-FAIL")
    return False
