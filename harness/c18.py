"""C18 - Poisson/Laplace solvers return solutions of the discrete problem.

Legs:
  matrix : `_get_laplace_matrix(bcs)` (dense matrix and vector) of the real scipy backend vs the Lean
           model `PdeVerif.Matrix` over exact rationals, for every grid class and random conditions per
           side (value, derivative, mixed, curvature, periodic; homogeneous and per-face arrays).
  solve  : `solve_poisson_equation` / `solve_laplace_equation` on the same problems; the returned field is
           fed back into `field.laplace(bc)` (numba stencil route) and must reproduce the right-hand side to solver
           accuracy (the solver's own acceptance test, per row; non-finite values fail).
           Every problem is classified independently of the solver: exact rank of the model matrix over Q and
           the distance of `rhs - vec` from the range of the real matrix.  Problems without a solution must raise
           RuntimeError instead of returning a field; a RuntimeError on a problem that HAS a solution (full rank,
           or singular with the right-hand side in the range) is a monitor failure as well: "problems without a
           solution are reported as errors" is judged in both directions."""
import math
from fractions import Fraction

import numpy as np

from harness import c02
from harness.common.num import q, unq, arr_far
from harness.common.isolated import run_many

PID = "C18"
LEVEL = "proof"
EXTRA_PROP_FILES = ["C18b"]  # matrix route = stencil route on the array the ghost-cell setter (BC.setGhostAll) produces
REQUIRED_THEOREMS = [
    "ghostValue_eq_bcData", "cart1_matrix_eq_laplace_after_setter", "polar_matrix_eq_laplace_after_setter",
    "polar_disk_matrix_eq_laplace_after_setter", "sph_matrix_eq_laplace_after_setter", "sph_ball_matrix_eq_laplace_after_setter",
    "cart2_matrix_eq_laplace_after_setter", "cyl_matrix_eq_laplace_after_setter", "cart3_matrix_eq_laplace_after_setter",
    "rowEntry_add_only", "matvec_set_first", "axisOps_apply", "bcData_ghost", "bcData_entries_lt", "axisOps_adds",
    "cart1_row_apply", "cart2_row_apply", "cart3_row_apply", "cyl_row_apply",
    # rows = stencil of C01 on the ghost-extended array, every class, also r_min = 0 (all rows)
    "cart1_matrix_eq_laplace_with_bc", "cart2_matrix_eq_laplace_with_bc", "cart3_matrix_eq_laplace_with_bc",
    "polar_matrix_eq_laplace_with_bc", "polar_rmin0_row_eq_laplace", "polar_disk_matrix_eq_laplace",
    "sph_matrix_eq_laplace_with_bc", "sph_ball_matrix_eq_laplace", "cyl_matrix_eq_laplace_with_bc",
    # the assembled entries the driver evaluates (rowEntry / matvec) = the terms, for every row program
    "cart1_matvec_eq_progSum", "polar_matvec_eq_progSum", "sph_matvec_eq_progSum", "cart2_matvec_eq_progSum",
    "cart3_matvec_eq_progSum", "cyl_matvec_eq_progSum",
    # composition with bcData
    "cart1_assembled_eq_laplace", "polar_assembled_eq_laplace", "polar_disk_assembled_eq_laplace", "sph_assembled_eq_laplace",
    "sph_ball_assembled_eq_laplace", "cart2_assembled_eq_laplace", "cart3_assembled_eq_laplace", "cyl_assembled_eq_laplace",
    "padded_line_exists", "padded_plane_exists",
    "residual_identity", "curvature_row_degenerate", "curvature_row_degenerate_upper", "curvature_row_vanishes",
    "curvature_row_vanishes_upper",
]
RULE = ("seed-derived grids of all classes with 2-5 cells per axis (1-3 axes Cartesian, polar, spherical, cylindrical; "
        "with/without hole; periodic flags), one condition per side from value/derivative/mixed/curvature/periodic with "
        "scalar or per-face-array values; right-hand sides random, or made compatible for singular problems; distinct by "
        "the whole case; non-trivial if the matrix has an inhomogeneous vector or non-Dirichlet rows")
ASSUMPTIONS = ["matrix entries compared at 1e-11 relative to the largest entry", "spsolve/lsmr are external: their output is checked by the residual, never trusted"]
TRUSTED_EXTRA = ["scipy.sparse dok semantics (assignment vs accumulate) are mirrored by the model's row programs"]

MODS = {"cart": "cartesian", "polar": "polar_sym", "sph": "spherical_sym", "cyl": "cylindrical_sym"}
CLS = {"UnitGrid": "cart", "CartesianGrid": "cart", "PolarSymGrid": "polar", "SphericalSymGrid": "sph", "CylindricalSymGrid": "cyl"}


KINDS = {"dirichlet", "neumann", "mixed", "curvature", "periodic", "antiperiodic"}


SINGULAR_KINDS = {"neumann", "curvature", "periodic"}


def gen_case(rng, singular=False):
    """the conditions of the property's quantifier (value, derivative, mixed, curvature, periodic) on scalar fields;
    expression conditions have no sparse-matrix data and are outside the quantifier; a Robin coefficient with
    2 + dx*gamma = 0 has no finite virtual-point formula (C02) and is not drawn here.
    `singular`: the stratum of pure Neumann / periodic / curvature problems, whose matrices are singular - the problems
    for which the statement demands an error (incompatible right-hand side) or a solution (compatible one)"""
    while True:
        c = c02.gen_case(rng, lambda *a, **k: None)
        g = c["grid"]
        if c["rank"] != 0 or min(g["shape"]) < 2:
            continue
        if any(s["kind"] not in (SINGULAR_KINDS if singular else KINDS) for s in c["sides"].values()):
            continue
        ok = True
        for (ax, _up), s in c["sides"].items():
            if s["kind"] == "mixed":
                dx = Fraction(g["bounds"][ax][1] - g["bounds"][ax][0]) / g["shape"][ax]
                try:
                    ok = ok and all(2 + dx * Fraction(x) != 0 for x in s["v"])
                except (ValueError, OverflowError, TypeError):  # non-finite coefficient
                    ok = False
        if ok:
            return c


EDGE_ALIAS = {"dirichlet": "value", "neumann": "derivative", "curvature": "curvature"}


def edge_case(gd, conds):
    """a hand-picked case in the format of `c02.gen_case` (scalar values): conds = {(axis, upper): (kind, value)}"""
    axes = list(c02.AXES[gd["cls"]])
    sides, spec = {}, {}
    for ax in range(len(gd["shape"])):
        if gd["periodic"][ax]:
            for up in (False, True):
                sides[(ax, up)] = {"kind": "periodic", "normal": False, "v": None, "c": None, "vshape": [], "alias": "periodic"}
            spec[axes[ax]] = "periodic"
            continue
        for up in (False, True):
            kind, val = conds[(ax, up)]
            sides[(ax, up)] = {"kind": kind, "normal": False, "v": [Fraction(val)], "c": None, "vshape": [], "alias": EDGE_ALIAS[kind]}
            spec[axes[ax] + ("+" if up else "-")] = {EDGE_ALIAS[kind]: float(val)}
    return {"grid": gd, "rank": 0, "sides": sides, "spec": spec, "edge": True}


def edge_cases():
    """singular problems at the corners of the solver's code paths, present in every run (each was found by the random
    generator first): vanishing matrix rows (curvature on a Cartesian axis), the zero matrix, pure Neumann on an
    anisotropic grid, a singular matrix whose float image is regular, rank deficiency 2"""
    def cart(shape, bounds, periodic=None):
        return {"cls": "CartesianGrid", "shape": shape, "bounds": bounds, "periodic": periodic or [False] * len(shape)}
    cu, ne, di = "curvature", "neumann", "dirichlet"
    return [
        edge_case(cart([2, 2], [[-2.75, -1.25], [0.0, 0.25]], [False, True]), {(0, False): (cu, -0.5), (0, True): (cu, -0.5)}),
        edge_case({"cls": "UnitGrid", "shape": [4], "bounds": [[0.0, 4.0]], "periodic": [False]}, {(0, False): (cu, 0.5), (0, True): (cu, -1.0)}),
        edge_case(cart([4, 3], [[0.0, 8.0], [0.0, 0.375]]), {(0, False): (ne, 0), (0, True): (ne, 0), (1, False): (ne, 0), (1, True): (ne, 0)}),
        edge_case({"cls": "PolarSymGrid", "shape": [2], "bounds": [[2.25, 2.5]], "periodic": [False]}, {(0, False): (cu, 1.0), (0, True): (cu, -2.0)}),
        edge_case(cart([2], [[0.0, 1.0]]), {(0, False): (cu, 1.0), (0, True): (cu, 1.0)}),
        edge_case({"cls": "SphericalSymGrid", "shape": [3], "bounds": [[0.0, 1.5]], "periodic": [False]}, {(0, False): (ne, 0), (0, True): (ne, 0.5)}),
        edge_case(cart([3, 2], [[0.0, 0.375], [3.0, 5.0]]), {(0, False): (cu, -0.25), (0, True): (cu, -0.25), (1, False): (di, 2.0), (1, True): (cu, -1.0)}),
    ]


def model_request(case):
    g = case["grid"]
    nax = len(g["shape"])
    faces = []
    for ax in range(nax):
        pair = []
        for up in (False, True):
            s = case["sides"][(ax, up)]
            npts = int(np.prod([g["shape"][j] for j in range(nax) if j != ax])) if nax > 1 else 1
            pts = []
            for p in range(npts):
                if s["kind"] in ("periodic", "antiperiodic"):
                    pts.append({"kind": s["kind"]})
                    continue
                v = s["v"][p] if len(s["v"]) > 1 else s["v"][0]
                d = {"kind": s["kind"], "v": q(v)}
                if s["c"] is not None:
                    d["c"] = q(s["c"][p] if len(s["c"]) > 1 else s["c"][0])
                pts.append(d)
            pair.append(pts)
        faces.append(pair)
    return {"cls": CLS[g["cls"]], "shape": g["shape"], "lo": [q(b[0]) for b in g["bounds"]],
            "dx": [q(Fraction(b[1] - b[0]) / n) for b, n in zip(g["bounds"], g["shape"])], "faces": faces}


def _solve_record(pde, grid, spec, M, vec, tag, rhs, laplace_eq=False):
    """one solve of the real code; the returned field is fed back into `field.laplace(bc)`"""
    rec = {"tag": tag, "rhs": rhs}
    try:
        if laplace_eq:
            sol = pde.solve_laplace_equation(grid, spec)
        else:
            sol = pde.solve_poisson_equation(pde.ScalarField(grid, rhs.reshape(grid.shape)), spec)
        back = sol.laplace(bc=spec)
        rec["sol"] = np.array(sol.data, dtype=float).ravel()
        rec["back"] = np.array(back.data, dtype=float).ravel()
    except Exception as e:  # noqa
        rec["raised"] = f"{type(e).__name__}: {e}"[:200]
        cause = e.__cause__ if e.__cause__ is not None else e
        rec["cause"] = f"{type(cause).__name__}: {cause}"[:200]
    return rec


def real_case(arg):
    import logging
    import importlib
    import pde

    logging.getLogger("pde").setLevel(logging.CRITICAL)
    logging.getLogger("pde.backends.scipy.operators.common").setLevel(logging.CRITICAL)
    case, rhs_seed = arg
    grid = c02.make_grid(case["grid"])
    cls = CLS[case["grid"]["cls"]]
    mod = importlib.import_module("pde.backends.scipy.operators." + MODS[cls])
    out = {}
    try:
        bcs = grid.get_boundary_conditions(case["spec"], rank=0)
        m, v = mod._get_laplace_matrix(bcs)
        out["m"] = np.asarray(m.todense())
        out["v"] = np.asarray(v.todense()).ravel()
    except Exception as e:  # noqa
        return {"error": f"{type(e).__name__}: {e}"}
    rs = np.random.RandomState(rhs_seed)
    M, vec = out["m"], out["v"]
    n = M.shape[0]
    # right-hand sides: random; and one in the range of the matrix (always solvable)
    rhs_list = [("random", rs.uniform(-2, 2, n)), ("in-range", M @ rs.uniform(-2, 2, n) + vec)]
    out["sols"] = [_solve_record(pde, grid, case["spec"], M, vec, tag, rhs) for tag, rhs in rhs_list]
    # Laplace equation (rhs = 0)
    out["sols"].append(_solve_record(pde, grid, case["spec"], M, vec, "laplace-eq", np.zeros(n), laplace_eq=True))
    return out


# ------------------------------------------------------------------------------------------
# classification of a linear problem `M x = rhs - vec` (independent of the solver under test)
def exact_rank(entries, n):
    """rank over Q of the n x n matrix given by (row, col, Fraction) triples"""
    rows = [dict() for _ in range(n)]
    for r_, c_, v_ in entries:
        if v_ != 0:
            rows[r_][c_] = v_
    rank = 0
    for col in range(n):
        piv = next((i for i in range(rank, n) if rows[i].get(col)), None)
        if piv is None:
            continue
        rows[rank], rows[piv] = rows[piv], rows[rank]
        pr = rows[rank]
        pv = pr[col]
        for i in range(rank + 1, n):
            f = rows[i].get(col)
            if f:
                f = f / pv
                ri = rows[i]
                for k, x in pr.items():
                    nv = ri.get(k, 0) - f * x
                    if nv:
                        ri[k] = nv
                    else:
                        ri.pop(k, None)
        rank += 1
    return rank


def float_rank(M):
    """numerical rank of the real dense matrix (fallback when the exact model matrix is not available)"""
    sv = np.linalg.svd(M, compute_uv=False)
    return int(np.sum(sv > 1e-9 * max(sv[0], 1e-300))) if len(sv) else 0


def classify(M, vec, rhs, rank):
    """-> (class, dist, cond): class in {"well-posed", "ill-conditioned", "consistent", "inconsistent", "borderline"};
    dist = max-norm distance of `rhs - vec` from the range of M (M has the given rank: range = span of the first
    `rank` left singular vectors); cond = ratio of the largest to the `rank`-th singular value"""
    n = M.shape[0]
    b = rhs - vec
    U, sv, _ = np.linalg.svd(M)
    cond = float(sv[0] / sv[rank - 1]) if rank else 1.0   # rank 0: the zero matrix, its range is {0}
    scale = 1.0 + float(np.abs(b).max())
    if rank == n:
        return ("well-posed" if cond <= 1e8 else "ill-conditioned"), 0.0, cond
    Ur = U[:, :rank]
    dist = float(np.abs(b - Ur @ (Ur.T @ b)).max())
    if cond > 1e8:
        return "ill-conditioned", dist, cond
    if dist <= 1e-9 * scale:
        return "consistent", dist, cond
    if dist > 1e-3 * scale:
        return "inconsistent", dist, cond
    return "borderline", dist, cond


def solver_tolerance(M, vec, rhs, sol):
    """`solver accuracy` per row: the solver accepts x iff allclose(M x, rhs - vec, rtol=1e-5, atol=1e-5), and the
    feed-back through the stencil route differs from `M x + vec` by round-off only (a factor 2 of slack)"""
    b = rhs - vec
    rnd = 1e-11 * (1.0 + float(np.abs(M).max())) * (1.0 + float(np.abs(sol).max()) if np.all(np.isfinite(sol)) else 1.0)
    return 2e-5 * (1.0 + np.abs(b)) + rnd


def judge(cls, kinds, M, vec, rec, rank):
    """the property monitor for one solve -> None or (observed, expected, what, key)"""
    rhs = rec["rhs"]
    kind, dist, cond = classify(M, vec, rhs, rank)
    info = {"problem_class": kind, "rank": rank, "n": int(M.shape[0]), "distance_of_rhs_from_range": dist}
    if "raised" in rec:
        if not rec["raised"].startswith("RuntimeError"):
            return (dict(info, raised=rec["raised"]), "a field or RuntimeError", "solver raised an unexpected exception class",
                    {"cls": cls, "symptom": "unexpected-exception"}), kind
        if kind == "well-posed":
            return (dict(info, raised=rec["raised"], cause=rec["cause"], condition_number=cond),
                    "a field: the matrix has full rank", f"{cls}: solver raised on a well-posed problem (unique solution exists)",
                    {"call_site": "make_general_poisson_solver", "symptom": "raised-on-full-rank-system"}), kind
        if kind == "consistent":
            cause = ("spsolve-RuntimeError" if "factorize" in rec["cause"] else
                     "lsmr-not-converged" if "could not be solved" in rec["cause"] else "other")
            return (dict(info, raised=rec["raised"], cause=rec["cause"]),
                    "a field: the right-hand side is in the range of the (singular) matrix",
                    f"{cls}: solver raised although the problem has a solution ({cause})",
                    {"call_site": "make_general_poisson_solver", "symptom": "raised-on-consistent-singular-system", "cause": cause}), kind
        return None, kind
    sol, back = rec["sol"], rec["back"]
    if kind == "inconsistent":
        finite = bool(np.all(np.isfinite(sol)))
        # a "solution" so large that the round-off of evaluating `M x` exceeds the solver's tolerance: the solver's
        # residual test cannot tell it from a solution (spsolve on a matrix that is singular up to one ulp)
        huge = finite and bool(np.any(np.finfo(float).eps * (np.abs(M) @ np.abs(sol)) > 1e-5 * (1.0 + np.abs(rhs - vec))))
        key = ({"call_site": "make_general_poisson_solver", "symptom": "unsolvable-returned", "cause": "residual-test-below-roundoff"}
               if huge else {"cls": cls, "symptom": "unsolvable-returned"})
        return (dict(info, residual=float(np.abs(back - rhs).max()) if np.all(np.isfinite(back)) else "non-finite",
                     max_abs_solution=float(np.abs(sol).max()) if finite else "non-finite"),
                "RuntimeError for a problem without solution", f"{cls}: unsolvable problem returned a field"
                + (" (huge vector that passes the solver's residual test by round-off)" if huge else ""), key), kind
    tol = solver_tolerance(M, vec, rhs, sol)
    if arr_far(back, rhs, tol):
        with np.errstate(invalid="ignore"):
            d = np.abs(back - rhs)
        i_ = int(np.argmax(np.where(np.isfinite(d), d / tol, np.inf)))
        mres = M @ sol + vec - rhs
        return (dict(info, row=i_, residual_of_laplace_bc=float(d[i_]), matrix_residual=float(np.abs(mres).max()) if np.all(np.isfinite(mres)) else "non-finite",
                     finite=bool(np.all(np.isfinite(sol)))),
                f"|laplace(solution) - rhs|[{i_}] <= {float(tol[i_]):.2g}", f"{cls}: returned field does not solve the discrete problem",
                {"cls": cls, "kinds": ",".join(kinds)}), kind
    return None, kind


def run(ctx):
    from harness.common.lean import LeanBatch

    rng = ctx.rng
    n = ctx.budget(400, 2000)
    batch = LeanBatch(ctx.workdir)
    cases = edge_cases() + [gen_case(rng, singular=(i % 4 == 3)) for i in range(n)]
    reqs = [batch.add("c18.matrix", model_request(c)) for c in cases]
    answers = batch.run()
    res = run_many("harness.c18", "real_case", [(c, rng.randint(0, 10 ** 6)) for c in cases],
                   env={"NUMBA_DISABLE_JIT": "1"}, procs=16)
    for c, ri, rr in zip(cases, reqs, res):
        g = c["grid"]
        cls = CLS[g["cls"]]
        kinds = sorted({s["kind"] for s in c["sides"].values()})
        key = {"grid": g, "spec": repr(c["spec"])}
        ctx.count(key, nontrivial=True, leg="matrix")
        if c.get("edge"):
            ctx.hist("stratum", "edge")
        ctx.hist("class", f"{cls}/{len(g['shape'])}d/{'hole' if cls != 'cart' and g['bounds'][0][0] else 'full'}")
        for k in kinds:
            ctx.hist("bc-kind", k)
        ctx.impl_traces += 1
        if isinstance(rr, str) or "error" in rr:
            ctx.disagree("matrix", key, "assembles", rr if isinstance(rr, str) else rr["error"], "real assembly failed")
            continue
        st, val = answers[ri]
        M = rr["m"]
        rank = None
        if st != "ok":
            ctx.disagree("matrix", key, f"model error {val}", None)
        else:
            entries = [(r_, c_, unq(v_)) for r_, c_, v_ in val["m"]]
            model = np.zeros_like(M)
            for r_, c_, v_ in entries:
                model[r_, c_] = float(v_)
            mv = np.array([float(unq(x)) for x in val["v"]])
            sc = max(1e-300, np.abs(model).max())
            with np.errstate(invalid="ignore"):
                bad = np.argwhere(~(np.abs(model - M) <= 1e-11 * sc))
            tie = True
            if len(bad):
                tie = False
                r_, c_ = (int(x) for x in bad[0])
                ctx.disagree("matrix", dict(key, row=r_, col=c_), float(model[r_, c_]), float(M[r_, c_]), f"{len(bad)} matrix entries differ")
            if arr_far(mv, rr["v"], 1e-11 * max(sc, np.abs(mv).max())):
                with np.errstate(invalid="ignore"):
                    dv = np.abs(mv - rr["v"])
                i_ = int(np.argmax(np.where(np.isfinite(dv), dv, np.inf))) if dv.shape == mv.shape else -1
                ctx.disagree("vector", dict(key, row=i_), float(mv[i_]) if i_ >= 0 else len(mv),
                             float(rr["v"][i_]) if i_ >= 0 else len(rr["v"]), "vector entries differ")
            if tie:
                rank = exact_rank(entries, M.shape[0])   # exact over Q: independent of round-off in the real matrix
        if rank is None:
            rank = float_rank(M) if np.all(np.isfinite(M)) else 0
        ctx.hist("rank", "full" if rank == M.shape[0] else f"deficient by {min(M.shape[0] - rank, 3)}{'+' if M.shape[0] - rank > 3 else ''}")
        # ---- property monitor ---------------------------------------------------------------------
        if not (np.all(np.isfinite(M)) and np.all(np.isfinite(rr["v"]))):
            ctx.monitor_fail("matrix", key, "non-finite entries", "a finite matrix and vector", f"{cls}: Laplace matrix has non-finite entries",
                             key={"cls": cls, "symptom": "non-finite-matrix"})
            continue
        for rec in rr["sols"]:
            ctx.monitor_evals += 1
            leg = "laplace-eq" if rec["tag"] == "laplace-eq" else "solve"
            mkey = dict(key, rank=rank, rhs_kind=rec["tag"])
            if leg == "solve":
                mkey["rhs"] = [float(x) for x in rec["rhs"]]
            verdict, kind = judge(cls, kinds, M, rr["v"], rec, rank)
            ctx.hist("solve", f"{rec['tag']}:{kind}:{'raised' if 'raised' in rec else 'returned'}")
            if verdict is not None:
                observed, expected, what, fkey = verdict
                ctx.monitor_fail(leg, mkey, observed, expected, what, key=fkey)


def replay(ctx, rep):
    """re-run the recorded problem on the real code (same grid, conditions and right-hand side; Laplace-equation leg:
    rhs = 0) and judge it with the monitor of the run; False iff the recorded symptom (same finding key) is still there"""
    import logging
    import importlib
    import pde

    logging.getLogger("pde").setLevel(logging.CRITICAL)
    c = rep.get("case") or {}
    if "grid" not in c or "spec" not in c:
        print("this file records no (grid, conditions) case that could be re-run:", sorted(c))
        return False
    grid = c02.make_grid(c["grid"])
    cls = CLS[c["grid"]["cls"]]
    spec = eval(c["spec"], {"array": np.array, "nan": float("nan"), "inf": float("inf")})
    try:
        bcs = grid.get_boundary_conditions(spec, rank=0)
        m, v = importlib.import_module("pde.backends.scipy.operators." + MODS[cls])._get_laplace_matrix(bcs)
        M, vec = np.asarray(m.todense()), np.asarray(v.todense()).ravel()
    except Exception as e:  # noqa
        print(f"assembly of the Laplace matrix failed: {type(e).__name__}: {e}")
        return False
    if not (np.all(np.isfinite(M)) and np.all(np.isfinite(vec))):
        print("Laplace matrix has non-finite entries")
        return False
    if rep.get("leg") == "matrix":
        print("matrix assembles with finite entries")
        return True
    laplace_eq = rep.get("leg") == "laplace-eq" or "rhs" not in c
    rhs = np.zeros(M.shape[0]) if laplace_eq else np.array(c["rhs"], dtype=float)
    rec = _solve_record(pde, grid, spec, M, vec, c.get("rhs_kind", "laplace-eq" if laplace_eq else "recorded"), rhs, laplace_eq=laplace_eq)
    rank = c.get("rank")
    if rank is None:
        rank = float_rank(M)
    # kinds enter the finding key only: take them from the recorded key so that the same defect keeps its key
    kinds = (rep.get("key") or {}).get("kinds", "").split(",")
    verdict, kind = judge(cls, kinds, M, vec, rec, rank)
    print(f"problem class: {kind} (rank {rank} of {M.shape[0]}); solver " + (f"raised {rec['raised']} [{rec['cause']}]" if "raised" in rec else
          f"returned a field, max |laplace(solution) - rhs| = {float(np.abs(rec['back'] - rhs).max()):.3g}"))
    if verdict is None:
        return True
    observed, expected, what, fkey = verdict
    print(f"monitor: {what}; observed {observed}; expected {expected}")
    return False
