"""C18 - Poisson/Laplace solvers return solutions of the discrete problem.

Legs:
  matrix : `_get_laplace_matrix(bcs)` (dense matrix and vector) of the real scipy backend vs the Lean
           model `PdeVerif.Matrix` over exact rationals, for every grid class and random conditions per
           side (value, derivative, mixed, curvature, periodic; homogeneous and per-face arrays).
  solve  : `solve_poisson_equation` / `solve_laplace_equation` on the same problems; the returned field is
           fed back into `field.laplace(bc)` (numba stencil route) and must reproduce the right-hand side;
           unsolvable problems (pure Neumann/periodic with incompatible rhs, degenerate curvature rows)
           must raise RuntimeError instead of returning a field."""
import math
from fractions import Fraction

import numpy as np

from harness import c02
from harness.common.num import q, unq
from harness.common.isolated import run_many

PID = "C18"
LEVEL = "proof"
REQUIRED_THEOREMS = [
    "rowEntry_add_only", "matvec_set_first", "axisOps_apply", "bcData_ghost", "cart1_row_apply",
    "cart1_matrix_eq_laplace_with_bc", "polar_matrix_eq_laplace_with_bc", "polar_rmin0_row_eq_laplace",
    "sph_matrix_eq_laplace_with_bc", "cart2_row_apply", "cyl_row_apply", "cart1_matvec_eq_progSum",
    "residual_identity", "curvature_row_degenerate",
]
RULE = ("seed-derived grids of all classes with 2-5 cells per axis (1-3 axes Cartesian, polar, spherical, cylindrical; "
        "with/without hole; periodic flags), one condition per side from value/derivative/mixed/curvature/periodic with "
        "scalar or per-face-array values; right-hand sides random, or made compatible for singular problems; distinct by "
        "the whole case; non-trivial if the matrix has an inhomogeneous vector or non-Dirichlet rows")
ASSUMPTIONS = ["matrix entries compared at 1e-11 relative to the largest entry", "spsolve/lsmr are external: their output is checked by the residual, never trusted"]
TRUSTED_EXTRA = ["scipy.sparse dok semantics (assignment vs accumulate) are mirrored by the model's row programs"]

CLS = {"UnitGrid": "cart", "CartesianGrid": "cart", "PolarSymGrid": "polar", "SphericalSymGrid": "sph", "CylindricalSymGrid": "cyl"}


def gen_case(rng):
    while True:
        c = c02.gen_case(rng, lambda *a, **k: None)
        if c["rank"] != 0 or min(c["grid"]["shape"]) < 2:
            continue
        if any(s["kind"].startswith("expr") for s in c["sides"].values()):
            continue
        return c


def model_request(case):
    g = case["grid"]
    nax = len(g["shape"])
    faces = []
    for ax in range(nax):
        pair = []
        for up in (False, True):
            s = case["sides"][(ax, up)]
            npts = int(np.prod([g["shape"][j] for j in range(nax) if j != ax])) if nax > 1 else 1
            pts = []
            for p in range(npts):
                if s["kind"] in ("periodic", "antiperiodic"):
                    pts.append({"kind": s["kind"]})
                    continue
                v = s["v"][p] if len(s["v"]) > 1 else s["v"][0]
                d = {"kind": s["kind"], "v": q(v)}
                if s["c"] is not None:
                    d["c"] = q(s["c"][p] if len(s["c"]) > 1 else s["c"][0])
                pts.append(d)
            pair.append(pts)
        faces.append(pair)
    return {"cls": CLS[g["cls"]], "shape": g["shape"], "lo": [q(b[0]) for b in g["bounds"]],
            "dx": [q(Fraction(b[1] - b[0]) / n) for b, n in zip(g["bounds"], g["shape"])], "faces": faces}


def real_case(arg):
    import logging
    import importlib
    import pde

    logging.getLogger("pde").setLevel(logging.CRITICAL)
    logging.getLogger("pde.backends.scipy.operators.common").setLevel(logging.CRITICAL)
    case, rhs_seed = arg
    grid = c02.make_grid(case["grid"])
    cls = CLS[case["grid"]["cls"]]
    mod = importlib.import_module("pde.backends.scipy.operators." + {"cart": "cartesian", "polar": "polar_sym", "sph": "spherical_sym", "cyl": "cylindrical_sym"}[cls])
    out = {}
    try:
        bcs = grid.get_boundary_conditions(case["spec"], rank=0)
        m, v = mod._get_laplace_matrix(bcs)
        out["m"] = np.asarray(m.todense())
        out["v"] = np.asarray(v.todense()).ravel()
    except Exception as e:  # noqa
        return {"error": f"{type(e).__name__}: {e}"}
    rs = np.random.RandomState(rhs_seed)
    M, vec = out["m"], out["v"]
    n = M.shape[0]
    # right-hand sides: random; and one in the range of the matrix (always solvable)
    rhs_list = [("random", rs.uniform(-2, 2, n)), ("in-range", M @ rs.uniform(-2, 2, n) + vec)]
    sols = []
    for tag, rhs in rhs_list:
        f = pde.ScalarField(grid, rhs.reshape(grid.shape))
        rec = {"tag": tag, "rhs": rhs}
        # exact solvability by dense least squares
        x, *_ = np.linalg.lstsq(M, rhs - vec, rcond=None)
        rec["lstsq_residual"] = float(np.abs(M @ x - (rhs - vec)).max())
        try:
            sol = pde.solve_poisson_equation(f, case["spec"])
            back = sol.laplace(bc=case["spec"])
            rec["residual"] = float(np.abs(back.data - f.data).max())
            rec["matrix_residual"] = float(np.abs(M @ sol.data.ravel() + vec - rhs).max())
            rec["sol_max"] = float(np.abs(sol.data).max())
        except RuntimeError as e:
            rec["raised"] = f"RuntimeError: {e}"[:200]
        except Exception as e:  # noqa
            rec["raised"] = f"{type(e).__name__}: {e}"[:200]
        sols.append(rec)
    out["sols"] = sols
    # Laplace equation (rhs = 0)
    try:
        sol = pde.solve_laplace_equation(grid, case["spec"])
        out["laplace_residual"] = float(np.abs(sol.laplace(bc=case["spec"]).data).max())
        out["laplace_max"] = float(np.abs(sol.data).max())
    except RuntimeError as e:
        out["laplace_raised"] = f"RuntimeError: {e}"[:200]
        x, *_ = np.linalg.lstsq(M, -vec, rcond=None)
        out["laplace_lstsq_residual"] = float(np.abs(M @ x + vec).max())
    except Exception as e:  # noqa
        out["laplace_raised"] = f"{type(e).__name__}: {e}"[:200]
    return out


def run(ctx):
    from harness.common.lean import LeanBatch

    rng = ctx.rng
    n = ctx.budget(150, 1500)
    batch = LeanBatch(ctx.workdir)
    cases = [gen_case(rng) for _ in range(n)]
    reqs = [batch.add("c18.matrix", model_request(c)) for c in cases]
    answers = batch.run()
    res = run_many("harness.c18", "real_case", [(c, rng.randint(0, 10 ** 6)) for c in cases],
                   env={"NUMBA_DISABLE_JIT": "1"}, procs=16)
    for c, ri, rr in zip(cases, reqs, res):
        g = c["grid"]
        cls = CLS[g["cls"]]
        kinds = sorted({s["kind"] for s in c["sides"].values()})
        key = {"grid": g, "spec": repr(c["spec"])}
        ctx.count(key, nontrivial=True, leg="matrix")
        ctx.hist("class", f"{cls}/{len(g['shape'])}d/{'hole' if cls != 'cart' and g['bounds'][0][0] else 'full'}")
        for k in kinds:
            ctx.hist("bc-kind", k)
        ctx.impl_traces += 1
        if isinstance(rr, str) or "error" in rr:
            ctx.disagree("matrix", key, "assembles", rr if isinstance(rr, str) else rr["error"], "real assembly failed")
            continue
        st, val = answers[ri]
        if st != "ok":
            ctx.disagree("matrix", key, f"model error {val}", None)
            continue
        M = rr["m"]
        model = np.zeros_like(M)
        for r_, c_, v_ in val["m"]:
            model[r_, c_] = float(unq(v_))
        mv = np.array([float(unq(x)) for x in val["v"]])
        sc = max(1e-300, np.abs(model).max())
        bad = np.argwhere(np.abs(model - M) > 1e-11 * sc)
        if len(bad):
            r_, c_ = (int(x) for x in bad[0])
            ctx.disagree("matrix", dict(key, row=r_, col=c_), float(model[r_, c_]), float(M[r_, c_]), f"{len(bad)} matrix entries differ")
        if np.abs(mv - rr["v"]).max() > 1e-11 * max(sc, np.abs(mv).max()):
            i_ = int(np.argmax(np.abs(mv - rr["v"])))
            ctx.disagree("vector", dict(key, row=i_), float(mv[i_]), float(rr["v"][i_]), "vector entries differ")
        # ---- property monitor ---------------------------------------------------------------------
        for rec in rr["sols"]:
            ctx.monitor_evals += 1
            scale = 1.0 + np.abs(rec["rhs"]).max()
            mkey = dict(key, rhs=[float(x) for x in rec["rhs"]], rhs_kind=rec["tag"])
            if "raised" in rec:
                ctx.hist("solve", f"{rec['tag']}:raised")
                if not rec["raised"].startswith("RuntimeError"):
                    ctx.monitor_fail("solve", mkey, rec["raised"], "a field or RuntimeError", "solver raised an unexpected exception class",
                                     key={"cls": cls, "symptom": "unexpected-exception"})
                elif rec["lstsq_residual"] < 1e-9 * scale and rec["tag"] == "in-range":
                    # a solvable problem reported as unsolvable is outside the property statement; recorded only
                    ctx.hist("solve", "solvable-but-raised")
                continue
            ctx.hist("solve", f"{rec['tag']}:returned")
            tol = 1e-4 * max(scale, rec.get("sol_max", 0.0) * 1e-1)
            if rec["residual"] > tol:
                ctx.monitor_fail("solve", mkey, {"residual_of_laplace(bc)": rec["residual"], "matrix_residual": rec["matrix_residual"],
                                                 "least_squares_residual": rec["lstsq_residual"]},
                                 f"|laplace(solution) - rhs| <= {tol:.2g}", f"{cls}: returned field does not solve the discrete problem",
                                 key={"cls": cls, "kinds": ",".join(kinds)})
            elif rec["lstsq_residual"] > 1e-3 * scale:
                ctx.monitor_fail("solve", mkey, {"least_squares_residual": rec["lstsq_residual"], "residual": rec["residual"]},
                                 "RuntimeError for an unsolvable problem", f"{cls}: unsolvable problem returned a field",
                                 key={"cls": cls, "symptom": "unsolvable-returned"})
        ctx.monitor_evals += 1
        if "laplace_residual" in rr and rr["laplace_residual"] > 1e-4 * (1 + rr.get("laplace_max", 0) * 0.1 + np.abs(rr["v"]).max()):
            ctx.monitor_fail("laplace-eq", key, {"residual": rr["laplace_residual"]}, "laplace(solution) = 0",
                             f"{cls}: solve_laplace_equation result is not harmonic", key={"cls": cls})
        if "laplace_raised" in rr and not rr["laplace_raised"].startswith("RuntimeError"):
            ctx.monitor_fail("laplace-eq", key, rr["laplace_raised"], "a field or RuntimeError", "unexpected exception class",
                             key={"cls": cls, "symptom": "unexpected-exception"})


def replay(ctx, rep):
    """re-run the recorded problem on the real code: solve, feed back, compare"""
    import logging
    import pde
    from numpy import array  # noqa: F401  (used by eval of the recorded specification)

    logging.getLogger("pde").setLevel(logging.CRITICAL)
    c = rep["case"]
    grid = c02.make_grid(c["grid"])
    spec = eval(c["spec"], {"array": np.array, "nan": float("nan"), "inf": float("inf")})
    if "rhs" not in c:
        # Laplace equation leg: the solution must be harmonic
        try:
            sol = pde.solve_laplace_equation(grid, spec)
        except RuntimeError as e:
            print("solver raised:", e)
            return True
        res = float(np.abs(sol.laplace(bc=spec).data).max())
        print("max |laplace(solution)| =", res)
        return res <= 1e-4 * (1 + 0.1 * float(np.abs(sol.data).max()) + 10.0)
    rhs = pde.ScalarField(grid, np.array(c["rhs"]).reshape(grid.shape))
    try:
        sol = pde.solve_poisson_equation(rhs, spec)
    except RuntimeError as e:
        print("solver raised:", e)
        return True
    res = float(np.abs(sol.laplace(bc=spec).data - rhs.data).max())
    print("max |laplace(solution) - rhs| =", res)
    return res <= 1e-4 * (1 + float(np.abs(rhs.data).max()) + 0.1 * float(np.abs(sol.data).max()))
