"""C10 - interpreted rate, compiled rate and advertised expression agree.

leg A  every predefined class: `eq.evolution_rate` (numpy) vs `eq.make_pde_rhs(state, "numba")`
       (source semantics with NUMBA_DISABLE_JIT=1 for breadth, real JIT for a subset) vs the Lean
       model `PdeVerif.PDEs.*Rate`, whose abstract operators are instantiated with affine maps
       measured on py-pde's own operators by the harness - with random, DIFFERENT, inhomogeneous
       and time-dependent boundary conditions per operator, at two times per compiled function.
leg B  class vs `PDE(eq.expression(s))` (1e-5: six printed digits) for ALL classes under
       homogeneous AND inhomogeneous conditions (one condition for all operators of the class:
       `PDE` keys conditions by variable:operator) - the literal clause of the property.  The
       text is re-read with Python's `ast`, compared with the model's template AST, and its field
       semantics (`PdeVerif.PDEs.rhsValue` = `Ex.eval` at the number type of fields, the
       definition of the theorems) is compared with `PDE(text)`.  Where the class-vs-text monitor
       fails for a text that groups two terms under one Laplacian (Kuramoto-Sivashinsky,
       Swift-Hohenberg) the deviation is compared with the theorem's `nu*b` / `2*kc2*b`
       (`symptom` of the failure key).
leg C  generic `PDE` right-hand sides and `ReactionDiffusionPDE`: bc_ops, explicit t, consts
       (numbers and fields), coordinate dependence, dot/inner/integral, nested operators,
       multi-field collections (scalar and vector fields): numpy vs numba vs model
       (`PdeVerif.PDEs.rhsValuePde`, which also does the bc_ops look-up).
time   (gap round) every model evaluation of legs A, B, C goes through the TIME-PARAMETERISED definitions of
       `Model/PDEsTime.lean` (`*RateAt`, `rhsValueAt`, `rhsValuePdeAt`): one request per case carries both times and the
       operators / tables measured at each; the model builds time-dependent operators (`sampled`), selects the instance of
       the time it evaluates at and binds the symbol `t` itself.  Sub-leg `values-operator`: KPZ / K-S rate with py-pde's
       own gradient_squared of the state as a {"values"} operator (`constOp`) = numpy rate = rate with `sumSquares`."""
import math
import os
import re

from harness.common import exprs as X
from harness.common.num import q, fbits, unfbits, unq

PID = "C10"
LEVEL = "translation_validation"
REQUIRED_THEOREMS = [
    "class_rate_eq_expression_semantics", "rate_uses_own_bc", "grouped_text_vs_split_class_gap",
    "diffusion_rate_eq_expression", "allenCahn_rate_eq_expression", "cahnHilliard_rate_eq_expression",
    "kpz_rate_eq_expression", "wave_rate_eq_expression", "kleinGordon_rate_eq_expression",
    "ks_rate_eq_expression_linear", "swiftHohenberg_rate_eq_expression_linear",
    "ks_grouped_text_vs_split_class_gap", "swiftHohenberg_grouped_text_vs_split_class_gap",
    "affine_bc_not_odd", "ks_old_compiled_gap", "cahnHilliard_rate_uses_own_bc", "ks_rate_uses_own_bc",
    "wave_as_first_order_system", "exprProd_sound", "exprProd_printed", "affineOp_is_affine", "rhsValue_operator_free",
    "rhsValue_def", "ks_split_rate_eq_expression", "swiftHohenberg_split_rate_eq_expression", "ks_grouped_vs_split_text",
    "rhsValueF_congr", "rhsValueF_operator_free", "rhsValueF_operator", "rhsValuePde_operator",
    "bcIndex_selects", "bcIndex_first", "bcIndex_default", "pdeOp_eq", "sumSquares_eq_sum",
    # Props/C10b.lean (explicit time, all right-hand sides compositionally, sumSquares / {"values"})
    "class_rate_eq_expression_at", "rhsValueAt_eq_frozen", "rhsValuePdeAt_def", "rhsValuePdeAt_time_symbol",
    "rhsValuePdeAt_operator", "rhsValuePdeAt_operator_free", "rhsValuePdeAt_laplace_plus_time_term",
    "rhsValueF_compositional", "rhsValuePdeAt_compositional", "evalWithCalls_no_calls", "values_operator_sound",
    "values_operator_sound_ks", "rhsValueF_constOp", "sumSquares_nonneg", "sumSquares_eq_zero_iff",
    "sumSquares_homogeneous", "sampled_head", "sampled_second", "rhsValueF_env_congr", "rhsValueF_unused_field",
    "grouped_text_vs_split_class_gap_at", "diffusionRateAt_time_dependence", "eval_env_congr",
    "values_operator_sound_inner", "values_operator_not_sound_outer", "sampled_zip_getElem", "diffusionRateAt_sampled",
]
EXTRA_PROP_FILES = ["C10b"]
RULE = ("cases = (equation class or generic right-hand-side program, parameters incl. the expr_prod branch values "
        "0/1/-1 and 7-digit decimals, grid out of 1-d/2-d Cartesian (periodic or not), polar, spherical, cylindrical, "
        "one independently drawn boundary condition PER OPERATOR out of value/derivative/mixed/curvature/"
        "value_expression/derivative_expression with time and coordinate dependence, random state, two times); a case "
        "is distinct by all of these and non-trivial if the rate is not constant over the cells, at least one "
        "operator has a non-zero offset (inhomogeneous condition) or the equation is nonlinear, and - when the class "
        "has two operators - their conditions differ")
ASSUMPTIONS = [
    "sympy / lambdify / numba are external: validated by this differential run, not verified",
    "the operators themselves (stencils, ghost cells) are the subject of C01-C03; here they are measured on py-pde's "
    "own field API (affine maps A x + b per operator, boundary condition and time) and only their COMPOSITION is modelled; "
    "gradient_squared is modelled as the sum of squares of the measured gradient components",
    "class vs PDE(expression) is compared at 1e-5 of the scale of the rate because the text prints parameters with 6 digits",
    "PDE keys boundary conditions by variable:operator, so class vs PDE(expression) is compared with ONE condition for all "
    "operators of the class (bc_c = bc_mu, bc_lap = bc); different conditions per operator are compared class-numpy vs "
    "class-compiled vs model (leg A)",
    "backends: numba (source semantics and JIT) and the numpy wrapper; the torch and jax backends are not installed here and "
    "are NOT covered; real-valued states on 1-d/2-d/3-d Cartesian, polar, spherical and cylindrical grids (no complex states)",
]
TRUSTED_EXTRA = ["harness/common/exprs.py (reader/printer), harness desugaring of dot/inner/divergence/gradient into components"]
TOL = 1e-10

CLASSES = {
    "DiffusionPDE": {"params": ["diffusivity"], "bcs": ["bc"], "fields": ["c"]},
    "AllenCahnPDE": {"params": ["interface_width", "mobility"], "bcs": ["bc"], "fields": ["c"]},
    "CahnHilliardPDE": {"params": ["interface_width"], "bcs": ["bc_c", "bc_mu"], "fields": ["c"]},
    "KPZInterfacePDE": {"params": ["nu", "lmbda"], "bcs": ["bc"], "fields": ["c"]},
    "KuramotoSivashinskyPDE": {"params": ["nu"], "bcs": ["bc", "bc_lap"], "fields": ["c"]},
    "SwiftHohenbergPDE": {"params": ["rate", "kc2", "delta"], "bcs": ["bc", "bc_lap"], "fields": ["c"]},
    "WavePDE": {"params": ["speed"], "bcs": ["bc"], "fields": ["u", "v"]},
    "KleinGordonPDE": {"params": ["speed", "mass"], "bcs": ["bc"], "fields": ["u", "v"]},
}
# which boundary condition each abstract operator of the model sees (as the classes document it)
OP_ROLES = {
    "DiffusionPDE": {"lap_bc": ("laplace", "bc")},
    "AllenCahnPDE": {"lap_bc": ("laplace", "bc")},
    "CahnHilliardPDE": {"lap_c": ("laplace", "bc_c"), "lap_mu": ("laplace", "bc_mu")},
    "KPZInterfacePDE": {"lap_bc": ("laplace", "bc"), "gradsq": ("gradient_squared", "bc")},
    "KuramotoSivashinskyPDE": {"lap_bc": ("laplace", "bc"), "lap_bc_lap": ("laplace", "bc_lap"),
                               "gradsq": ("gradient_squared", "bc")},
    "SwiftHohenbergPDE": {"lap_bc": ("laplace", "bc"), "lap_bc_lap": ("laplace", "bc_lap")},
    "WavePDE": {"lap_bc": ("laplace", "bc")},
    "KleinGordonPDE": {"lap_bc": ("laplace", "bc")},
}
GROUPED = ("KuramotoSivashinskyPDE", "SwiftHohenbergPDE")

# our own copy of the short-hand replacements of pde/pdes/pde.py (checked against the package's)
SHORTHAND = [
    (r"\|\s*∇\s*(\w+)\s*\|(²|\*\*2)", r"gradient_squared(\1)"),
    (r"∇(²|\*\*2)\s*(\w+)", r"laplace(\2)"),
    (r"∇(²|\*\*2)\s*\(", r"laplace("),
    (r"²", r"**2"),
    (r"³", r"**3"),
]


def expand_shorthand(text):
    for pat, rep in SHORTHAND:
        text = re.sub(pat, rep, text)
    return text


# ==========================================================================================
# generators
def dy(rng, lo, hi, den=8):
    return rng.randint(math.ceil(lo * den), math.floor(hi * den)) / den


def gen_grid(rng, small=False):
    kind = rng.choice(["cart1", "cart1", "cart1p", "cart2", "cart2", "cart2p", "unit1", "polar", "polar0", "sph", "cyl",
                       "cart3"])
    n1 = rng.choice([3, 4, 5, 6] if small else [4, 5, 6, 8])
    if kind in ("cart1", "cart1p"):
        lo = dy(rng, -2, 2, 2)
        return {"cls": "CartesianGrid", "bounds": [[lo, lo + rng.choice([2.0, 3.0, 4.0, 1.5])]], "shape": [n1],
                "periodic": [kind == "cart1p"], "axes": ["x"]}
    if kind in ("cart2", "cart2p"):
        per = [False, False] if kind == "cart2" else rng.choice([[True, False], [False, True], [True, True]])
        return {"cls": "CartesianGrid", "bounds": [[0.0, rng.choice([2.0, 3.0])], [dy(rng, -1, 1, 2), 2.5]],
                "shape": [rng.choice([3, 4]), rng.choice([3, 4])], "periodic": per, "axes": ["x", "y"]}
    if kind == "cart3":
        per = rng.choice([[False, False, False], [False, False, False], [False, True, False], [True, False, True]])
        return {"cls": "CartesianGrid", "bounds": [[0.0, 2.0], [dy(rng, -1, 1, 2), 2.5], [0.0, rng.choice([1.5, 3.0])]],
                "shape": [2, rng.choice([2, 3]), 2], "periodic": per, "axes": ["x", "y", "z"]}
    if kind == "unit1":
        return {"cls": "UnitGrid", "bounds": [[0.0, float(n1)]], "shape": [n1], "periodic": [rng.random() < 0.3], "axes": ["x"]}
    if kind in ("polar", "polar0", "sph"):
        r0 = 0.0 if kind == "polar0" or (kind == "sph" and rng.random() < 0.5) else rng.choice([0.5, 1.0])
        return {"cls": "SphericalSymGrid" if kind == "sph" else "PolarSymGrid", "bounds": [[r0, r0 + rng.choice([2.0, 3.0])]],
                "shape": [n1], "periodic": [False], "axes": ["r"]}
    return {"cls": "CylindricalSymGrid", "bounds": [[0.0, 2.0], [0.0, rng.choice([2.0, 3.0])]], "shape": [3, rng.choice([3, 4])],
            "periodic": [False, rng.random() < 0.4], "axes": ["r", "z"]}


def make_grid(g):
    import pde

    if g["cls"] == "CartesianGrid":
        return pde.CartesianGrid(g["bounds"], g["shape"], periodic=g["periodic"])
    if g["cls"] == "UnitGrid":
        return pde.UnitGrid(g["shape"], periodic=g["periodic"])
    b = g["bounds"][0]
    if g["cls"] == "PolarSymGrid":
        return pde.PolarSymGrid(b[1] if b[0] == 0 else tuple(b), g["shape"][0])
    if g["cls"] == "SphericalSymGrid":
        return pde.SphericalSymGrid(b[1] if b[0] == 0 else tuple(b), g["shape"][0])
    return pde.CylindricalSymGrid(b[1], tuple(g["bounds"][1]), g["shape"], periodic_z=g["periodic"][1])


def n_cells(g):
    n = 1
    for s in g["shape"]:
        n *= s
    return n


def gen_side_bc(rng, g, axis, homogeneous, timedep=True):
    """one boundary condition (JSON-able dict) for one side"""
    if homogeneous:
        return rng.choice([{"value": 0}, {"derivative": 0}])
    others = [a for a in g["axes"] if a != g["axes"][axis]]
    v = lambda: rng.choice([dy(rng, -2, 2, 4), round(rng.uniform(-2, 2), 2)]) or 0.75
    kinds = ["value", "derivative", "mixed", "curvature", "value_expression", "derivative_expression", "value0", "mixed_expression"]
    k = rng.choice(kinds if timedep else kinds[:4])
    if k == "value0":
        return {"value": 0}
    if k in ("value", "derivative", "curvature"):
        return {k: v()}
    if k == "mixed":
        return {"type": "mixed", "value": abs(v()), "const": v()}
    terms = [repr(v())]
    if rng.random() < 0.8:
        terms.append(f"{v()!r}*t" if rng.random() < 0.7 else f"{abs(v())!r}*sin(t)")
    if others and rng.random() < 0.5:
        terms.append(f"{v()!r}*{others[0]}")
    expr = " + ".join(terms)
    if k == "mixed_expression":
        return {"type": "mixed_expression", "value": repr(abs(v())), "const": expr}
    return {k: expr}


def gen_bc(rng, g, homogeneous=False, timedep=True):
    bc = {}
    for i, ax in enumerate(g["axes"]):
        if g["periodic"][i]:
            bc[ax] = "periodic"
            continue
        lo = gen_side_bc(rng, g, i, homogeneous, timedep)
        if ax == "r" and g["bounds"][i][0] == 0:
            lo = {"derivative": 0}          # the axis of symmetry
        bc[ax + "-"] = lo
        bc[ax + "+"] = gen_side_bc(rng, g, i, homogeneous, timedep)
    return bc


def bc_is_inhomogeneous(bc):
    def inh(s):
        if s == "periodic":
            return False
        vals = [x for k, x in s.items() if k != "type"]
        if s.get("type", "").startswith("mixed"):
            vals = [s["const"]]
        return any(not (isinstance(x, (int, float)) and x == 0) for x in vals)
    return any(inh(s) for s in bc.values())


def gen_param(rng, name, cls):
    r = rng.random()
    if name == "mass":
        return rng.choice([0, 0, 0.7, 1, 1.2345678, 0.5, -1, -0.7])
    if name == "mobility":
        return rng.choice([1, 1.000001, 1.7, 0.3456789, 2])
    if name in ("speed",):
        # 0 / 1 / -1 are the printing branches of expr_prod(speed**2, ...); a vanishing speed removes the Laplacian term
        return rng.choice([1, 1.3, 0.7654321, 2, 0.5, 0, 0, -1, -1.3])
    if r < 0.12:
        return 1
    if r < 0.2:
        return -1 if name in ("delta", "lmbda", "rate") else 1
    if r < 0.27:
        return 0
    if r < 0.55:
        return round(rng.uniform(0.1, 2.0), 7)
    if r < 0.68:
        # small and large magnitudes: the printed factor (six significant digits, exponent notation) must still
        # describe the rate
        return rng.choice([1.234567e-3, 1.75e-5, 2.5e-7, 3.3e-4, 0.0123456789, 1234.5678, 2.5e6])
    return rng.choice([0.5, 0.25, 1.5, 0.7, 0.1, 2.0, 0.3])


def gen_state(rng, n):
    return [rng.choice([dy(rng, -2, 2, 8), round(rng.uniform(-1.5, 1.5), 3)]) for _ in range(n)]


def gen_class_case(rng, i, leg, jit):
    cls = rng.choice(sorted(CLASSES))
    return gen_class_case_for(rng, i, leg, jit, cls)


def gen_class_case_for(rng, i, leg, jit, cls, mode=None):
    info = CLASSES[cls]
    g = gen_grid(rng, small=jit)
    params = {p: gen_param(rng, p, cls) for p in info["params"]}
    n = n_cells(g)
    case = {"id": i, "leg": leg, "cls": cls, "params": params, "grid": g, "jit": jit,
            "state": {f: gen_state(rng, n) for f in info["fields"]},
            "t": rng.choice([0.0, 0.5, 1.25, round(rng.uniform(0, 3), 3)]), "t2": rng.choice([2.0, 0.75, 3.5])}
    if leg == "A":
        case["bcs"] = {b: gen_bc(rng, g) for b in info["bcs"]}
        if len(info["bcs"]) == 2 and rng.random() < 0.1:
            case["bcs"][info["bcs"][1]] = None        # bc_lap omitted: defaults to bc (KS/SH), default BC for CH
            if cls == "CahnHilliardPDE":
                case["bcs"][info["bcs"][1]] = gen_bc(rng, g)
    else:
        # leg B: one condition for all operators of the class (`PDE` keys conditions by variable:operator);
        # inhomogeneous and homogeneous conditions for EVERY class
        mode = mode or rng.choice(["inhomogeneous", "inhomogeneous", "inhomogeneous", "homogeneous"])
        bc = gen_bc(rng, g, homogeneous=(mode == "homogeneous"))
        case["mode"] = mode
        case["bcs"] = {b: bc for b in info["bcs"]}
    return case


# ------------------------------------------------------------------------------------------
# leg C: generic right-hand sides
def gen_generic_case(rng, i, jit):
    g = gen_grid(rng, small=jit)
    n = n_cells(g)
    family = rng.choice(["reaction-diffusion", "nonlinear-diffusion", "nested", "two-fields-dot", "integral", "field-const",
                         "coordinates", "explicit-t", "vector-first-order", "inner", "random", "outer-tensor",
                         "rd-class", "rd-class"])
    if family in ("vector-first-order", "outer-tensor") and g["cls"] not in ("CartesianGrid", "UnitGrid"):
        # the symmetric curvilinear grids restrict vector fields (no angular components)
        family = "nested"
    # `pde.tools.expressions.evaluate` is the same machinery without time: used on time-free programs
    use_evaluate = family in ("reaction-diffusion", "nonlinear-diffusion", "nested", "field-const", "coordinates") and rng.random() < 0.5
    coords = list(g["axes"])
    consts = {}
    fconsts = {}
    if rng.random() < 0.6 or family == "field-const":
        for nm in rng.sample(["k", "a0", "D2", "kappa"], rng.choice([1, 2])):
            consts[nm] = rng.choice([dy(rng, 0.25, 2, 8), round(rng.uniform(-2, 2), 2)]) or 1.25
    if family in ("field-const", "outer-tensor") or rng.random() < 0.2:
        fconsts["f"] = [dy(rng, 0.5, 2, 8) for _ in range(n)]
    fields = ["c"] if family not in ("two-fields-dot", "inner", "vector-first-order", "rd-class") else ["c", "d"]
    if family == "outer-tensor":
        fields = ["T"]
    if rng.random() < 0.25 and len(fields) == 1 and family not in ("vector-first-order", "outer-tensor") and not use_evaluate:
        fields = ["c", "d"]
    ranges = {f: (-2.0, 2.0) for f in fields + ["c"]}
    ranges.update({c: (v, v) for c, v in consts.items()})
    ranges.update({f: (0.5, 2.0) for f in fconsts})
    ranges["t"] = (0.0, 4.0)
    for ax, b in zip(coords, g["bounds"]):
        ranges[ax] = tuple(b)
    voc = X.Vocabulary({k: v for k, v in ranges.items()}, {}, allow_named=False, allow_step=False,
                       fun1=["sin", "cos", "tanh", "exp", "atan"], fun2=[])

    def local(names, d=3):
        sub = X.Vocabulary({k: ranges[k] for k in names}, {}, allow_named=False, allow_step=False,
                           fun1=["sin", "cos", "tanh", "atan"], fun2=[])
        gen = X.Gen(rng, sub)
        for _ in range(30):
            e = gen.gen(d, "any")
            if not (X.symbols(e) & set(names)):
                continue
            # must really depend on its first argument (sympy would simplify `c - c` to a number, and an
            # operator applied to a number is outside what `PDE` supports)
            mid = {k: (ranges[k][0] + ranges[k][1]) / 2 for k in names}
            v0 = X.pyvalue(e, mid)
            v1 = X.pyvalue(e, dict(mid, **{names[0]: mid[names[0]] + 0.37}))
            v2 = X.pyvalue(e, dict(mid, **{names[0]: mid[names[0]] - 0.61}))
            if None not in (v0, v1, v2) and abs(v0 - v1) > 1e-6 and abs(v0 - v2) > 1e-6:
                return e
        return X.bi("add", X.var(names[0]), X.num("1"))

    def lap(e):
        return X.un("call1", e, f="laplace")

    def gsq(e):
        return X.un("call1", e, f="gradient_squared")

    def coef():
        return X.var(rng.choice(sorted(consts))) if consts and rng.random() < 0.5 else X.num(rng.choice(["0.5", "2", "1.5", "0.25", "3"]))

    c = X.var("c")
    rhs = {}
    vector_vars = []
    ranks = {}
    rd = None
    if family == "rd-class":
        # `ReactionDiffusionPDE(variables, diffusivity, sources)`: d_t c_i = D_i laplace(c_i) + s_i({c_j}, t)
        if rng.random() < 0.3:
            fields = ["c"]
        dvals = [rng.choice([dy(rng, 0.25, 2, 8), round(rng.uniform(0.05, 2), 3), 0.0, 1.0]) for _ in fields]
        scalar_d = len(set(dvals)) == 1 and rng.random() < 0.5       # a scalar sets the same diffusivity for all species
        srcs = {}
        for f in fields:
            r = rng.random()
            if r < 0.15:
                srcs[f] = rng.choice([0, 1.5, -2])                   # a number
            elif r < 0.25 and len(fields) > 1:
                pass                                                 # omitted from the dict: defaults to 0
            else:
                srcs[f] = X.to_text(local(fields + (["t"] if rng.random() < 0.4 else []), rng.choice([2, 3])))
        as_list = len(srcs) == len(fields) and rng.random() < 0.5
        for f, d_ in zip(fields, dvals):
            src = srcs.get(f, 0)
            src_ast = X.read_text(src, set(fields) | {"t"}) if isinstance(src, str) else \
                (X.num(repr(src)) if src >= 0 else X.un("neg", X.num(repr(-src))))
            rhs[f] = X.bi("add", X.bi("mul", X.num(repr(float(d_))), lap(X.var(f))), src_ast)
        rd = {"variables": list(fields), "diffusivity": dvals[0] if scalar_d else dvals,
              "sources": [srcs[f] for f in fields] if as_list else srcs}
    elif family == "reaction-diffusion":
        rhs["c"] = X.bi("add", X.bi("mul", coef(), lap(c)), local(["c"] + (["t"] if rng.random() < 0.3 and not use_evaluate else [])))
    elif family == "nonlinear-diffusion":
        rhs["c"] = X.bi("sub", lap(local(["c"], 2)), X.bi("mul", coef(), c))
    elif family == "nested":
        rhs["c"] = X.bi("add", X.un("neg", lap(X.bi("add", lap(c), X.bi("mul", coef(), c)))), X.bi("mul", coef(), gsq(c)))
    elif family in ("two-fields-dot", "inner"):
        op = "dot" if family == "two-fields-dot" else "inner"
        rhs["c"] = X.bi("add", lap(c), X.bi("call2", X.un("call1", c, f="gradient"), X.un("call1", X.var("d"), f="gradient"), f=op))
        rhs["d"] = X.bi("sub", X.bi("mul", coef(), lap(X.var("d"))), X.bi("mul", c, X.var("d")))
    elif family == "integral":
        rhs["c"] = X.bi("sub", X.bi("mul", coef(), lap(c)), X.bi("mul", c, X.un("call1", X.bi("mul", c, c), f="integral")))
    elif family == "field-const":
        rhs["c"] = X.bi("add", X.bi("mul", X.var("f"), lap(c)), X.bi("mul", coef(), X.bi("sub", X.var("f"), c)))
    elif family == "coordinates":
        ax = rng.choice(coords)
        rhs["c"] = X.bi("add", X.bi("mul", X.bi("add", X.var(ax), X.num("3")), lap(c)), X.bi("mul", local(coords, 2), c))
    elif family == "explicit-t":
        rhs["c"] = X.bi("add", X.bi("mul", X.un("call1", X.var("t"), f="sin"), lap(c)), X.bi("mul", X.var("t"), local(["c"], 2)))
    elif family == "vector-first-order":
        # wave equation in first-order form: a scalar and a vector field
        rhs["c"] = X.bi("mul", coef(), X.un("call1", X.var("d"), f="divergence"))
        rhs["d"] = X.un("call1", c, f="gradient")
        vector_vars = ["d"]
        ranks["d"] = 1
    elif family == "outer-tensor":
        # a tensor field relaxing towards the outer product of the gradient of a constant field
        gf = X.un("call1", X.var("f"), f="gradient")
        rhs["T"] = X.bi("sub", X.bi("call2", gf, gf, f="outer"), X.bi("mul", coef(), X.var("T")))
        vector_vars = ["T"]
        ranks["T"] = 2
    else:
        rhs["c"] = X.bi(rng.choice(["add", "sub"]), X.bi("mul", coef(), lap(local(["c"], 2))),
                        X.bi("mul", gsq(c) if rng.random() < 0.5 else lap(c), local(["c", "t"] + coords[:1], 2)))
    for f in fields:
        if f not in rhs:
            rhs[f] = X.bi("sub", lap(X.var(f)), X.bi("mul", X.var(f), c))
    timedep = not use_evaluate
    # boundary conditions: default + per-operator overrides
    ops_used = sorted({(v, nd["f"]) for v, e in rhs.items() for nd in X.walk(e)
                       if nd["k"] == "call1" and nd["f"] in ("laplace", "gradient_squared", "gradient", "divergence")})
    bc = gen_bc(rng, g, timedep=timedep)
    bc_ops = {}
    for v, op in ops_used:
        # expression conditions are implemented for scalar fields only: operators on vector fields get
        # constant (still inhomogeneous) conditions
        vec_op = op == "divergence"
        if rng.random() < 0.6 or vec_op:
            key = rng.choice([f"{v}:{op}", f"*:{op}", f"{v}:{op}", f"{v}:*"]) if not use_evaluate else f"{v}:{op}"
            if key not in bc_ops:
                bc_ops[key] = gen_bc(rng, g, timedep=timedep and not vec_op)
    dim = {"CartesianGrid": len(g["axes"]), "UnitGrid": len(g["axes"]), "PolarSymGrid": 2, "SphericalSymGrid": 3,
           "CylindricalSymGrid": 3}[g["cls"]]
    state = {}
    for f in fields:
        state[f] = [gen_state(rng, n) for _ in range(dim ** ranks[f])] if f in vector_vars else gen_state(rng, n)
    texts = {v: X.to_text(e) for v, e in rhs.items()}
    return {"id": i, "leg": "C", "family": family, "grid": g, "jit": jit, "rhs": texts, "bc": bc, "bc_ops": bc_ops,
            "consts": consts, "fconsts": fconsts, "fields": fields, "vector_vars": vector_vars, "ranks": ranks, "dim": dim,
            "use_evaluate": use_evaluate, "rd": rd,
            "state": state, "t": rng.choice([0.5, 1.25, round(rng.uniform(0, 3), 3)]), "t2": rng.choice([2.0, 0.75])}


# ==========================================================================================
# the real code (worker processes; mode S = NUMBA_DISABLE_JIT=1, mode J = compiled)
def _arr(x):
    import numpy as np

    return np.asarray(x, dtype=float)


def _measure_affine(apply, n):
    """A (n x n, nested lists) and b of the affine map `apply` on flat arrays of length n"""
    import numpy as np

    b = apply(np.zeros(n))
    cols = [apply(np.eye(n)[j]) - b for j in range(n)]
    A = np.array(cols).T
    return {"A": A.tolist(), "b": b.tolist()}


def _bc_for(case_bc, default="auto_periodic_neumann"):
    return default if case_bc is None else case_bc


def _bc_object(grid, bc, rank, cache):
    """the parsed boundary conditions (parsing an expression condition runs sympy.simplify: 0.2 s)"""
    import json

    key = (json.dumps(bc, sort_keys=True, default=str), rank)
    if key not in cache:
        cache[key] = grid.get_boundary_conditions(bc, rank=rank)
    return cache[key]


def worker(case):
    import warnings

    import time

    warnings.filterwarnings("ignore")
    t0 = time.time()
    try:
        r = _run_class_case(case) if case["leg"] in ("A", "B") else _run_generic_case(case)
        r["seconds"] = time.time() - t0
        return r
    except Exception as ex:                      # reported per case, judged in the main process
        import traceback

        return {"id": case["id"], "error": f"{type(ex).__name__}: {str(ex)[:300]}", "trace": traceback.format_exc()[-1500:]}


def _make_eq(case):
    import pde

    cls = getattr(pde, case["cls"])
    kw = dict(case["params"])
    for b, v in case["bcs"].items():
        if v is not None:
            kw[b] = v
    return cls(**kw)


def _state_of(case, grid):
    import pde

    shape = grid.shape
    fs = [pde.ScalarField(grid, _arr(case["state"][f]).reshape(shape)) for f in CLASSES[case["cls"]]["fields"]]
    if len(fs) == 1:
        return fs[0]
    return pde.FieldCollection(fs, labels=CLASSES[case["cls"]]["fields"])


class ShapeError(Exception):
    pass


def _flattener(shape, rows, n, out):
    """strict flattening of a rate: the result must have the shape of the state data.  The only
    other accepted form is a 0-d number (a right-hand side that is a number, e.g. the text "0", is
    returned as a scalar by the compiled function: the constant field) - counted in `scalar_results`."""
    import numpy as np

    def flat(a, what):
        arr = np.asarray(a, dtype=float)
        if arr.shape == tuple(shape):
            return arr.reshape(rows, n).tolist()
        if arr.ndim == 0:
            out["scalar_results"] = out.get("scalar_results", 0) + 1
            return np.broadcast_to(arr, tuple(shape)).reshape(rows, n).tolist()
        raise ShapeError(f"{what} returned an array of shape {arr.shape} for a state of shape {tuple(shape)}")
    return flat


def _gradient_comps(grid, bc, t, n):
    """affine maps of the components of the gradient (scalar field -> component j)"""
    import pde

    return {"comps": [
        _measure_affine(lambda a, j=j: pde.ScalarField(grid, a.reshape(grid.shape)).gradient(bc=bc, args={"t": t}).data[j].ravel(), n)
        for j in range(len(grid.axes))]}


def _run_class_case(case):
    import numpy as np
    import pde

    jit_on = os.environ.get("NUMBA_DISABLE_JIT", "0") != "1"
    grid = make_grid(case["grid"])
    n = n_cells(case["grid"])
    state = _state_of(case, grid)
    eq = _make_eq(case)
    out = {"id": case["id"], "mode": "J" if jit_on else "S"}
    nf = len(CLASSES[case["cls"]]["fields"])
    flat = _flattener(state.data.shape, nf, n, out)
    rhs = eq.make_pde_rhs(state, backend="numba")
    for tag, t in (("t", case["t"]), ("t2", case["t2"])):
        out["numpy_" + tag] = flat(eq.evolution_rate(state.copy(), t).data, "evolution_rate")
        out["numba_" + tag] = flat(rhs(state.data.copy(), t), "make_pde_rhs(numba)")
    # the numpy backend route of make_pde_rhs (wraps evolution_rate)
    out["numpybackend_t"] = flat(eq.make_pde_rhs(state, backend="numpy")(state.data.copy(), case["t"]), "make_pde_rhs(numpy)")
    if case["leg"] == "B":
        exprs = eq.expressions if hasattr(eq, "expressions") and nf == 2 else {"c": eq.expression}
        out["texts"] = dict(exprs)
        bc = list(case["bcs"].values())[0]
        eq2 = pde.PDE(dict(exprs), bc=bc)
        rhs2 = eq2.make_pde_rhs(state, backend="numba")
        for tag, t in (("t", case["t"]), ("t2", case["t2"])):
            out["pde_numpy_" + tag] = flat(eq2.evolution_rate(state.copy(), t).data, "PDE(expression).evolution_rate")
            out["pde_numba_" + tag] = flat(rhs2(state.data.copy(), t), "PDE(expression).make_pde_rhs(numba)")
        out["isclose_mobility"] = bool(np.isclose(case["params"].get("mobility", 1), 1))
        from pde.pdes.pde import _EXPRESSION_REPLACEMENT

        out["shorthand_same"] = list(_EXPRESSION_REPLACEMENT.items()) == [(a, b) for a, b in SHORTHAND]
    if not jit_on:
        # measure the operators through the field API, with the condition the class documents
        ops = {}
        bc_cache = {}
        for tag, t in (("t", case["t"]), ("t2", case["t2"])):
            for role, (opname, bcname) in OP_ROLES[case["cls"]].items():
                bc = _bc_for(case["bcs"].get(bcname))
                if bc is None or (bcname == "bc_lap" and case["bcs"].get("bc_lap") is None):
                    bc = _bc_for(case["bcs"].get("bc"))
                bc = _bc_object(grid, bc, 0, bc_cache)      # parsed once (sympy), applied many times
                if opname == "laplace":
                    ops[f"{role}@{tag}"] = _measure_affine(
                        lambda a, bc=bc, t=t: pde.ScalarField(grid, a.reshape(grid.shape)).laplace(bc=bc, args={"t": t}).data.ravel(), n)
                else:
                    # gradient_squared is not affine: it is the sum of the squares of the (affine, measured)
                    # components of the gradient; the dedicated operator's own output is NOT fed to the model
                    ops[f"{role}@{tag}"] = _gradient_comps(grid, bc, t, n)
                    # ... but it is recorded for the state itself: the {"values"} operator of the model
                    out.setdefault("gradsq_values", {})[tag] = state.gradient_squared(bc=bc, args={"t": t}).data.ravel().tolist()
        out["ops"] = ops
    return out


def desugar(e, dim, vector_vars, ranks=None):
    """scalar AST per component for an expression that may contain dot/inner/outer/gradient/
    divergence: returns a list (one AST per component of the result, row-major; length 1 for scalars)"""
    k = e["k"]
    if k == "var" and e["n"] in vector_vars:
        return [X.var(f"{e['n']}__{j}") for j in range(dim ** (ranks or {}).get(e["n"], 1))]
    if k == "call2" and e["f"] == "outer":
        a, b = desugar(e["a"], dim, vector_vars, ranks), desugar(e["b"], dim, vector_vars, ranks)
        return [X.bi("mul", a[i], b[j]) for i in range(dim) for j in range(dim)]
    if k == "call1" and e["f"] == "gradient":
        a = desugar(e["a"], dim, vector_vars, ranks)
        assert len(a) == 1
        return [X.un("call1", a[0], f=f"gradient__{j}") for j in range(dim)]
    if k == "call1" and e["f"] == "divergence":
        a = desugar(e["a"], dim, vector_vars, ranks)
        assert len(a) == dim
        out = X.un("call1", a[0], f="divergence__0")
        for j in range(1, dim):
            out = X.bi("add", out, X.un("call1", a[j], f=f"divergence__{j}"))
        return [out]
    if k == "call2" and e["f"] in ("dot", "inner"):
        a, b = desugar(e["a"], dim, vector_vars, ranks), desugar(e["b"], dim, vector_vars, ranks)
        out = X.bi("mul", a[0], b[0])
        for j in range(1, dim):
            out = X.bi("add", out, X.bi("mul", a[j], b[j]))
        return [out]
    parts = {c: desugar(e[c], dim, vector_vars, ranks) for c in ("a", "b", "h") if c in e}
    if not parts:
        return [e]
    m = max(len(v) for v in parts.values())
    res = []
    for j in range(m):
        nd = dict(e)
        for c, v in parts.items():
            nd[c] = v[j] if len(v) > 1 else v[0]
        res.append(nd)
    return res


BC_OPERATORS = ("laplace", "gradient_squared", "gradient", "divergence")


def bc_table(case):
    """the conditions in the order `PDE` consults them: bc_ops as given, then the default"""
    return list(case["bc_ops"].items()) + [("*:*", case["bc"])]


def _run_generic_case(case):
    import numpy as np
    import pde

    jit_on = os.environ.get("NUMBA_DISABLE_JIT", "0") != "1"
    grid = make_grid(case["grid"])
    n = n_cells(case["grid"])
    dim = case["dim"]
    fields = []
    for f in case["fields"]:
        if f in case["vector_vars"] and case.get("ranks", {}).get(f, 1) == 2:
            fields.append(pde.Tensor2Field(grid, _arr(case["state"][f]).reshape((dim, dim) + tuple(grid.shape)), label=f))
        elif f in case["vector_vars"]:
            fields.append(pde.VectorField(grid, _arr(case["state"][f]).reshape((dim,) + tuple(grid.shape)), label=f))
        else:
            fields.append(pde.ScalarField(grid, _arr(case["state"][f]).reshape(grid.shape), label=f))
    state = fields[0] if len(fields) == 1 else pde.FieldCollection(fields)
    consts = dict(case["consts"])
    for k, v in case["fconsts"].items():
        consts[k] = pde.ScalarField(grid, _arr(v).reshape(grid.shape))
    kw = dict(bc=case["bc"], bc_ops=dict(case["bc_ops"]) or None, consts=consts or None)
    if case.get("rd"):
        rd = case["rd"]
        eq = pde.ReactionDiffusionPDE(rd["variables"], rd["diffusivity"], rd["sources"], **kw)
    else:
        eq = pde.PDE(dict(case["rhs"]), **kw)
    out = {"id": case["id"], "mode": "J" if jit_on else "S"}
    rows = int(np.prod(state.data.shape)) // n
    flat = _flattener(state.data.shape, rows, n, out)

    rhs = eq.make_pde_rhs(state, backend="numba")
    for tag, t in (("t", case["t"]), ("t2", case["t2"])):
        out["numpy_" + tag] = flat(eq.evolution_rate(state.copy(), t).data, "evolution_rate")
        out["numba_" + tag] = flat(rhs(state.data.copy(), t), "make_pde_rhs(numba)")
    if case.get("rd"):
        # the class's advertised expressions, as a generic PDE
        out["texts"] = dict(eq.expressions)
        eq2 = pde.PDE(dict(eq.expressions), **kw)
        for tag, t in (("t", case["t"]), ("t2", case["t2"])):
            out["pde_numpy_" + tag] = flat(eq2.evolution_rate(state.copy(), t).data, "PDE(expressions).evolution_rate")
    if case.get("use_evaluate"):
        from pde.tools.expressions import evaluate

        econsts = dict(case["consts"])
        for k, v in case["fconsts"].items():
            econsts[k] = _arr(v).reshape(grid.shape)
        ebc_ops = {key.split(":")[1]: b for key, b in case["bc_ops"].items()}
        for backend in ("numpy", "numba"):
            res = evaluate(case["rhs"]["c"], {f.label: f for f in fields}, bc=case["bc"], bc_ops=ebc_ops or None,
                           consts=econsts or None, backend=backend)
            out["evaluate_" + backend] = flat(res.data, f"evaluate({backend})")
    if not jit_on:
        # every operator that occurs in some right-hand side is measured once per entry of `bc_ops ++ [default]`;
        # WHICH entry an equation uses is decided by the model (`PdeVerif.PDEs.bcIndex`), not here.  A combination the
        # real code cannot build (expression conditions for vector fields...) is recorded as None.
        used = set()
        for var, text in case["rhs"].items():
            ast = X.read_text(text, set(case["fields"]) | set(consts) | set(case["grid"]["axes"]) | {"t"})
            used |= {nd["f"] for nd in X.walk(ast) if nd["k"] == "call1" and nd["f"] in BC_OPERATORS + ("integral",)}
        bcs = bc_table(case)
        sf = lambda a: pde.ScalarField(grid, a.reshape(grid.shape))
        ops = {}
        bc_cache = {}
        for tag, t in (("t", case["t"]), ("t2", case["t2"])):
            table = {}          # name in the desugared text -> [bc look-up name, [instance per entry of bcs]]
            for op in sorted(used):
                if op == "integral":
                    w = np.array([sf(np.eye(n)[j]).integral for j in range(n)])
                    table["integral"] = ["integral", [{"A": [w.tolist()] * n, "b": [0.0] * n}] * len(bcs)]
                    continue
                for k, (_key, bcdata) in enumerate(bcs):
                    inst = {}
                    try:
                        bc = _bc_object(grid, bcdata, 1 if op == "divergence" else 0, bc_cache)
                        if op == "laplace":
                            inst["laplace"] = _measure_affine(lambda a: sf(a).laplace(bc=bc, args={"t": t}).data.ravel(), n)
                        elif op == "gradient":
                            for j in range(dim):
                                inst[f"gradient__{j}"] = _measure_affine(
                                    lambda a, j=j: sf(a).gradient(bc=bc, args={"t": t}).data[j].ravel(), n)
                        elif op == "gradient_squared":
                            inst["gradient_squared"] = _gradient_comps(grid, bc, t, n)
                        elif op == "divergence":
                            def div(vec):
                                return pde.VectorField(grid, vec.reshape((dim,) + tuple(grid.shape))).divergence(bc=bc, args={"t": t}).data.ravel()
                            b0 = div(np.zeros(dim * n))
                            for j in range(dim):
                                def comp(a, j=j):
                                    v = np.zeros((dim, n))
                                    v[j] = a
                                    return div(v.ravel()) - (b0 if j > 0 else 0)
                                inst[f"divergence__{j}"] = _measure_affine(comp, n)
                    except Exception as ex:             # this combination cannot be built by the real code
                        inst = None
                        out.setdefault("unavailable", []).append(f"{op}#{k}: {type(ex).__name__}")
                    names = {"gradient": [f"gradient__{j}" for j in range(dim)],
                             "divergence": [f"divergence__{j}" for j in range(dim)]}.get(op, [op])
                    for nm in names:
                        table.setdefault(nm, [op, []])[1].append(None if inst is None else inst[nm])
            ops[tag] = table
        out["ops"] = ops
        out["coords"] = {ax: grid.cell_coords[..., j].ravel().tolist() for j, ax in enumerate(grid.axes)}
    return out


# ==========================================================================================
# model requests
def enc_op(op, enc):
    if op is None:
        return None
    if "values" in op:
        return {"values": [enc(x) for x in op["values"]]}
    if "comps" in op:
        return {"comps": [enc_op(c, enc) for c in op["comps"]]}
    return {"A": [[enc(x) for x in row] for row in op["A"]], "b": [enc(x) for x in op["b"]]}


def rate_request(case, ops, tag):
    cls = case["cls"]
    return {"mode": "Q", "cls": cls, "n": n_cells(case["grid"]),
            "params": {k: q(v) for k, v in case["params"].items()},
            "ops": {role: enc_op(ops[f"{role}@{tag}"], q) for role in OP_ROLES[cls]},
            "state": {f: [q(x) for x in v] for f, v in case["state"].items()}}


def printed(x):
    """the decimal text `expr_prod` prints (`%g`), as an exact rational text"""
    from fractions import Fraction

    fr = Fraction(f"{x:g}")
    return str(fr.numerator) if fr.denominator == 1 else f"{fr.numerator}/{fr.denominator}"


def template_request(case, res):
    """the factors as the class computes them (floats), exactly (`actual`: decides the branch of
    expr_prod) and as printed with %g (`printed`: the literal in the text)"""
    cls, p = case["cls"], case["params"]
    fl = {}
    if cls == "SwiftHohenbergPDE":
        fac = {"a": p["rate"] - p["kc2"] ** 2, "delta": p["delta"], "two_kc2": 2 * p["kc2"]}
    elif cls in ("WavePDE", "KleinGordonPDE"):
        fac = {"speed2": p["speed"] ** 2}
        if cls == "KleinGordonPDE":
            fac["mass2"] = p["mass"] ** 2
            fl["mass_is_zero"] = p["mass"] == 0
    else:
        fac = dict(p)
    if cls == "KuramotoSivashinskyPDE":
        fac["neg_nu"] = -p["nu"]                 # the factor of the text with the operators written one by one
    if cls == "AllenCahnPDE":
        fl["mobility_is_one"] = bool(res["isclose_mobility"])
    return {"cls": cls, "printed": {k: printed(v) for k, v in fac.items()}, "actual": {k: q(v) for k, v in fac.items()},
            "flags": fl}


VALUES_COMPARED = [0]


def close_arr(a, b, tol, scale):
    worst = 0.0
    for ra, rb in zip(a, b):
        VALUES_COMPARED[0] += min(len(ra), len(rb))
        for x, y in zip(ra, rb):
            if not (math.isfinite(x) and math.isfinite(y)):
                return False, math.inf
            worst = max(worst, abs(x - y))
    return worst <= tol * scale, worst


def scale_of(*arrs):
    m = 1.0
    for a in arrs:
        for r in a:
            for x in r:
                if math.isfinite(x):
                    m = max(m, abs(x))
    return m


# ==========================================================================================
def run(ctx):
    from harness.common.isolated import run_many
    from harness.common.lean import LeanBatch, BrokenCheck

    rng = ctx.rng
    nA, nB, nC = ctx.budget(96, 800), ctx.budget(72, 600), ctx.budget(104, 800)
    jA, jB, jC = ctx.budget(8, 48), ctx.budget(6, 32), ctx.budget(6, 32)
    cases = []
    classes = sorted(CLASSES)
    for k in range(nA):
        cases.append(gen_class_case_for(rng, len(cases), "A", k < jA, classes[k % len(classes)]))
    for k in range(nB):
        cases.append(gen_class_case_for(rng, len(cases), "B", k < jB, classes[k % len(classes)]))
    for k in range(nC):
        cases.append(gen_generic_case(rng, len(cases), k < jC))
    order = list(range(len(cases)))
    ctx.sub_rng("shuffle").shuffle(order)
    import threading
    import time

    # source-semantics pool (NUMBA_DISABLE_JIT=1, all cases) and compiled pool (JIT subset) side by side,
    # 16 processes in total
    jcases = [c for c in cases if c["jit"]]
    box = {}

    def pool(name, args, env, procs):
        t0 = time.time()
        try:
            box[name] = run_many("harness.c10", "worker", args, env=env, procs=procs)
        except Exception as ex:          # re-raised in the main thread
            box[name] = ex
        box[name + "_s"] = time.time() - t0

    th = threading.Thread(target=pool, args=("J", jcases, {"NUMBA_DISABLE_JIT": "0"}, 7))
    th.start()
    pool("S", [cases[i] for i in order], {"NUMBA_DISABLE_JIT": "1"}, 9)
    th.join()
    for name in ("S", "J"):
        if isinstance(box[name], Exception):
            raise box[name]
    resS, resJ, t_S, t_J = box["S"], box["J"], box["S_s"], box["J_s"]
    S = {}
    for r in resS:
        if isinstance(r, str):
            raise BrokenCheck("worker failed: " + r)
        S[r["id"]] = r
    J = {}
    for r in resJ:
        if isinstance(r, str):
            raise BrokenCheck("worker failed: " + r)
        J[r["id"]] = r

    batch = LeanBatch(ctx.workdir)
    slots = {}
    for c in cases:
        r = S[c["id"]]
        if "error" in r:
            continue
        sl = {}
        if c["leg"] in ("A", "B"):
            # ONE request for both times: the model builds time-dependent operators from the two measurements and
            # evaluates the time-parameterised class rate (`*RateAt`) at each time
            sl["rate_T"] = batch.add("c10.rate_t", timed(c, "Q", q, [rate_request(c, r["ops"], tag) for tag in TAGS]))
            if any(role == "gradsq" for role in OP_ROLES[c["cls"]]):
                # the {"values"} operator: gradient_squared replaced by the result py-pde's OWN operator gave for
                # the state (`constOp`, theorem values_operator_sound: the class rate must not change)
                sl["ratev_T"] = batch.add("c10.rate_t", timed(c, "Q", q, [
                    rate_request(c, dict(r["ops"], **{f"gradsq@{tag}": {"values": r["gradsq_values"][tag]}}), tag)
                    for tag in TAGS]))
            if c["leg"] == "B":
                sl["template"] = batch.add("c10.template", template_request(c, r))
                sl.update(text_requests(batch, c, r))
        else:
            sl.update(generic_requests(batch, c, r))
        slots[c["id"]] = sl
    t_lean = time.time()
    answers = expand_timed(batch.run(), slots)
    ctx.extra["timing"] = {"S_pool_s": round(t_S, 1), "J_pool_s": round(t_J, 1), "lean_s": round(time.time() - t_lean, 1),
                           "S_case_s_max": round(max([r.get("seconds", 0) for r in S.values()] + [0]), 1),
                           "J_case_s_max": round(max([r.get("seconds", 0) for r in J.values()] + [0]), 1),
                           "J_case_s_mean": round(sum(r.get("seconds", 0) for r in J.values()) / max(1, len(J)), 1)}

    for c in cases:
        judge(ctx, c, S[c["id"]], J.get(c["id"]), slots.get(c["id"]), answers)
    ctx.extra["programs"] = len(cases)
    # individual rate values (cells) compared, model-vs-code and code-vs-code (`traces_validated_against_impl` counts
    # the rate ARRAYS of the real code compared with the model)
    ctx.extra["disagreements_checked"] = VALUES_COMPARED[0]
    ctx.extra["jit_cases"] = len(jcases)


TAGS = ("t", "t2")


def timed(c, mode, enc, requests, **extra):
    """one request for all times of a case (`c10.rate_t` / `c10.text_t` / `c10.rhs_t`)"""
    return dict({"mode": mode, "times": [enc(c[tag]) for tag in TAGS], "requests": requests}, **extra)


def expand_timed(answers, slots):
    """a slot `<name>_T` (one answer holding a list with one entry per time) becomes the slots `<name>_t`, `<name>_t2`
    that `judge` reads"""
    answers = list(answers)
    for sl in slots.values():
        for key in [k for k in sl if k.endswith("_T")]:
            st, val = answers[sl[key]]
            for j, tag in enumerate(TAGS):
                if st == "ok" and not (isinstance(val, list) and len(val) == len(TAGS)):
                    answers.append(("err", f"timed answer is not a list of {len(TAGS)} entries: {str(val)[:200]}"))
                else:
                    answers.append((st, val[j]) if st == "ok" else (st, val))
                sl[key[:-1] + tag] = len(answers) - 1
    return answers


def text_form(ast):
    """'grouped' if some Laplacian of the text is applied to a sum (`laplace(c + nu*laplace(c))`), else 'split'"""
    return "grouped" if any(nd["k"] == "call1" and nd["f"] == "laplace" and nd["a"]["k"] in ("add", "sub")
                            for nd in X.walk(ast)) else "split"


def read_class_texts(cls, texts):
    """the advertised texts re-read with Python's grammar (after py-pde's short-hand replacements)"""
    fields = CLASSES[cls]["fields"]
    return {var: X.strip(X.read_text(expand_shorthand(text), set(fields))) for var, text in texts.items()}


def text_requests(batch, c, r):
    """field semantics of the real expression text (re-read): `PdeVerif.PDEs.rhsValue`"""
    sl = {}
    asts = read_class_texts(c["cls"], r["texts"])
    sl["_asts"] = asts
    exprs = [[v, a] for v, a in asts.items()]
    reqs = []
    for tag in TAGS:
        lap = r["ops"][f"{'lap_c' if c['cls'] == 'CahnHilliardPDE' else 'lap_bc'}@{tag}"]
        req = {"mode": "Q", "n": n_cells(c["grid"]), "exprs": exprs,
               "fields": [[f, [q(x) for x in v]] for f, v in c["state"].items()], "lap": enc_op(lap, q)}
        if f"gradsq@{tag}" in r["ops"]:
            req["gradsq"] = enc_op(r["ops"][f"gradsq@{tag}"], q)
        reqs.append(req)
    # `rhsValueAt`: operators of time t, symbol t bound to t, at both times
    sl["text_T"] = batch.add("c10.text_t", timed(c, "Q", q, reqs))
    return sl


def generic_requests(batch, c, r):
    sl = {}
    declared = set(c["fields"]) | set(c["consts"]) | set(c["fconsts"]) | set(c["grid"]["axes"]) | {"t"}
    dim = c["dim"]
    exprs = []
    rational = True
    for var, text in c["rhs"].items():
        ast = X.strip(X.read_text(text, declared))
        comps = desugar(ast, dim, c["vector_vars"], c.get("ranks"))
        for j, e in enumerate(comps):
            exprs.append([f"{var}__{j}" if var in c["vector_vars"] else var, e, var])
            rational = rational and X.rational_fragment(_strip_ops(e))
    mode = "Q" if rational else "F"
    enc = q if mode == "Q" else fbits
    n = n_cells(c["grid"])
    fields = []
    for f in c["fields"]:
        if f in c["vector_vars"]:
            for j in range(dim ** c.get("ranks", {}).get(f, 1)):
                fields.append([f"{f}__{j}", [enc(x) for x in c["state"][f][j]]])
        else:
            fields.append([f, [enc(x) for x in c["state"][f]]])
    for k, v in c["fconsts"].items():
        fields.append([k, [enc(x) for x in v]])
    for ax, v in r["coords"].items():
        fields.append([ax, [enc(x) for x in v]])
    bc_keys = [key.split(":") for key in c["bc_ops"]]
    reqs = []
    for tag in TAGS:
        table = [[name, bcname, [enc_op(o, enc) for o in insts]] for name, (bcname, insts) in r["ops"][tag].items()]
        reqs.append({"mode": mode, "n": n, "exprs": exprs, "fields": fields, "bc_keys": bc_keys, "table": table})
    # `rhsValuePdeAt`: the table is a function of the time (the two measured tables), the MODEL binds the symbol `t`
    # to the time at which it evaluates; the constants are passed without the time
    sl["rhs_T"] = batch.add("c10.rhs_t", timed(c, mode, enc, reqs, consts=[[k, enc(v)] for k, v in c["consts"].items()]))
    sl["_mode"] = mode
    sl["_names"] = [nm for nm, _e, _v in exprs]
    return sl


def _strip_ops(e):
    """the expression with operator calls replaced by their argument (for the fragment test)"""
    if e["k"] == "call1" and (e["f"] in ("laplace", "gradient_squared", "integral") or "__" in e["f"]):
        return _strip_ops(e["a"])
    out = dict(e)
    for c in ("a", "b", "h"):
        if c in e:
            out[c] = _strip_ops(e[c])
    return out


def decode_vec(mode, l):
    return [float(unq(x)) if mode == "Q" else unfbits(x) for x in l]


def base_key(c):
    return {"leg": c["leg"], "cls": c.get("cls") or ("ReactionDiffusionPDE" if c.get("rd") else "PDE"), "family": c.get("family")}


def strip_case(c):
    return {k: v for k, v in c.items() if k not in ("id",)}


def monitor_checks(c, rs, rj):
    """Every evaluation of the property monitor for one case, on results of the real code only
    (rs: source-semantics run, rj: compiled run or None).  Used by `judge` and by `replay`.
    Items: {"what", "ok", "worst", "extra" (fields added to the recorded case), "observed", "expected", "msg", "key"}"""
    leg = c["leg"]
    key = base_key(c)
    out = []

    def add(what, ok, worst, extra, observed, expected, msg, **kx):
        out.append({"what": what, "ok": bool(ok), "worst": worst, "extra": extra, "observed": observed, "expected": expected,
                    "msg": msg, "key": dict(key, what=what, **kx)})

    # the real code raises on a valid case
    for r, tag in ((rs, "S"), (rj, "J")):
        if r is not None and "error" in r:
            add("raises", False, math.inf, {"exec_mode": tag}, r["error"], "a rate", f"leg {leg}: evaluating the rate raises ({tag})",
                error=r["error"].split(":")[0])
    if any(not m["ok"] for m in out):
        return out
    # ---- numpy vs compiled, at both times, in both execution modes --------------------------------
    for r, tag in ((rs, "S"), (rj, "J")):
        if r is None:
            continue
        for t in ("t", "t2"):
            a, b = r["numpy_" + t], r["numba_" + t]
            ok, worst = close_arr(a, b, TOL, scale_of(a, b))
            add("numpy-vs-numba", ok, worst, {"time": c[t], "exec_mode": tag}, {"numba": b, "max_abs_diff": worst}, {"numpy": a},
                f"leg {leg}: compiled rate differs from the interpreted rate")
        if "numpybackend_t" in r:
            ok, worst = close_arr(r["numpy_t"], r["numpybackend_t"], TOL, scale_of(r["numpy_t"]))
            add("numpy-backend", ok, worst, {"exec_mode": tag}, r["numpybackend_t"], r["numpy_t"],
                "numpy backend make_pde_rhs differs from evolution_rate")
    if rj is not None:
        for t in ("t", "t2"):
            ok, worst = close_arr(rs["numba_" + t], rj["numba_" + t], TOL, scale_of(rs["numba_" + t]))
            add("S-vs-J", ok, worst, {"time": c[t], "exec_mode": "J"}, rj["numba_" + t], rs["numba_" + t],
                "compiled code differs from its own source semantics")
    # ---- evaluate(text) vs PDE(text) ---------------------------------------------------------------------
    if leg == "C" and c.get("use_evaluate"):
        for r, tag in ((rs, "S"), (rj, "J")):
            if r is None:
                continue
            for route in ("evaluate_numpy", "evaluate_numba"):
                ok, worst = close_arr(r["numpy_t"], r[route], TOL, scale_of(r["numpy_t"]))
                add("evaluate-vs-pde", ok, worst, {"exec_mode": tag, "route": route}, r[route], r["numpy_t"],
                    "evaluate(text) differs from the rate of PDE(text)")
    # ---- the advertised expression(s) -----------------------------------------------------------------------
    if leg == "B" or c.get("rd"):
        cls = key["cls"]
        for r, tag in ((rs, "S"), (rj, "J")):
            if r is None:
                continue
            for t in ("t", "t2"):
                if "pde_numba_" + t in r:
                    ok, worst = close_arr(r["pde_numpy_" + t], r["pde_numba_" + t], TOL, scale_of(r["pde_numpy_" + t]))
                    add("pde-numpy-vs-numba", ok, worst, {"time": c[t], "exec_mode": tag}, r["pde_numba_" + t], r["pde_numpy_" + t],
                        "PDE(expression): compiled rate differs from the interpreted rate")
                # the literal clause: class rate == PDE(class's own expression text) up to the six printed digits
                a, b = r["numpy_" + t], r["pde_numpy_" + t]
                sc = scale_of(a, b)
                ok, worst = close_arr(a, b, 1e-5, sc)
                kx = {"class": cls}
                if leg == "B":
                    bvec = rs["ops"][f"{'lap_c' if cls == 'CahnHilliardPDE' else 'lap_bc'}@{t}"]["b"]
                    inhom = any(abs(x) > 1e-12 for x in bvec)
                    form = text_form(read_class_texts(cls, r["texts"])["u" if "u" in r["texts"] else "c"]) \
                        if cls in GROUPED else "plain"
                    kx.update(bc="inhomogeneous" if inhom else "homogeneous", text=form)
                    if not ok:
                        # is the deviation exactly the one the theorem `*_grouped_text_vs_split_class_gap` predicts for a
                        # text that puts two terms under one Laplacian?  (text - class = nu*b resp. 2*kc2*b)
                        kx["symptom"] = "unexplained"
                        if cls in GROUPED and form == "grouped":
                            fac = c["params"]["nu"] if cls == "KuramotoSivashinskyPDE" else 2 * c["params"]["kc2"]
                            pred = [[x + fac * bi for x, bi in zip(a[0], bvec)]]
                            if close_arr(pred, b, 1e-5, sc)[0]:
                                kx["symptom"] = "offset-of-grouped-laplacian"
                add("class-vs-expression", ok, worst, {"time": c[t], "exec_mode": tag, "text": r["texts"]},
                    {"pde_expression": b, "max_abs_diff": worst}, {"class": a},
                    "PDE(eq.expression) differs from the class rate beyond the printed digits"
                    + (f" [{kx['symptom']}]" if kx.get("symptom") else ""), **kx)
    return out


def judge(ctx, c, rs, rj, sl, answers):
    leg = c["leg"]
    case = strip_case(c)
    ctx.hist("leg", leg + ("/jit" if c["jit"] else ""))
    ctx.hist("grid", c["grid"]["cls"] + f"/{len(c['grid']['shape'])}d" + ("/periodic" if any(c["grid"]["periodic"]) else ""))
    if leg in ("A", "B"):
        ctx.hist("class", c["cls"])
        for b in c["bcs"].values():
            if b:
                for s in b.values():
                    ctx.hist("bc_kind", s if isinstance(s, str) else s.get("type") or next(iter(s)))
    else:
        ctx.hist("family", c["family"])
        ctx.hist("bc_ops", len(c["bc_ops"]))
        if c.get("rd"):
            ctx.hist("class", "ReactionDiffusionPDE")

    # ---- the monitor, on the real code only ----------------------------------------------------------
    checks = monitor_checks(c, rs, rj)
    for m in checks:
        if m["what"] != "raises":
            ctx.monitor_evals += 1
        if m["what"] == "class-vs-expression":
            ctx.hist("class_vs_expression", f"{m['key']['class']}:{m['key'].get('bc', '-')}:{m['key'].get('text', '-')}:"
                                            f"{'ok' if m['ok'] else m['key'].get('symptom')}")
        if not m["ok"]:
            ctx.monitor_fail(leg, dict(case, **m["extra"]), m["observed"], m["expected"], m["msg"], key=m["key"])
    for r in (rs, rj):
        if r is not None and "error" in r:
            ctx.count(case, nontrivial=False, leg=leg)
            ctx.hist("impl_error", r["error"].split(":")[0])
            return
    if sl is None:
        return
    for r in (rs, rj):
        if r is not None and r.get("scalar_results"):
            ctx.hist("scalar_results", leg, r["scalar_results"])
    nontrivial = True
    # the time must matter when the conditions depend on it (otherwise the two-time test is vacuous)
    flat0 = [x for r_ in rs["numpy_t"] for x in r_]
    const_rate = max(flat0) - min(flat0) <= 1e-12 * max(1.0, max(abs(x) for x in flat0))

    # ---- correspondence with the model -------------------------------------------------------------
    if leg in ("A", "B"):
        fields = CLASSES[c["cls"]]["fields"]
        model = {}
        for t in ("t", "t2"):
            st, val = answers[sl["rate_" + t]]
            if st != "ok":
                ctx.disagree(leg, case, val, None, "model driver error")
                return
            model[t] = [decode_vec("Q", val[f]) for f in fields]
        for r, tag in ((rs, "S"), (rj, "J")):
            if r is None:
                continue
            for t in ("t", "t2"):
                for route in ("numpy_", "numba_"):
                    ctx.impl_traces += 1
                    sc = scale_of(model[t], r[route + t])
                    ok, worst = close_arr(model[t], r[route + t], TOL, sc)
                    if not ok:
                        ctx.disagree(leg, dict(case, time=c[t], exec_mode=tag, route=route.strip("_")), model[t], r[route + t],
                                     f"{route.strip('_')} rate differs from the documented composition of the operators "
                                     f"(max abs diff {worst:.3g})")
        # the {"values"} operator (`constOp`): the class rate with py-pde's own gradient_squared of the state in place
        # of the model's sum of squares must be the rate of the real code as well (values_operator_sound)
        for t in TAGS:
            if "ratev_" + t not in sl:
                continue
            st, val = answers[sl["ratev_" + t]]
            if st != "ok":
                ctx.disagree(leg, case, val, None, "model driver error ({values} operator)")
                return
            mv = [decode_vec("Q", val[f]) for f in fields]
            ctx.impl_traces += 1
            ctx.hist("values_operator", c["cls"])
            for ref, what in ((rs["numpy_" + t], "numpy rate"), (model[t], "model rate with sumSquares")):
                ok, worst = close_arr(mv, ref, TOL, scale_of(mv, ref))
                if not ok:
                    ctx.disagree(leg, dict(case, time=c[t], exec_mode="S", route="values-operator"), mv, ref,
                                 f"class rate with the measured gradient_squared as a {{values}} operator differs from the "
                                 f"{what} (max abs diff {worst:.3g})")
        offsets = [any(abs(x) > 1e-12 for x in rs["ops"][k]["b"]) for k in rs["ops"] if "b" in rs["ops"][k]]
        bcs = [b for b in c["bcs"].values() if b is not None]
        distinct_bcs = len(bcs) < 2 or bcs[0] != bcs[1] or leg == "B"
        nontrivial = (not const_rate) and (any(offsets) or c["cls"] not in ("DiffusionPDE", "WavePDE")) and distinct_bcs
        ctx.hist("inhomogeneous_offset", any(offsets))
    if leg == "B":
        judge_text(ctx, c, rs, rj, sl, answers, case, model)
    if leg == "C":
        mode = sl["_mode"]
        ctx.hist("number_type", mode)
        for u in rs.get("unavailable", []):
            ctx.hist("operator_instance_unavailable", u.split("#")[0] + ":" + u.split(": ")[1])
        for t in ("t", "t2"):
            st, val = answers[sl["rhs_" + t]]
            if st != "ok":
                ctx.disagree(leg, case, val, None, "model driver error")
                return
            mv = [decode_vec(mode, v) for _nm, v, _sel in val]
            if t == "t":
                nkeys = len(c["bc_ops"])
                keys = list(c["bc_ops"])
                for _nm, _v, sel in val:
                    for _f, k in sel:
                        ctx.hist("bc_selected", "default" if k == nkeys else
                                 ("wildcard-key" if "*" in keys[k] else "exact-key") + ("/not-first" if k > 0 else ""))
            if any(not math.isfinite(x) for row in mv for x in row):
                ctx.hist("skipped", "model value not finite")
                continue
            for r, tag in ((rs, "S"), (rj, "J")):
                if r is None:
                    continue
                routes = ["numpy_", "numba_"] + (["pde_numpy_"] if c.get("rd") else [])
                for route in routes:
                    ctx.impl_traces += 1
                    sc = scale_of(mv, r[route + t])
                    ok, worst = close_arr(mv, r[route + t], 1e-9, sc)
                    if not ok:
                        ctx.disagree(leg, dict(case, time=c[t], exec_mode=tag, route=route.strip("_")), mv, r[route + t],
                                     f"{route.strip('_')} rate differs from the field semantics of the text (max abs diff {worst:.3g})")
                if c.get("use_evaluate") and t == "t":
                    # `evaluate(text, fields, ...)`: same text, same conditions, no time
                    for route in ("evaluate_numpy", "evaluate_numba"):
                        ctx.impl_traces += 1
                        ctx.hist("evaluate", route + "/" + tag)
                        ok, worst = close_arr(mv, r[route], 1e-9, scale_of(mv, r[route]))
                        if not ok:
                            ctx.disagree(leg, dict(case, exec_mode=tag, route=route), mv, r[route],
                                         f"{route} differs from the field semantics of the text (max abs diff {worst:.3g})")
        nontrivial = not const_rate
    ctx.count(case, nontrivial=nontrivial, leg=leg)


def text_factor_problem(ast, want):
    """property level: the numbers the text advertises must be the class's factors to the six significant digits
    `expr_prod` prints - judged term by term, because a small factor is invisible in the total rate.
    Returns (description or None, expected factors)"""
    from fractions import Fraction
    got = [Fraction(n["v"]) for n in X.walk(ast) if n["k"] == "num"]
    exp = [Fraction(n["v"]) for n in X.walk(want) if n["k"] == "num"]
    bad = None
    if len(got) != len(exp):
        bad = f"{len(got)} numeric factors printed, {len(exp)} expected (a term vanished or appeared)"
    else:
        for g_, e_ in zip(got, exp):
            if abs(g_ - e_) > Fraction(1, 10 ** 5) * abs(e_):
                bad = f"printed factor {float(g_)!r} instead of {float(e_)!r}"
                break
    return bad, [float(e_) for e_ in exp]


def judge_text(ctx, c, rs, rj, sl, answers, case, model):
    """leg B, correspondence part: the advertised text has the AST of the model's template, and `PDE(text)` computes
    the field semantics (`rhsValue`) of that text.  (The monitor class-vs-PDE(text) is in `monitor_checks`.)"""
    cls = c["cls"]
    fields = CLASSES[cls]["fields"]
    if not rs.get("shorthand_same", True):
        ctx.note("the package's short-hand replacement table differs from the harness copy")
        ctx.disagree("B", case, SHORTHAND, "pde.pdes.pde._EXPRESSION_REPLACEMENT", "short-hand table changed")
    # 1. the text has the AST of the model's template (exact)
    st, tmpl = answers[sl["template"]]
    if st != "ok":
        ctx.disagree("B", case, tmpl, None, "model driver error (template)")
        return
    asts = sl["_asts"]
    form = "plain"
    if cls in GROUPED:
        # two spellings are modelled (`ksExpr`/`ksExprSplit`, `swiftHohenbergExpr`/`...Split`): the text of the tree
        # as it is groups two terms under one Laplacian, the repaired text writes the operators one by one
        form = text_form(asts["c"])
        tmpl = tmpl[form]
    want = {"c": tmpl} if len(fields) == 1 else tmpl
    ctx.impl_traces += 1
    for v in asts:
        if asts[v] != want[v]:
            ctx.disagree("B-template", dict(case, var=v, text=rs["texts"][v]), want[v], asts[v],
                         "the advertised text does not have the AST of the class's template")
            bad, exp = text_factor_problem(asts[v], want[v])
            ctx.monitor_evals += 1
            if bad:
                ctx.monitor_fail("B", dict(strip_case(c), var=v, text=rs["texts"][v]), rs["texts"][v],
                                 {"factors_to_six_digits": exp},
                                 "the advertised expression text does not describe the class rate: " + bad,
                                 key={"what": "text-factor", "class": cls})
    ctx.hist("text_shape", cls + ":" + form + ":" + "|".join(sorted(str(X.size(a)) for a in asts.values())))
    # 2. field semantics of the text (model) vs PDE(text) (real code), sharp
    sem = {}
    for t in ("t", "t2"):
        st, val = answers[sl["text_" + t]]
        if st != "ok":
            ctx.disagree("B", case, val, None, "model driver error (text semantics)")
            return
        d = dict((nm, decode_vec("Q", v)) for nm, v in val)
        sem[t] = [d[f] for f in fields]
    for r, tag in ((rs, "S"), (rj, "J")):
        if r is None:
            continue
        for t in ("t", "t2"):
            for route in ("pde_numpy_", "pde_numba_"):
                ctx.impl_traces += 1
                sc = scale_of(sem[t], r[route + t])
                ok, worst = close_arr(sem[t], r[route + t], 1e-9, sc)
                if not ok:
                    ctx.disagree("B-text", dict(case, time=c[t], exec_mode=tag, route=route.strip("_")), sem[t], r[route + t],
                                 f"PDE(expression) differs from the field semantics of the text (max abs diff {worst:.3g})")
    # 3. the theorems about text vs class, on the model's own values (exact arithmetic on the measured operators):
    #    rhsValue(text) == class rate [+ nu*b resp. 2*kc2*b for the grouped texts] up to the six printed digits
    ctx.hist("legB_mode", f"{cls}:{c['mode']}")
    for t in ("t", "t2"):
        pred = model[t]
        if form == "grouped":
            bvec = rs["ops"][f"lap_bc@{t}"]["b"]
            fac = c["params"]["nu"] if cls == "KuramotoSivashinskyPDE" else 2 * c["params"]["kc2"]
            pred = [[x + fac * bi for x, bi in zip(model[t][0], bvec)]]
            if any(abs(x) > 1e-12 for x in bvec):
                ctx.hist("gap_checked", cls)
        ctx.impl_traces += 1
        ok, worst = close_arr(pred, sem[t], 1e-5, scale_of(pred, sem[t]))
        if not ok:
            ctx.disagree("B-gap", dict(case, time=c[t]), pred, sem[t],
                         "the field semantics of the text is not the class rate (plus the offset term nu*b of a grouped text) "
                         "that the theorems *_rate_eq_expression / *_grouped_text_vs_split_class_gap state")


def search(ctx, broken):
    """every case has already been put through all monitors (`monitor_checks`) in `run`: a broken tie without a
    monitor failure has no failing input on the explored cases"""
    return []


REPLAY_EXTRAS = ("exec_mode", "time", "route", "text", "var")


def replay(ctx, rep):
    """re-run the RECORDED case (same class/program, parameters, grid, conditions, state, times) on the real code in
    the recorded execution mode (S: numba source semantics, J: compiled; S is always run as well because the
    S-vs-J monitor and the operator offsets need it), re-evaluate the monitors and judge the recorded symptom
    (`key.what` at the recorded time / route): False iff it still fails."""
    from harness.common.isolated import run_one

    if "case" not in rep:
        print("not replayable: the file records no case (kind=%s)" % rep.get("kind"))
        return False
    c = {k: v for k, v in rep["case"].items() if k not in REPLAY_EXTRAS}
    c["id"] = 0
    if c.get("leg") not in ("A", "B", "C"):
        print("not replayable: the recorded case has no leg")
        return False
    extras = {k: rep["case"][k] for k in REPLAY_EXTRAS if k in rep["case"]}
    what = (rep.get("key") or {}).get("what")
    mode = extras.get("exec_mode", "S")
    rs = run_one("harness.c10", "worker", c, env={"NUMBA_DISABLE_JIT": "1"})
    rj = run_one("harness.c10", "worker", c, env={"NUMBA_DISABLE_JIT": "0"}) if (mode == "J" or what == "S-vs-J") else None
    for r, tag in ((rs, "S"), (rj, "J")):
        if isinstance(r, str):
            print(f"worker failed ({tag}): {r}")
            return False
    if what == "text-factor":
        # the advertised text against the model's template of the class (numbers to six significant digits)
        from harness.common.lean import LeanBatch
        b = LeanBatch(ctx.workdir)
        i = b.add("c10.template", template_request(c, rs))
        st, tmpl = b.run()[i]
        if st != "ok":
            print("model driver error (template):", tmpl)
            return False
        asts = read_class_texts(c["cls"], rs["texts"])
        if c["cls"] in GROUPED:
            tmpl = tmpl[text_form(asts["c"])]
        want = {"c": tmpl} if len(CLASSES[c["cls"]]["fields"]) == 1 else tmpl
        ok = True
        for v in asts:
            bad, exp = text_factor_problem(asts[v], want[v])
            print(f"text of {v}: {rs['texts'][v]!r}: {'FAILS: ' + bad if bad else 'ok'}")
            ok = ok and not bad
        return ok
    checks = monitor_checks(c, rs, rj)
    if what is None:
        print("the file records no symptom (key.what): judging every monitor of the case")
    sel = []
    for m in checks:
        same = what is None or m["what"] == what
        for k in ("exec_mode", "time", "route"):
            if same and what is not None and k in extras and k in m["extra"] and m["extra"][k] != extras[k]:
                same = False
        tag = "recorded symptom" if same and what is not None else "other monitor  "
        print(f"[{tag}] {m['what']:22s} {json_short(m['extra'])}: max abs diff {m['worst']:.3g} {'ok' if m['ok'] else 'FAILS'}"
              + (f" ({m['key'].get('symptom')})" if m["key"].get("symptom") else "")
              + (f"  {m['observed']}" if m["what"] == "raises" else ""))
        if same:
            sel.append(m)
    if not sel:
        # e.g. the case raised in the recorded run and now yields values (or vice versa): judge what exists
        if what == "raises":
            print("the recorded symptom (the real code raises) no longer occurs")
            return all(m["ok"] for m in checks)
        print("no monitor evaluation matches the recorded symptom: the case cannot be re-judged")
        return False
    return all(m["ok"] for m in sel)


def json_short(d):
    import json

    return json.dumps({k: v for k, v in d.items() if k != "text"}, sort_keys=True)
