"""C17 - splitting a grid into sub-grids changes nothing.

Correspondence: the real `GridMesh` (serial API of `pde/grids/_mesh.py`) vs `PdeVerif.Mesh` (Lean)
on exhaustively enumerated small decompositions: chunk sizes against the contract, id <-> index,
per-axis slices, index boxes, neighbours, MPI flags, sub-grid shapes/bounds/coordinates/volumes,
`extract_field_data`, `combine_field_data`, `extract_subfield`, and the sub-arrays with ghost cells
that a (serially emulated) ghost-cell exchange produces.  Monitor: the property statement itself
on the real code (tiling, split/combine identity, neighbour symmetry/periodicity, operator on the
sub-grids == operator on the whole grid)."""
import itertools
import json
import math

import numpy as np

from harness.common.num import fbits, q, unfbits, unq

PID = "C17"
LEVEL = "proof"
EXTRA_PROP_FILES = ["C17Coll"]  # extract_subfield for fields and collections
REQUIRED_THEOREMS = [
    "subdivide_sum", "subdivide_pos", "subdivide_balanced", "subdivide_contract", "contractB_iff", "balancedB_iff",
    "linCut_exact", "subdivideLin_exact", "subdivideLin_contract", "cut_at_integer_point", "subdivide_robust",
    "slices_tile", "slices_tile_nd", "boxes_cover", "boxes_disjoint", "box_in_array", "id_idx_bijection",
    "bounds_tile", "subgrid_spacing", "cell_coords_agree", "cell_edges_agree", "cell_volumes_agree", "volumes_add_up",
    "volumes_add_up_nd", "volumes_add_up_gen", "volCoef_eq_volGen", "volumes_add_up_cylinder",
    "combine_extract_id", "combine_extract_id_list", "extract_combine_id", "extract_combine_id_consistent",
    "combineUpTo_spec", "neighbor_symmetric", "neighbor_none_iff", "neighbor_respects_periodicity",
    "neighbor_adjacent", "neighbor_lt_len", "flags_match", "get?_extract_ghost", "operator_commutes_with_split",
    "operator_split_combine", "ghost_exchange", "exchangeAxis_face", "exchangeAxis_other", "exchangeUpTo_spec",
    "exchange_faces", "setOuter_exchange_agree", "operator_exchange_combine", "outer_of_no_neighbor", "outer_face_local",
    "too_many_chunks_raises", "fromGrid_too_many_chunks", "cylinder_split_raises", "admissible_ok", "cylinder_z_split_ok",
]
RULE = ("every decomposition (chunk vector <= shape, all periodic flags) of small Cartesian grids "
        "(1-d <= 12 cells, 2-d <= 6x5, 3-d <= 4x3x3: exhaustive in thorough, a seed-chosen subset in quick) "
        "plus spherical/polar (all chunk counts) and cylindrical (all z-splits) grids with seed-derived bounds; "
        "all pairs chunks <= num <= 400 for `_subdivide`; a separate malformed stream (more chunks than cells, "
        "radial cylinder split, hollow cylinder, bad decomposition lists, node counts `mpi.size` > 1 that do or do not "
        "match) whose expected outcome is an error class; operator-equivalence cases (grid, decomposition, operator, "
        "boundary condition, field) executed with one thread per node and an in-memory transport: periodic axes carry "
        "'periodic' or 'anti-periodic' (all spellings; a dedicated stream splits the anti-periodic axis into 2, 3.. "
        "chunks), the other faces value/derivative/mixed/curvature with uniform or per-component values, conditions on "
        "the normal component (divergence operators), coordinate-dependent expressions (scalars), values varying along "
        "the face.  A case is distinct by its full specification and non-trivial if the mesh has >= 2 sub-grids (mesh "
        "legs), chunks >= 2 (subdivide leg), the expected outcome is an error or the node count matters (malformed "
        "leg), or the operator result is non-zero on >= 2 sub-grids (operator legs)")
ASSUMPTIONS = [
    "MPI transport is not available (mpi4py/numba_mpi absent): send/recv are emulated by an in-memory mailbox keyed "
    "by (source, destination, tag) with blocking receive, every node runs in its own thread with a thread-local "
    "`mpi.rank`; everything else of the exchange is the real code (BoundariesList.set_ghost_cells, "
    "BoundaryAxisBase.set_ghost_cells, _MPIBC, extract_boundary_conditions, to_subgrid; in source mode also the "
    "ghost-cell setters/senders of the numba_mpi backend run as Python source, imported with an empty stand-in for "
    "the `numba_mpi` package, and subgrid.make_operator(op, bc))",
    "float geometry (bounds, cell coordinates, volumes) is compared with the exact model up to 1e-12 of the domain "
    "scale (Cartesian grids store bounds as position + size, so sub-grid bounds are not bit-identical to the lattice)",
    "operator equivalence is checked to 1e-10 of the natural scale max|data|/dx^2",
    "the contract of the real chunk sizes is decided by the model on the real sizes (`contractB`/`balancedB`, all "
    "pairs chunks <= num <= 400 and a sample up to 5000); it is proven for the code's formula in exact arithmetic "
    "(`subdivideLin_contract`) and for every perturbation of the form `RobustCuts` (`subdivide_robust`); that IEEE "
    "doubles only produce such perturbations is measured (histogram `subdivide`), not proven",
]
TRUSTED_EXTRA = ["numpy basic slicing/assignment semantics are modelled by `Arr.slice`/`writeBox`"]

KINDS = {"UnitGrid": "cartesian", "CartesianGrid": "cartesian", "SphericalSymGrid": "spherical",
         "PolarSymGrid": "polar", "CylindricalSymGrid": "cylindrical"}


# ------------------------------------------------------------------------------------------
# real-code side (runs in isolated interpreters)
# ------------------------------------------------------------------------------------------
def make_grid(spec):
    import pde

    cls = spec["cls"]
    shape = list(spec["shape"])
    b = spec["bounds"]
    if cls == "UnitGrid":
        return pde.UnitGrid(shape, periodic=list(spec["periodic"]))
    if cls == "CartesianGrid":
        return pde.CartesianGrid([tuple(x) for x in b], shape, periodic=list(spec["periodic"]))
    if cls in ("SphericalSymGrid", "PolarSymGrid"):
        r = b[0][1] if b[0][0] == 0 else (b[0][0], b[0][1])
        return getattr(pde, cls)(r, shape[0])
    if cls == "CylindricalSymGrid":
        r = b[0][1] if b[0][0] == 0 else (b[0][0], b[0][1])
        return pde.CylindricalSymGrid(r, tuple(b[1]), shape, periodic_z=bool(spec["periodic"][1]))
    raise ValueError(cls)


def classify(e):
    msg = str(e)
    if isinstance(e, RuntimeError) and "more chunks" in msg:
        return "too-many-chunks"
    if isinstance(e, RuntimeError) and "Unknown size" in msg:
        return "unknown-size"
    if isinstance(e, RuntimeError) and "Not enough nodes" in msg:
        return "not-enough-nodes"
    if isinstance(e, RuntimeError) and "Node count" in msg and "incompatible" in msg:
        return "node-count"
    if isinstance(e, ValueError) and "one unknown" in msg:
        return "two-unknown"
    if isinstance(e, NotImplementedError):
        return "not-implemented"
    if isinstance(e, IndexError):
        return "index-error"
    if isinstance(e, AssertionError):
        return "assertion-error"
    return f"other:{type(e).__name__}:{msg[:80]}"


def _ints(a):
    return [int(x) for x in np.asarray(a).ravel()]


def _ints_safe(a):
    """integer codes; -1 for a value that is no code (uninitialised memory read as nan/inf/huge)"""
    out = []
    for x in np.asarray(a, dtype=float).ravel():
        out.append(int(x) if np.isfinite(x) and abs(x) < 1e15 and float(x).is_integer() else -1)
    return out


def _opt(x):
    return None if x is None else int(x)


def _slices(sl):
    out = []
    for s in sl:
        if s.step not in (None, 1):
            raise ValueError(f"slice with step {s}")
        out.append([int(s.start), int(s.stop)])
    return out


class _Rank:
    """temporarily pretend to be MPI node `r` (the serial code reads `mpi.rank` dynamically)"""

    def __init__(self, r):
        self.r = r

    def __enter__(self):
        from pde.tools import mpi
        self.old = mpi.rank
        mpi.rank = self.r

    def __exit__(self, *a):
        from pde.tools import mpi
        mpi.rank = self.old


def field_codes(shape, ncomp):
    """integer-coded data: component c, cell with row-major number k -> c*100000 + k"""
    n = int(np.prod(shape))
    base = np.arange(n, dtype=np.int64).reshape(shape)
    return np.stack([base + 100000 * c for c in range(ncomp)]) if ncomp else base


def mesh_worker(spec):
    """build the mesh with the real code; return every observation the property talks about
    plus the verdicts of the property monitor.  An exception of the real code while splitting or
    combining is a failure of the property (recorded), not of the check."""
    import traceback

    obs = {"error": None, "monitor": [], "raised": None}
    try:
        _mesh_worker(spec, obs)
    except Exception as e:  # noqa: BLE001
        obs["raised"] = f"{type(e).__name__}: {e} :: {traceback.format_exc()[-700:]}"
        obs["monitor"].append(f"the real code raised {type(e).__name__}: {str(e)[:200]}")
    return obs


def _mesh_worker(spec, obs):
    import pde
    from pde.grids._mesh import GridMesh

    fail = obs["monitor"].append
    grid = make_grid(spec)
    try:
        mesh = GridMesh.from_grid(grid, spec["dec"])
    except Exception as e:  # noqa: BLE001
        obs["error"] = classify(e)
        return obs
    na = grid.num_axes
    n = len(mesh)
    obs["dec"] = [int(x) for x in mesh.shape]
    obs["len"] = n
    obs["num_axes"] = int(mesh.num_axes)
    # chunk sizes along every axis, read like `_get_data_indices_1d` does
    axes = []
    for ax in range(na):
        ids = [0] * na
        ids[ax] = slice(None)
        axes.append([int(g.shape[ax]) for g in mesh.subgrids[tuple(ids)]])
    obs["axes"] = axes
    obs["idx"] = [[int(x) for x in mesh._id2idx(i)] for i in range(n)]
    obs["id_back"] = [int(mesh._idx2id(mesh._id2idx(i))) for i in range(n)]
    obs["slices"] = [_slices(s) for s in mesh._get_data_indices_1d(False)]
    obs["slices_ghost"] = [_slices(s) for s in mesh._get_data_indices_1d(True)]
    di, dg = mesh._get_data_indices(False), mesh._get_data_indices(True)
    obs["box"] = [_slices(di[mesh._id2idx(i)]) for i in range(n)]
    obs["box_ghost"] = [_slices(dg[mesh._id2idx(i)]) for i in range(n)]
    obs["neighbors"] = [[[_opt(mesh.get_neighbor(ax, False, node_id=i)), _opt(mesh.get_neighbor(ax, True, node_id=i))]
                         for ax in range(na)] for i in range(n)]
    flags = []
    for i in range(n):
        with _Rank(i):
            row = []
            for ax in range(na):
                pair = []
                for up in (False, True):
                    nb = mesh.get_neighbor(ax, up)
                    pair.append(None if nb is None else int(mesh.get_boundary_flag(nb, up)))
                row.append(pair)
            flags.append(row)
    obs["flags"] = flags
    subs = [mesh[i] for i in range(n)]
    obs["base_bounds"] = [[float(b[0]), float(b[1])] for b in grid.axes_bounds]
    obs["sub_shape"] = [[int(x) for x in g.shape] for g in subs]
    obs["sub_bounds"] = [[[float(b[0]), float(b[1])] for b in g.axes_bounds] for g in subs]
    obs["sub_periodic"] = [[bool(p) for p in g.periodic] for g in subs]
    obs["sub_coords"] = [[[float(x) for x in c] for c in g.axes_coords] for g in subs]
    obs["sub_volume"] = [float(g.volume) for g in subs]
    obs["sub_cell_volume_data"] = [[[float(x) for x in np.broadcast_to(np.asarray(v, dtype=float), (n_,))]
                                    for v, n_ in zip(g.cell_volume_data, g.shape)] for g in subs]
    obs["sub_class_ok"] = all(isinstance(g, type(grid)) or isinstance(grid, type(g)) for g in subs)
    obs["sub_mesh_ok"] = all(g._mesh is mesh for g in subs)
    obs["base_mesh_none"] = grid._mesh is None

    # ---- data -----------------------------------------------------------------------------
    shape, shape_full = tuple(grid.shape), tuple(grid._shape_full)
    for ghost, shp, tag in ((False, shape, ""), (True, shape_full, "_ghost")):
        codes = field_codes(shp, 0)
        ex = [mesh.extract_field_data(codes, i, with_ghost_cells=ghost) for i in range(n)]
        obs["extract" + tag] = [{"shape": [int(x) for x in e.shape], "data": _ints(e)} for e in ex]
        # combine(extract(x)) == x
        comb = mesh.combine_field_data(ex, with_ghost_cells=ghost)
        if comb.shape != codes.shape or not np.array_equal(comb, codes):
            fail(f"combine(extract(x)) != x (ghost={ghost})")
        # marked sub-arrays: who writes where, in which order, what stays untouched
        marked = [1000 * (i + 1) + np.arange(e.size, dtype=np.int64).reshape(e.shape) for i, e in enumerate(ex)]
        out = np.full(shp, -1, dtype=np.int64)
        res = mesh.combine_field_data(marked, out=out, with_ghost_cells=ghost)
        obs["combine_marked" + tag] = [None if v == -1 else int(v) for v in res.ravel()]
        if res is not out:
            fail("combine_field_data does not return `out`")
        if not ghost:
            # extract(combine(subs)) == subs for arbitrary sub-arrays
            for i in range(n):
                back = mesh.extract_field_data(res, i)
                if back.shape != marked[i].shape or not np.array_equal(back, marked[i]):
                    fail(f"extract(combine(subs))[{i}] != subs[{i}]")
                    break
        else:
            # with ghost cells the chunks overlap: the identity holds for consistent sub-arrays
            for i in range(n):
                back = mesh.extract_field_data(comb, i, with_ghost_cells=True)
                if not np.array_equal(back, ex[i]):
                    fail(f"extract(combine(subs))[{i}] != subs[{i}] with ghost cells")
                    break

    # ---- split_field_data_mpi / combine_field_data_mpi with emulated transport -----------------
    if n <= 12:
        for ghost, shp in ((False, shape), (True, shape_full)):
            for p in mpi_split_combine(mesh, field_codes(shp, 0), ghost):
                fail(p)

    # ---- fields and collections -------------------------------------------------------------
    if spec.get("fields"):
        fobs = {}
        for name in spec["fields"]:
            if name == "scalar":
                f = pde.ScalarField(grid, label="s")
            elif name == "vector":
                f = pde.VectorField(grid, label="v")
            elif name == "tensor":
                f = pde.Tensor2Field(grid, label="t")
            else:
                f = pde.FieldCollection([pde.ScalarField(grid, label="a"), pde.VectorField(grid, label="b")],
                                        label="c")
            ncomp = int(np.prod(f._data_full.shape[:-na])) if f._data_full.ndim > na else 0
            codes_full = field_codes(shape_full, ncomp).reshape(f._data_full.shape).astype(float)
            f._data_full[...] = codes_full  # in place: keeps the members of a collection linked
            rec = {"ncomp": ncomp, "sub": [], "sub_ghost": []}
            parts = []
            for i in range(n):
                s0 = mesh.extract_subfield(f, i, with_ghost_cells=False)
                s1 = mesh.extract_subfield(f, i, with_ghost_cells=True)
                for s in (s0, s1):
                    if s.grid is not mesh[i]:
                        fail(f"{name}: sub-field {i} lives on the wrong grid")
                    if type(s) is not type(f) or s.label != f.label or s.dtype != f.dtype:
                        fail(f"{name}: sub-field {i} lost class/label/dtype")
                    if name == "collection" and list(s.labels) != list(f.labels):
                        fail(f"{name}: sub-collection {i} lost its labels")
                rec["sub"].append({"shape": [int(x) for x in s0.data.shape], "data": _ints(s0.data)})
                rec["sub_ghost"].append({"shape": [int(x) for x in s1._data_full.shape], "data": _ints(s1._data_full)})
                if not np.array_equal(s1.data, s0.data):
                    fail(f"{name}: valid data of sub-field {i} differs between the two extraction modes")
                if name == "collection":
                    # model-free: splitting a collection is splitting its members - incl. the ghost cells (which hold the
                    # data of the neighbouring sub-grids / the base ghost cells)
                    for k_, member in enumerate(f):
                        m1 = mesh.extract_subfield(member, i, with_ghost_cells=True)
                        if not np.array_equal(np.asarray(s1[k_]._data_full), np.asarray(m1._data_full)):
                            fail(f"collection: padded data of member {k_} of sub-collection {i} differs from the sub-field "
                                 "of the member itself (ghost cells)")
                            break
                if name == "collection":
                    rec["member_ncomp"] = [int(np.prod(mm._data_full.shape[:-na])) if mm._data_full.ndim > na else 1
                                           for mm in f]
                    rec.setdefault("members", []).append({
                        "ghost": [{"shape": [int(x) for x in mm._data_full.shape], "data": _ints_safe(mm._data_full)}
                                  for mm in s1],
                        "valid": [{"shape": [int(x) for x in mm._data_full.shape], "data": _ints_safe(mm.data)}
                                  for mm in s0]})
                parts.append(s0.data)
            back = mesh.combine_field_data(parts)
            if back.shape != f.data.shape or not np.array_equal(back, f.data):
                fail(f"{name}: combining the sub-fields does not give the field back")
            fobs[name] = rec
        obs["fields"] = fobs

    # ---- the property monitor: tiling ---------------------------------------------------------
    scale = max(1.0, max(abs(float(v)) for b in grid.axes_bounds for v in b))
    tol = 1e-12 * scale
    for ax in range(na):
        if sum(axes[ax]) != grid.shape[ax]:
            fail(f"axis {ax}: chunk sizes {axes[ax]} do not add up to {grid.shape[ax]}")
        if min(axes[ax]) < 1:
            fail(f"axis {ax}: empty chunk in {axes[ax]}")
        if max(axes[ax]) - min(axes[ax]) > 1:
            fail(f"axis {ax}: chunk sizes {axes[ax]} differ by more than one")
    for i, g in enumerate(subs):
        idx = obs["idx"][i]
        for ax in range(na):
            k = idx[ax]
            lo, hi = (float(v) for v in g.axes_bounds[ax])
            if list(g.shape)[ax] != axes[ax][k]:
                fail(f"node {i}: shape {g.shape} does not match the chunk sizes {axes}")
                break
            start = sum(axes[ax][:k])
            exp_lo = float(grid.axes_bounds[ax][0]) if k == 0 else None
            exp_hi = float(grid.axes_bounds[ax][1]) if k == len(axes[ax]) - 1 else None
            if exp_lo is not None and not abs(lo - exp_lo) <= tol:
                fail(f"node {i} axis {ax}: lower bound {lo!r} is not the base bound {exp_lo!r}")
            if exp_hi is not None and not abs(hi - exp_hi) <= tol:
                fail(f"node {i} axis {ax}: upper bound {hi!r} is not the base bound {exp_hi!r}")
            # cell coordinates and spacing agree with the base grid
            cb = np.asarray(grid.axes_coords[ax][start:start + axes[ax][k]], dtype=float)
            cs = np.asarray(g.axes_coords[ax], dtype=float)
            if cb.shape != cs.shape or not np.all(np.abs(cb - cs) <= tol):
                fail(f"node {i} axis {ax}: cell coordinates {cs.tolist()} != base {cb.tolist()}")
            if not abs(float(g.discretization[ax]) - float(grid.discretization[ax])) <= tol:
                fail(f"node {i} axis {ax}: spacing {g.discretization[ax]!r} != base {grid.discretization[ax]!r}")
            # the upper neighbour starts where this sub-grid ends
            nb = obs["neighbors"][i][ax][1]
            if nb is not None and k + 1 < len(axes[ax]):
                if not abs(float(subs[nb].axes_bounds[ax][0]) - hi) <= tol:
                    fail(f"node {i} axis {ax}: upper neighbour {nb} starts at {subs[nb].axes_bounds[ax][0]!r}, not at {hi!r}")
        # cell volumes agree with the corresponding block of the base grid
        sl = tuple(slice(a, b) for a, b in obs["box"][i])
        try:
            vb = np.broadcast_to(grid.cell_volumes, grid.shape)[sl]
            vs = np.broadcast_to(g.cell_volumes, g.shape)
            if vb.shape != vs.shape or not np.all(np.abs(vb - vs) <= 1e-11 * np.abs(vb)):
                fail(f"node {i}: cell volumes differ from the base grid's block")
        except Exception as e:  # noqa: BLE001
            fail(f"node {i}: cell volumes not comparable ({e})")
    vol = sum(obs["sub_volume"])
    if not abs(vol - float(grid.volume)) <= 1e-11 * abs(float(grid.volume)):
        fail(f"sub-grid volumes add up to {vol!r}, base volume {float(grid.volume)!r}")
    # every cell of the base grid is in exactly one box
    cover = np.zeros(shape, dtype=int)
    for bx in obs["box"]:
        cover[tuple(slice(a, b) for a, b in bx)] += 1
    if not np.all(cover == 1):
        fail("index boxes are not a disjoint cover of the base grid")

    # ---- the property monitor: neighbours -------------------------------------------------------
    for i in range(n):
        for ax in range(na):
            lo_nb, up_nb = obs["neighbors"][i][ax]
            k, size = obs["idx"][i][ax], obs["dec"][ax]
            per = bool(grid.periodic[ax])
            if up_nb is not None and obs["neighbors"][up_nb][ax][0] != i:
                fail(f"node {i} axis {ax}: upper neighbour {up_nb} has lower neighbour {obs['neighbors'][up_nb][ax][0]}")
            if lo_nb is not None and obs["neighbors"][lo_nb][ax][1] != i:
                fail(f"node {i} axis {ax}: lower neighbour {lo_nb} has upper neighbour {obs['neighbors'][lo_nb][ax][1]}")
            exp_up = size > 1 and (k < size - 1 or per)
            exp_lo = size > 1 and (k > 0 or per)
            if (up_nb is not None) != exp_up or (lo_nb is not None) != exp_lo:
                fail(f"node {i} axis {ax}: neighbours ({lo_nb},{up_nb}) do not respect periodicity={per} (k={k}, size={size})")
            for nb, kk in ((up_nb, (k + 1) % size), (lo_nb, (k - 1) % size)):
                if nb is not None:
                    e = list(obs["idx"][i])
                    e[ax] = kk
                    if obs["idx"][nb] != e:
                        fail(f"node {i} axis {ax}: neighbour {nb} has index {obs['idx'][nb]}, expected {e}")
            # the two ends of a message must agree on the tag
            if up_nb is not None and obs["flags"][i][ax][1] != obs["flags"][up_nb][ax][0]:
                fail(f"node {i} axis {ax}: MPI tag towards upper neighbour {up_nb} differs from its tag")
            exp_p = per if size == 1 else False
            if obs["sub_periodic"][i][ax] != exp_p:
                fail(f"node {i} axis {ax}: sub-grid periodic flag {obs['sub_periodic'][i][ax]} (base {per}, {size} chunks)")
    if not (obs["sub_class_ok"] and obs["sub_mesh_ok"] and obs["base_mesh_none"]):
        fail("sub-grids are not of the base class / not attached to the mesh / base grid got attached")
    if sorted(obs["id_back"]) != list(range(n)) or obs["id_back"] != list(range(n)):
        fail("_idx2id(_id2idx(i)) != i")
    return obs


def mpi_split_combine(mesh, codes, ghost):
    """`split_field_data_mpi` on every (pretended) rank and `combine_field_data_mpi` back on the
    main rank, with send/recv replaced by a mailbox; returns the list of problems"""
    from pde.tools import mpi

    probs = []
    n = len(mesh)
    box = _Mailbox()
    old = (mpi.mpi_send, mpi.mpi_recv, mpi.rank, mpi.size, mpi.is_main)
    mpi.mpi_send, mpi.mpi_recv, mpi.size = box.send, box.recv, n
    try:
        parts = []
        for r in range(n):  # the main rank first: it sends the pieces
            mpi.rank, mpi.is_main = r, r == 0
            buf = codes if r == 0 else np.full_like(codes, -7)
            parts.append(mesh.split_field_data_mpi(buf, with_ghost_cells=ghost))
        for r in range(n):
            exp = mesh.extract_field_data(codes, r, with_ghost_cells=ghost)
            if parts[r].shape != exp.shape or not np.array_equal(parts[r], exp):
                probs.append(f"split_field_data_mpi on rank {r} differs from extract_field_data (ghost={ghost})")
                break
        res = None
        for r in list(range(1, n)) + [0]:  # the main rank last: it collects
            mpi.rank, mpi.is_main = r, r == 0
            out = mesh.combine_field_data_mpi(parts[r], with_ghost_cells=ghost)
            if r == 0:
                res = out
            elif out is not None:
                probs.append(f"combine_field_data_mpi returned data on rank {r}")
        if res is None or res.shape != codes.shape or not np.array_equal(res, codes):
            probs.append(f"combine_field_data_mpi(split_field_data_mpi(x)) != x (ghost={ghost})")
        probs += ["mpi emulation: " + p for p in box.problems]
        if box.box:
            probs.append(f"mpi emulation: undelivered messages {sorted(box.box)[:4]}")
    finally:
        mpi.mpi_send, mpi.mpi_recv, mpi.rank, mpi.size, mpi.is_main = old
    return probs


def subdivide_worker(args):
    """`_subdivide` on a range of pairs: the contract on all of them (monitor), the sizes of a
    selected subset for the model"""
    from pde.grids._mesh import _subdivide

    pairs, want = args
    bad, formula_diff, robust_diff, sizes_out, n = [], 0, 0, {}, 0
    want = set(map(tuple, want))
    for num, chunks in pairs:
        n += 1
        try:
            s = [int(x) for x in _subdivide(num, chunks)]
        except RuntimeError as e:
            s = classify(e)
        if chunks > num:
            if s != "too-many-chunks":
                bad.append([num, chunks, s if isinstance(s, str) else s[:20], "must raise"])
        elif isinstance(s, str):
            bad.append([num, chunks, s, "raised for an admissible pair"])
        else:
            if len(s) != chunks or min(s) < 1 or sum(s) != num or max(s) - min(s) > 1:
                bad.append([num, chunks, s[:40], "contract (positive, sum, max-min<=1)"])
            ref = [(i + 1) * num // chunks - i * num // chunks for i in range(chunks)]
            if ref != s:
                formula_diff += 1
            # informative: the hypothesis of theorem `subdivide_robust` (every real cut is floor(i*num/chunks), or
            # one less where i*num/chunks is an integer and num/chunks is not)
            cuts = [0]
            for x in s:
                cuts.append(cuts[-1] + x)
            if not all(cuts[i] == i * num // chunks or (cuts[i] + 1 == i * num // chunks and (i * num) % chunks == 0
                                                         and num % chunks != 0 and 0 < i < chunks)
                       for i in range(chunks + 1)):
                robust_diff += 1
        if (num, chunks) in want:
            sizes_out[(num, chunks)] = s
    return {"n": n, "bad": bad, "formula_diff": formula_diff, "robust_diff": robust_diff, "sizes": sizes_out}


def malformed_worker(spec):
    """inadmissible requests must raise; report the error class"""
    from pde.grids._mesh import GridMesh

    from pde.tools import mpi

    grid = make_grid(spec)
    if spec.get("nested"):
        mesh = GridMesh.from_grid(grid, spec["nested"])
        grid = mesh[0]
    old = mpi.size
    mpi.size = int(spec.get("mpi_size", 1))  # `from_grid` reads `mpi.size` dynamically
    try:
        mesh = GridMesh.from_grid(grid, spec["dec"])
    except Exception as e:  # noqa: BLE001
        return {"outcome": classify(e)}
    finally:
        mpi.size = old
    return {"outcome": "ok", "dec": [int(x) for x in mesh.shape],
            "sub_bounds": [[[float(v) for v in b] for b in g.axes_bounds] for g in mesh.subgrids.flat]}


# ---- operator equivalence -------------------------------------------------------------------
import threading
import types

_TLS = threading.local()
KEY_ANTI = {"call_site": "GridMesh.extract_boundary_conditions",
            "symptom": "flip_sign dropped at the seam of a split anti-periodic axis"}
KEY_CURV = {"call_site": "CurvatureBC.get_virtual_point_data",
            "symptom": "RuntimeError on a one-cell chunk at an outer face (needs 2 support points)"}
KEY_INHOM = {"call_site": "ConstBCBase.to_subgrid",
             "symptom": "NotImplementedError for a value that varies along the boundary"}
KEY_GENERIC = {"call_site": "GridMesh/_MPIBC"}
AXIS_NAMES = {"cartesian": ["x", "y", "z"], "spherical": ["r"], "polar": ["r"], "cylindrical": ["r", "z"]}


class _RankModule(types.ModuleType):
    """`pde.tools.mpi` with a thread-local `rank`: every emulated node runs in its own thread and
    the package reads `mpi.rank` dynamically (`GridMesh.current_node`)"""

    @property
    def rank(self):
        return getattr(_TLS, "rank", 0)

    @rank.setter
    def rank(self, v):
        _TLS.rank = int(v)


class _Deadlock(RuntimeError):
    pass


class _Mailbox:
    """in-memory replacement of MPI point-to-point transport, keyed by (source, destination, tag).
    Non-blocking mode (sequential emulation): a missing message is a recorded problem.  Blocking
    mode (one thread per node): `recv` waits for the message like MPI does; if every live node is
    waiting the exchange is dead-locked and all of them are released with an error."""

    def __init__(self):
        self.box = {}
        self.problems = []
        self.cond = threading.Condition()
        self.blocking = False
        self.alive = 0
        self.wanted = {}
        self.dead = False
        self.n_sent = 0

    def send(self, data, dest, tag):
        from pde.tools import mpi
        key = (int(mpi.rank), int(dest), int(tag))
        with self.cond:
            if key in self.box:
                self.problems.append(f"two messages with the same (source, dest, tag) {key}")
            self.box[key] = np.array(data, copy=True)
            self.n_sent += 1
            self.cond.notify_all()

    def recv(self, data, source, tag):
        from pde.tools import mpi
        key = (int(source), int(mpi.rank), int(tag))
        with self.cond:
            me = threading.get_ident()
            while key not in self.box:
                if not self.blocking:
                    self.problems.append(f"no message (source, dest, tag) = {key}")
                    return
                self.wanted[me] = key
                try:
                    # dead-lock: every live node waits for a message that is not there
                    if self.dead or (len(self.wanted) >= self.alive
                                     and all(k not in self.box for k in self.wanted.values())):
                        if not self.dead:
                            self.problems.append(f"dead-lock: no message (source, dest, tag) = {key}")
                        self.dead = True
                        self.cond.notify_all()
                        raise _Deadlock(f"no message (source, dest, tag) = {key}")
                    self.cond.wait(timeout=120)
                finally:
                    self.wanted.pop(me, None)
            msg = self.box.pop(key)
        if msg.shape != np.shape(data):
            self.problems.append(f"message {key} has shape {msg.shape}, buffer {np.shape(data)}")
            return
        data[...] = msg

    def run_nodes(self, n, fn):
        """run `fn(node)` for every node concurrently, each in its own thread with its own
        `mpi.rank`; returns the exception of every node (None = finished)"""
        errs = [None] * n
        with self.cond:
            self.blocking, self.alive, self.wanted, self.dead = True, n, {}, False

        def work(node):
            _TLS.rank = node
            try:
                fn(node)
            except BaseException as e:  # noqa: BLE001
                errs[node] = e
            finally:
                with self.cond:
                    self.alive -= 1
                    self.cond.notify_all()

        ths = [threading.Thread(target=work, args=(i,), daemon=True) for i in range(n)]
        for t in ths:
            t.start()
        for t in ths:
            t.join(300)
        if any(t.is_alive() for t in ths):
            self.problems.append("a node did not finish the exchange within 300 s")
        with self.cond:
            self.blocking = False
        real = [e for e in errs if e is not None and not isinstance(e, _Deadlock)]
        if real:
            raise real[0]
        return errs


def shape_data(cls, rank, data):
    """spherically symmetric vector/tensor fields: the package's operators insist on vanishing
    angular components / an isotropic angular block"""
    if cls == "SphericalSymGrid" and rank == 1:
        data[1:] = 0
    if cls == "SphericalSymGrid" and rank == 2:
        keep = data.copy()
        data[...] = 0
        data[0, 0] = keep[0, 0]
        data[1, 1] = data[2, 2] = keep[1, 1]
    return data


def classify_op_error(e):
    msg = str(e)
    if isinstance(e, RuntimeError) and "at least 2 support points" in msg:
        return "curvature-one-cell"
    if isinstance(e, NotImplementedError) and "Cannot transfer complicated BC to subgrid" in msg:
        return "inhomogeneous-refused"
    if "not defined with the same rank" in msg:
        return "periodic-rank"
    if "unexpected keyword argument 'const'" in msg:
        return "expression-const"
    return "other"


def is_anti(v):
    return v == "anti-periodic" or (isinstance(v, dict) and v.get("type") == "anti-periodic")


def anti_axes(spec):
    """axes that carry an anti-periodic condition"""
    names = AXIS_NAMES[KINDS[spec["cls"]]]
    return [ax for ax, nm in enumerate(names[:len(spec["shape"])]) if is_anti(spec["bc"].get(nm))]


def _ghost_count(shape_full, na):
    """per position of a padded array: on how many axes it sits in a ghost layer"""
    cnt = np.zeros(shape_full, dtype=int)
    for j, sz in enumerate(shape_full):
        e = np.zeros(sz, dtype=int)
        e[0] = e[-1] = 1
        cnt = cnt + e.reshape([-1 if k == j else 1 for k in range(na)])
    return cnt


def _interior_mask(shape_full):
    m = np.zeros(shape_full, dtype=bool)
    m[(slice(1, -1),) * len(shape_full)] = True
    return m


def _same(a, b, tol):
    """NaN-safe closeness: equal within tol, or both NaN (a cell nobody writes)"""
    with np.errstate(invalid="ignore"):
        return (np.abs(a - b) <= tol) | (np.isnan(a) & np.isnan(b))


def _mpi_backend():
    """the numba_mpi backend of the package.  `numba_mpi` itself is not installed: the package
    `pde.backends.numba_mpi` only imports it as an availability test, so an empty stand-in module
    lets the real backend class be imported; its setters/senders call `pde.tools.mpi.mpi_send/recv`,
    which are the mailbox.  Only used with NUMBA_DISABLE_JIT=1 (the source of the setters runs as
    plain Python)."""
    import sys
    if "numba_mpi" not in sys.modules:
        try:
            import numba_mpi  # noqa: F401
        except ImportError:
            sys.modules["numba_mpi"] = types.ModuleType("numba_mpi")
    import pde.backends.numba_mpi  # noqa: F401
    from pde.backends import get_backend
    return get_backend("numba_mpi")


def op_worker(spec):
    """apply `operator` on every sub-grid, with ghost cells taken from the neighbours (real
    `BoundariesList.set_ghost_cells` -> `BoundaryAxisBase.set_ghost_cells` -> `_MPIBC`, every node in
    its own thread, transport = mailbox) or from the global boundary condition at outer faces, combine,
    and compare with the operator on the whole grid.  With NUMBA_DISABLE_JIT=1 additionally: the
    ghost-cell setters of the numba_mpi backend (run as Python source) and the public route
    `subgrid.make_operator(op, bc, backend=numba_mpi)`."""
    import os
    import traceback

    from pde.backends import get_backend
    from pde.grids._mesh import GridMesh
    from pde.grids.boundaries.local import _MPIBC
    from pde.tools import mpi

    source_mode = os.environ.get("NUMBA_DISABLE_JIT", "0") not in ("", "0")
    out = {"monitor": [], "error": None, "error_class": None, "stage": "base", "source_mode": source_mode,
           "ill_posed": False}

    def fail(msg, sym="generic"):
        out["monitor"].append({"msg": msg, "sym": sym})

    box = _Mailbox()
    old = (mpi.mpi_send, mpi.mpi_recv)
    old_cls = mpi.__class__
    mpi.__class__ = _RankModule
    mpi.mpi_send, mpi.mpi_recv = box.send, box.recv
    try:
        grid = make_grid(spec)
        na = grid.num_axes
        backend = get_backend(spec.get("backend", "numba"))
        info = backend.get_operator_info(grid, spec["op"])
        rng = np.random.default_rng(spec["data_seed"])
        lead_in, lead_out = (grid.dim,) * info.rank_in, (grid.dim,) * info.rank_out
        data = rng.uniform(-1, 1, size=lead_in + tuple(grid.shape))
        data = shape_data(spec["cls"], info.rank_in, data)
        bc = strip_bc(spec["bc"])
        # the whole grid.  Ghost cells nobody sets stay NaN (in the base array and in the sub-arrays
        # alike): conditions on normal components only leave the other components' ghost cells alone
        bcs_base = grid.get_boundary_conditions(bc, rank=info.rank_in)
        full = np.full(lead_in + tuple(grid._shape_full), np.nan)
        full[(...,) + grid._idx_valid] = data
        bcs_base.set_ghost_cells(full)
        ref = np.empty(lead_out + tuple(grid.shape))
        grid.make_operator_no_bc(spec["op"], backend=backend)(full, ref)
        scale = max(1e-300, float(np.nanmax(np.abs(ref))) if np.isfinite(ref).any() else 0.0,
                    float(np.abs(data).max()) / float(np.min(grid.discretization)) ** 2)
        out["scale"] = scale
        if not np.isfinite(ref).all():
            # the operator reads ghost cells the condition does not define: the reference itself is
            # undefined (depends on uninitialised memory in the package) - nothing to compare
            out["ill_posed"] = True
            out["stage"] = "done"
            return out
        # the same through the public route (operator with BCs)
        ref2 = grid.make_operator(spec["op"], bc=bc, backend=backend)(data)
        if ref2.shape != ref.shape or not float(np.abs(ref - ref2).max()) <= 1e-10 * scale:
            fail("operator with BCs differs from set_ghost_cells + operator without BCs on the base grid", "base-route")

        out["stage"] = "mesh"
        mesh = GridMesh.from_grid(grid, spec["dec"])
        n = len(mesh)
        out["len"] = n
        out["dec"] = [int(x) for x in mesh.shape]
        out["axes"] = []
        for ax in range(na):
            ids = [0] * na
            ids[ax] = slice(None)
            out["axes"].append([int(g.shape[ax]) for g in mesh.subgrids[tuple(ids)]])
        out["stage"] = "sub-grid boundary conditions"
        fulls, bcs = [], []
        for node in range(n):
            mpi.rank = node
            sg = mesh[node]
            valid = mesh.extract_field_data(data, node)
            f = np.full(lead_in + tuple(sg._shape_full), np.nan)
            f[(...,) + sg._idx_valid] = valid
            fulls.append(f)
            bcs.append(sg.get_boundary_conditions(bc, rank=info.rank_in))
        mpi.rank = 0
        n_mpi = sum(isinstance(side, _MPIBC) for b in bcs for axb in b for side in (axb.low, axb.high))
        out["n_mpi_faces"] = n_mpi
        out["stage"] = "exchange"
        # every node sets all its ghost cells with the package's own axis-level routine
        box.run_nodes(n, lambda node: bcs[node].set_ghost_cells(fulls[node]))
        for p in box.problems:
            fail("exchange: " + p, "exchange")
        if box.box:
            fail(f"exchange: undelivered messages {sorted(box.box)}", "exchange")
        if box.n_sent != n_mpi:
            fail(f"exchange: {box.n_sent} messages sent for {n_mpi} faces with a neighbour", "exchange")
        # ghost cells of the sub-grids == the base padded array on the same positions (faces only:
        # corners/edges are not exchanged and not used by the operators)
        dg = mesh._get_data_indices(True)
        anti = [ax for ax in anti_axes(spec) if out["dec"][ax] >= 2]
        sub_full = []
        fscale = max(1.0, float(np.nanmax(np.abs(full))))
        ghost_syms = set()
        for node in range(n):
            sl = dg[mesh._id2idx(node)]
            exp = full[(...,) + tuple(sl)]
            got = fulls[node]
            cnt = _ghost_count(got.shape[-na:], na)
            mask = cnt <= 1
            if exp.shape != got.shape:
                fail(f"node {node}: padded sub-array has shape {got.shape}, block of the base padded array {exp.shape}", "ghost")
                ghost_syms.add("ghost")
            else:
                bad = ~_same(got, exp, 1e-11 * fscale) & mask
                if bad.any():
                    # is it exactly the sign across the seam of a split anti-periodic axis?
                    seam = np.zeros(got.shape[-na:], dtype=bool)
                    idx = mesh._id2idx(node)
                    for ax in anti:
                        ind = [slice(None)] * na
                        if idx[ax] == 0:
                            ind[ax] = 0
                            seam[tuple(ind)] = True
                        if idx[ax] == out["dec"][ax] - 1:
                            ind[ax] = -1
                            seam[tuple(ind)] = True
                    sign_only = not (bad & ~seam).any() and bool(np.all(_same(got, -exp, 1e-11 * fscale)[bad]))
                    sym = "ghost-antiperiodic-sign" if sign_only else "ghost"
                    ghost_syms.add(sym)
                    w = np.argwhere(bad)[0]
                    fail(f"node {node}: padded sub-array differs from the block of the base padded array at {w.tolist()}: "
                         f"{got[tuple(w)]!r} != {exp[tuple(w)]!r}", sym)
            # what the model sees: component 0, faces with a neighbour
            mpi_face = np.zeros(got.shape[-na:], dtype=bool)
            for ax in range(na):
                for up in (False, True):
                    if isinstance(bcs[node][ax][up], _MPIBC):
                        ind = [slice(1, -1)] * na
                        ind[ax] = -1 if up else 0
                        mpi_face[tuple(ind)] = True
            flip = [[(bool(getattr(bcs[node][ax][up], "flip_sign", False)) if isinstance(bcs[node][ax][up], _MPIBC) else None)
                     for up in (False, True)] for ax in range(na)]
            sub_full.append({"shape": [int(x) for x in got.shape[-na:]], "mask": [bool(x) for x in mask.ravel()],
                             "mpi_face": [bool(x) for x in mpi_face.ravel()], "flip": flip,
                             "data": [float(x) for x in got.reshape(-1, mask.size)[0]]})
        out["sub_full"] = sub_full
        out["base_full0"] = [float(x) for x in full.reshape(-1, int(np.prod(full.shape[-na:])))[0]]
        out["base_valid0"] = [float(x) for x in data.reshape(-1, int(np.prod(data.shape[-na:])))[0]]
        # the operator on every sub-grid
        out["stage"] = "operator"
        res = []
        for node in range(n):
            sg = mesh[node]
            o = np.full(lead_out + tuple(sg.shape), np.nan)
            sg.make_operator_no_bc(spec["op"], backend=backend)(fulls[node], o)
            res.append(o)
        comb = mesh.combine_field_data(res)
        dev = float(np.abs(comb - ref).max()) if comb.shape == ref.shape else math.inf
        out["dev"] = dev / scale
        if not dev <= 1e-10 * scale:
            only_sign = ghost_syms == {"ghost-antiperiodic-sign"}
            fail(f"operator on the sub-grids differs from the operator on the whole grid by {dev!r} (scale {scale!r})",
                 "operator-antiperiodic-sign" if only_sign else "operator")
        out["nonzero"] = bool(np.abs(ref).max() > 0)
        out["result0"] = [float(x) for x in comb.reshape(-1, int(np.prod(comb.shape[-na:])))[0]] \
            if comb.shape == ref.shape else None
        out["ref0"] = [float(x) for x in ref.reshape(-1, int(np.prod(ref.shape[-na:])))[0]]
        out["dx"] = [float(x) for x in grid.discretization]

        if source_mode:
            only_sign = ghost_syms <= {"ghost-antiperiodic-sign"}
            # ---- the ghost-cell setters of the numba_mpi backend (own copy of the index constants) ----
            out["stage"] = "numba_mpi setters"
            mback = _mpi_backend()
            fulls2 = []
            for node in range(n):
                f = np.full_like(fulls[node], np.nan)
                f[(...,) + mesh[node]._idx_valid] = mesh.extract_field_data(data, node)
                fulls2.append(f)
            box2 = _Mailbox()
            mpi.mpi_send, mpi.mpi_recv = box2.send, box2.recv
            setters = []
            for node in range(n):
                mpi.rank = node
                setters.append(mback.make_ghost_cell_setter(bcs[node]))
            mpi.rank = 0
            box2.run_nodes(n, lambda node: setters[node](fulls2[node]))
            for p in box2.problems:
                fail("numba_mpi setters: " + p, "compiled-setter")
            if box2.box or box2.n_sent != n_mpi:
                fail(f"numba_mpi setters: {box2.n_sent} messages for {n_mpi} faces, undelivered {sorted(box2.box)[:4]}",
                     "compiled-setter")
            for node in range(n):
                cnt = _ghost_count(fulls[node].shape[-na:], na)
                if not np.all(_same(fulls2[node], fulls[node], 1e-11 * fscale) | (cnt > 1)):
                    fail(f"node {node}: the ghost-cell setter of the numba_mpi backend and BoundariesList.set_ghost_cells "
                         "leave different padded arrays", "compiled-setter")
                    break
            # ---- the public route: subgrid.make_operator(op, bc) on every node ----------------------
            out["stage"] = "public route"
            box3 = _Mailbox()
            mpi.mpi_send, mpi.mpi_recv = box3.send, box3.recv
            res3 = [None] * n

            def public(node):
                sg = mesh[node]
                res3[node] = sg.make_operator(spec["op"], bc=bc, backend=mback)(mesh.extract_field_data(data, node).copy())

            box3.run_nodes(n, public)
            for p in box3.problems:
                fail("public route: " + p, "public-route")
            if all(r is not None for r in res3):
                comb3 = mesh.combine_field_data(res3)
                dev3 = float(np.abs(comb3 - ref).max()) if comb3.shape == ref.shape else math.inf
                out["dev_public"] = dev3 / scale
                if not dev3 <= 1e-10 * scale:
                    fail(f"subgrid.make_operator(op, bc) on the sub-grids differs from the operator on the whole grid by "
                         f"{dev3!r} (scale {scale!r})", "operator-antiperiodic-sign" if only_sign and anti else "public-route")
            else:
                fail("public route: a node returned no result", "public-route")
        out["stage"] = "done"
    except Exception as e:  # noqa: BLE001
        out["error"] = f"{type(e).__name__}: {e} :: {traceback.format_exc()[-500:]}"
        out["error_class"] = classify_op_error(e)
    finally:
        mpi.mpi_send, mpi.mpi_recv = old
        mpi.__class__ = old_cls
    return out


# ------------------------------------------------------------------------------------------
# generators
# ------------------------------------------------------------------------------------------
def compositions(shape):
    return itertools.product(*[range(1, n + 1) for n in shape])


def rand_bounds(rng, n_axes, lo0=None):
    out = []
    for k in range(n_axes):
        style = rng.choice(["dyadic", "decimal", "int"])
        if style == "dyadic":
            lo = rng.randint(-16, 16) / 4
            ln = rng.randint(1, 40) / 8
        elif style == "decimal":
            lo = rng.choice([0.0, 0.1, -0.3, 1.7, -2.2, 0.05])
            ln = rng.choice([0.1, 0.3, 1.0, 2.7, 3.3, 0.7, 10.0])
        else:
            lo = float(rng.randint(-3, 3))
            ln = float(rng.randint(1, 9))
        out.append([lo, lo + ln])
    return out


def cart_spec(rng, shape, dec, periodic):
    if rng.random() < 0.35:
        return {"cls": "UnitGrid", "shape": list(shape), "bounds": [[0, n] for n in shape],
                "periodic": list(periodic), "dec": list(dec)}
    return {"cls": "CartesianGrid", "shape": list(shape), "bounds": rand_bounds(rng, len(shape)),
            "periodic": list(periodic), "dec": list(dec)}


def radial_bounds(rng):
    r0 = rng.choice([0, 0, 0.5, 1, 1.25, 0.3])
    return [r0, r0 + rng.choice([1, 2, 2.5, 0.7, 3])]


def gen_mesh_specs(ctx):
    """the exhaustive family; quick keeps a seed-chosen subset of the 2-d and 3-d parts"""
    rng = ctx.rng
    specs = []
    thorough = ctx.tier == "thorough"
    # 1-d: every N <= 12, every chunk count, both periodic flags
    for n in range(1, 13):
        for c in range(1, n + 1):
            for per in (False, True):
                specs.append(cart_spec(rng, [n], [c], [per]))
    # 2-d up to 6x5
    two = [(s, d, p) for s in itertools.product(range(1, 7), range(1, 6)) for d in compositions(s)
           for p in itertools.product((False, True), repeat=2)]
    # 3-d up to 4x3x3
    three = [(s, d, p) for s in itertools.product(range(1, 5), range(1, 4), range(1, 4)) for d in compositions(s)
             for p in itertools.product((False, True), repeat=3)]
    if not thorough:
        two = rng.sample(two, 420)
        three = rng.sample(three, 320)
    for s, d, p in two + three:
        specs.append(cart_spec(rng, s, d, p))
    # spherical / polar: every N <= 12 (thorough) or <= 8 (quick), every chunk count
    nmax = 12 if thorough else 8
    for cls in ("SphericalSymGrid", "PolarSymGrid"):
        for n in range(1, nmax + 1):
            for c in range(1, n + 1):
                specs.append({"cls": cls, "shape": [n], "bounds": [radial_bounds(rng)], "periodic": [False], "dec": [c]})
    # cylindrical: z-splits of full cylinders
    cyl = [(nr, nz, c, pz) for nr in range(1, 5) for nz in range(1, 7) for c in range(1, nz + 1) for pz in (False, True)]
    if not thorough:
        cyl = rng.sample(cyl, 60)
    for nr, nz, c, pz in cyl:
        zb = rand_bounds(rng, 1)[0]
        specs.append({"cls": "CylindricalSymGrid", "shape": [nr, nz], "bounds": [[0, rng.choice([1, 2.5, 3])], zb],
                      "periodic": [False, pz], "dec": [1, c]})
    # larger seeded ones (uneven chunking where linspace and the integer formula may differ)
    for _ in range(ctx.budget(16, 240)):
        dim = rng.choice([1, 1, 2, 3])
        if dim == 1:
            shape = [rng.randint(13, 400)]
            dec = [rng.randint(2, min(shape[0], 40))]
        elif dim == 2:
            shape = [rng.randint(7, 40), rng.randint(6, 30)]
            dec = [rng.randint(1, min(7, shape[0])), rng.randint(1, min(6, shape[1]))]
        else:
            shape = [rng.randint(4, 12), rng.randint(4, 10), rng.randint(4, 8)]
            dec = [rng.randint(1, 4), rng.randint(1, 3), rng.randint(1, 3)]
        sp = cart_spec(rng, shape, dec, [rng.random() < 0.5 for _ in shape])
        sp["large"] = True
        specs.append(sp)
    # fields/collections on all 1-d, and a share of the others
    for sp in specs:
        dimn = len(sp["shape"])
        if sp.get("large"):
            sp["fields"] = []
        elif dimn == 1 or rng.random() < ((1.0 if dimn == 2 else 0.5) if thorough else 0.35):
            sp["fields"] = ["scalar", "vector", "tensor", "collection"] if rng.random() < 0.5 else \
                [rng.choice(["scalar", "vector"]), rng.choice(["tensor", "collection"])]
        else:
            sp["fields"] = []
    return specs


def gen_malformed(ctx):
    rng = ctx.rng
    specs = []
    for _ in range(ctx.budget(80, 1000)):
        kind = rng.choice(["too-many", "too-many", "bad-list", "radial", "hollow", "long", "minus-one"])
        dim = rng.choice([1, 2, 3])
        shape = [rng.randint(1, 6) for _ in range(dim)]
        per = [rng.random() < 0.5 for _ in range(dim)]
        if kind == "too-many":
            dec = [rng.randint(1, n) for n in shape]
            k = rng.randrange(dim)
            dec[k] = shape[k] + rng.randint(1, 3)
            sp = cart_spec(rng, shape, dec, per)
        elif kind == "bad-list":
            dec = [rng.choice([0, -2, -1, 1, 2, -1, -5]) for _ in range(dim)]
            sp = cart_spec(rng, shape, dec, per)
        elif kind == "minus-one":
            dec = [rng.choice([1, 1, 2]) for _ in range(dim)]
            dec[rng.randrange(dim)] = -1
            sp = cart_spec(rng, shape, dec, per)
        elif kind == "long":
            dec = [rng.randint(1, n) for n in shape] + [rng.choice([1, 1, 2])]
            sp = cart_spec(rng, shape, dec, per)
        elif kind == "radial":
            nr, nz = rng.randint(1, 5), rng.randint(1, 5)
            sp = {"cls": "CylindricalSymGrid", "shape": [nr, nz], "bounds": [[0, 2.0], [0, 3.0]],
                  "periodic": [False, rng.random() < 0.5], "dec": [rng.randint(1, nr + 1), rng.randint(1, nz + 1)]}
        else:  # hollow cylinder: only the trivial decomposition is possible
            nr, nz = rng.randint(1, 5), rng.randint(1, 5)
            sp = {"cls": "CylindricalSymGrid", "shape": [nr, nz], "bounds": [[rng.choice([0.5, 1]), 2.0], [0, 3.0]],
                  "periodic": [False, rng.random() < 0.5], "dec": [rng.randint(1, nr + 1), rng.randint(1, nz + 1)]}
        sp["malformed"] = kind
        # the branches of `from_grid` that depend on the number of MPI nodes (`-1` entries, node count check)
        sp["mpi_size"] = rng.choice([1, 1, 2, 3, 4, 6, 8, 12]) if kind in ("minus-one", "bad-list") or rng.random() < 0.25 else 1
        specs.append(sp)
    # admissible decompositions under `mpi.size > 1`: accepted iff the node count matches
    for _ in range(ctx.budget(30, 300)):
        dim = rng.choice([1, 2, 3])
        shape = [rng.randint(1, 6) for _ in range(dim)]
        dec = [rng.randint(1, n) for n in shape]
        if rng.random() < 0.4:
            dec[rng.randrange(dim)] = -1
        sp = cart_spec(rng, shape, dec, [rng.random() < 0.5 for _ in range(dim)])
        prod = math.prod(d for d in dec if d > 0)
        sp["mpi_size"] = rng.choice([prod, prod, prod * rng.randint(1, 3), rng.randint(1, 12)])
        sp["malformed"] = "node-count"
        specs.append(sp)
    return specs


RANK_IN = {"laplace": 0, "gradient": 0, "gradient_squared": 0, "divergence": 1, "vector_laplace": 1,
           "vector_gradient": 1, "tensor_divergence": 2}
GRID_DIM = {"UnitGrid": None, "CartesianGrid": None, "SphericalSymGrid": 3, "PolarSymGrid": 2, "CylindricalSymGrid": 3}


def periodic_bc(rng, anti=None):
    """the package's spellings of a (anti-)periodic condition for a periodic axis"""
    if anti is None:
        anti = rng.random() < 0.5
    if anti:
        return rng.choice(["anti-periodic", "anti-periodic", {"type": "anti-periodic"}])
    return rng.choice(["periodic", "periodic", {"type": "periodic"}, "auto_periodic_neumann"])


def bc_for(rng, spec, rank_in, grid_axes, op=None, anti=None):
    """boundary condition data in the package's vocabulary.  Periodic axes get 'periodic' or
    'anti-periodic' (all spellings); the other faces draw from value/derivative/mixed/curvature with
    uniform or per-component values, conditions on the normal component only (where the operator
    reads nothing else), and - for scalars - coordinate-dependent expressions"""
    bc = {}
    dim = GRID_DIM[spec["cls"]] or len(spec["shape"])
    percomp = spec["cls"] in ("UnitGrid", "CartesianGrid", "CylindricalSymGrid")
    for ax, name in enumerate(grid_axes):
        if spec["periodic"][ax]:
            bc[name] = periodic_bc(rng, anti)
            continue
        kinds = ["value", "derivative", "neumann", "dirichlet", "mixed"]
        if spec["shape"][ax] >= 2:  # CurvatureBC needs two support points on any grid
            kinds.append("curvature")
        others = [n for n in grid_axes if n != name]
        if rank_in == 0:
            kinds += ["expr-virtual", "expr-mixed", "expr-value", "expr-derivative"]

            def expr():
                # depends on the coordinates along the face, so it is sensitive to the sub-grid's geometry
                c = rng.choice(others) if others else None
                return rng.choice([f"sin({c}) + 0.5", f"{c}**2 - 1", f"0.25*{c} + 1"]) if c else rng.choice(["1.5", "-0.25"])

            def one():
                k = rng.choice(kinds)
                if k == "expr-virtual":
                    return {"virtual_point": f"{expr()} + 0.5*value"}
                if k == "expr-mixed":
                    return {"type": "mixed_expression", "value": expr(), "const": expr()}
                if k == "expr-value":
                    return {"value_expression": expr()}
                if k == "expr-derivative":
                    return {"derivative_expression": expr()}
                if k == "neumann":
                    return {"derivative": 0}
                if k == "dirichlet":
                    return {"value": 0}
                if k == "mixed":
                    return {"type": "mixed", "value": rng.choice([0.5, 2.0]), "const": rng.choice([0.0, 1.0])}
                return {k: rng.choice([0.0, 1.5, -0.75, 2.0])}
        else:
            def tensor(r):
                """a value per component (shape (dim,)*r), as nested lists"""
                vals = [rng.choice([0.0, 1.5, -0.75, 2.0, 0.5]) for _ in range(dim ** r)]
                return np.array(vals).reshape((dim,) * r).tolist()

            kinds_r = ["value", "derivative", "mixed", "value", "derivative"]
            if spec["shape"][ax] >= 2:
                kinds_r.append("curvature")
            if percomp:
                kinds_r += ["value-comp", "derivative-comp", "mixed-comp"] + (["curvature-comp"] if spec["shape"][ax] >= 2 else [])
            if op in ("divergence", "tensor_divergence"):
                # these operators read only the normal component(s) across a face
                kinds_r += ["normal_value", "normal_derivative", "normal_mixed"] + (
                    ["normal_curvature"] if spec["shape"][ax] >= 2 else [])

            def one():
                k = rng.choice(kinds_r)
                c = rng.choice([0.0, 1.5, -0.5, 2.0])
                if k == "mixed":
                    return {"type": "mixed", "value": rng.choice([0.5, 2.0]), "const": rng.choice([0.0, 1.0])}
                if k == "mixed-comp":
                    return {"type": "mixed", "value": rng.choice([0.5, 2.0]), "const": tensor(rank_in)}
                if k.endswith("-comp"):
                    return {k[:-5]: tensor(rank_in)}
                if k == "normal_mixed":
                    return {"type": "normal_mixed", "value": rng.choice([0.5, 2.0]), "const": rng.choice([0.0, 1.0])}
                if k.startswith("normal_"):
                    return {k: c if (rank_in == 1 or not percomp or rng.random() < 0.5) else tensor(rank_in - 1)}
                return {k: c}
        bc[name + "-"] = one()
        bc[name + "+"] = one()
    return bc


def bc_label(side):
    """histogram label of one entry of a boundary-condition dictionary"""
    if isinstance(side, str):
        return side
    t = side.get("type")
    if t:
        return t + ("[per-component]" if isinstance(side.get("const"), list) else "")
    k = next(iter(side))
    v = side[k]
    return k + ("[per-component]" if isinstance(v, list) and not side.get("_inhom") else "") + (
        "[varies along the face]" if side.get("_inhom") else "")


def strip_bc(bc):
    """the dictionary handed to the package (without the generator's private markers)"""
    return {k: ({a: b for a, b in v.items() if not a.startswith("_")} if isinstance(v, dict) else v) for k, v in bc.items()}


def op_for(rng, fam):
    if fam.startswith("cart"):
        return rng.choice(["laplace", "gradient", "divergence", "laplace", "vector_laplace", "tensor_divergence",
                           "vector_gradient", "gradient_squared"])
    if fam in ("sph", "polar"):
        return rng.choice(["laplace", "gradient", "divergence", "laplace", "gradient_squared", "vector_gradient",
                           "tensor_divergence"])
    return rng.choice(["laplace", "gradient", "divergence", "laplace", "vector_laplace", "gradient_squared",
                       "tensor_divergence", "vector_gradient"])


def gen_op_specs(ctx):
    rng = ctx.rng
    specs = []
    n = ctx.budget(230, 3000)
    for i in range(n):
        fam = rng.choice(["cart1", "cart2", "cart2", "cart3", "sph", "polar", "cyl", "cyl"])
        if fam.startswith("cart"):
            dim = int(fam[-1])
            shape = [rng.randint(1, [12, 7, 4][dim - 1]) for _ in range(dim)]
            if rng.random() < 0.8:
                shape = [max(2, s) for s in shape]
            per = [rng.random() < 0.4 for _ in range(dim)]
            dec = [rng.randint(1, s) for s in shape]
            sp = cart_spec(rng, shape, dec, per)
            names = ["x", "y", "z"][:dim]
        elif fam in ("sph", "polar"):
            nn = rng.randint(2, 12)
            sp = {"cls": "SphericalSymGrid" if fam == "sph" else "PolarSymGrid", "shape": [nn],
                  "bounds": [radial_bounds(rng)], "periodic": [False], "dec": [rng.randint(1, nn)]}
            names = ["r"]
        else:
            nr, nz = rng.randint(1, 5), rng.randint(2, 8)
            zb = rand_bounds(rng, 1)[0]
            sp = {"cls": "CylindricalSymGrid", "shape": [nr, nz], "bounds": [[0, rng.choice([1, 2.5, 3])], zb],
                  "periodic": [False, rng.random() < 0.4], "dec": [1, rng.randint(1, nz)]}
            names = ["r", "z"]
        op = op_for(rng, fam)
        sp["op"] = op
        sp["bc"] = bc_for(rng, sp, RANK_IN[op], names, op=op)
        sp["data_seed"] = rng.randrange(2 ** 31)
        sp["backend"] = "numba"
        specs.append(sp)
    # anti-periodic seams: a periodic axis that IS split carries an anti-periodic condition (every rank,
    # 2 chunks = the same neighbour on both sides, 3+ chunks = interior faces that must not flip)
    for _ in range(ctx.budget(36, 300)):
        fam = rng.choice(["cart1", "cart2", "cart2", "cart3", "cyl"])
        if fam == "cyl":
            nr, nz = rng.randint(1, 4), rng.randint(2, 8)
            sp = {"cls": "CylindricalSymGrid", "shape": [nr, nz], "bounds": [[0, rng.choice([1, 2.5])], rand_bounds(rng, 1)[0]],
                  "periodic": [False, True], "dec": [1, rng.randint(2, nz)]}
            names = ["r", "z"]
        else:
            dim = int(fam[-1])
            shape = [rng.randint(2, [12, 7, 4][dim - 1]) for _ in range(dim)]
            k = rng.randrange(dim)
            per = [j == k or rng.random() < 0.4 for j in range(dim)]
            dec = [rng.randint(2, shape[j]) if j == k else rng.randint(1, shape[j]) for j in range(dim)]
            sp = cart_spec(rng, shape, dec, per)
            names = ["x", "y", "z"][:dim]
        op = op_for(rng, fam)
        sp["op"] = op
        sp["bc"] = bc_for(rng, sp, RANK_IN[op], names, op=op, anti=True)
        sp["data_seed"] = rng.randrange(2 ** 31)
        sp["backend"] = "numba"
        sp["stream"] = "anti-periodic seam"
        specs.append(sp)
    # a value that varies along the face (the package refuses to move it to a sub-grid)
    for _ in range(ctx.budget(6, 40)):
        shape = [rng.randint(2, 6), rng.randint(2, 5)]
        k = rng.randrange(2)
        dec = [rng.randint(1, s) for s in shape]
        if math.prod(dec) == 1:
            dec[k] = 2
        sp = cart_spec(rng, shape, dec, [False, False])
        sp["op"] = rng.choice(["laplace", "gradient"])
        bc = bc_for(rng, sp, 0, ["x", "y"], op=sp["op"])
        nm = ["x", "y"][k] + rng.choice("-+")
        kind = rng.choice(["value", "derivative"])
        bc[nm] = {kind: [round(rng.uniform(-1, 1), 3) for _ in range(shape[1 - k])], "_inhom": True}
        sp["bc"] = bc
        sp["data_seed"] = rng.randrange(2 ** 31)
        sp["backend"] = "numba"
        sp["stream"] = "value varies along the face"
        specs.append(sp)
    # regression leg (finding fixed in /repo 63c0e4e, key call_site=_PeriodicBC.to_subgrid): a periodic axis
    # that is NOT split, another axis that is, and a field of rank >= 1
    for _ in range(ctx.budget(10, 60)):
        dim = rng.choice([2, 2, 3])
        shape = [rng.randint(2, [6, 5, 3][k]) for k in range(dim)]
        kper = rng.randrange(dim)
        per = [k == kper or rng.random() < 0.3 for k in range(dim)]
        dec = [1 if k == kper else rng.randint(1, shape[k]) for k in range(dim)]
        if math.prod(dec) == 1:
            dec[(kper + 1) % dim] = 2
        sp = cart_spec(rng, shape, dec, per)
        op = rng.choice(["divergence", "vector_laplace", "vector_gradient", "tensor_divergence"])
        sp["op"] = op
        sp["bc"] = bc_for(rng, sp, 2 if op == "tensor_divergence" else 1, ["x", "y", "z"][:dim], op=op)
        sp["data_seed"] = rng.randrange(2 ** 31)
        sp["backend"] = "numba"
        sp["stream"] = "unsplit periodic axis, rank >= 1"
        specs.append(sp)
    return specs


# ------------------------------------------------------------------------------------------
# comparison with the model
# ------------------------------------------------------------------------------------------
def curvature_refusal_expected(sp, ob):
    """a curvature condition at an outer face whose chunk has a single cell"""
    axes = ob.get("axes")
    if not axes:
        return False
    names = AXIS_NAMES[KINDS[sp["cls"]]]
    for ax, nm in enumerate(names[:len(axes)]):
        for side, k in (("-", 0), ("+", -1)):
            b = sp["bc"].get(nm + side)
            if isinstance(b, dict) and any("curvature" in str(key) for key in b) and axes[ax][k] == 1 \
                    and len(axes[ax]) >= 2:
                return True
    return False


def inhomogeneous_refusal_expected(sp, ob):
    """a value that varies along the face, on an axis/side where some sub-grid keeps that outer face
    while the mesh has more than one node"""
    return ob.get("len", 1) >= 2 and any(isinstance(b, dict) and b.get("_inhom") for b in sp["bc"].values())


def judge_op(sp, ob):
    """verdicts of the property monitor for one executed operator case:
    -> (outcome label, [(observed, expected, what, key), ...])"""
    fails = []
    if ob["error"] is not None:
        cls_ = ob["error_class"]
        obs = {"error": ob["error"][:400], "stage": ob["stage"]}
        if cls_ == "curvature-one-cell" and curvature_refusal_expected(sp, ob):
            # literal violation of the last clause: the base grid accepts the condition, the sub-grid with a
            # single cell at that outer face raises (CurvatureBC needs the cell of the neighbouring sub-grid)
            return "RuntimeError: curvature BC on a single-cell chunk at an outer face", [
                (obs, "the global boundary condition can be applied on every sub-grid with an outer face",
                 "curvature condition refused on a one-cell chunk at an outer face", KEY_CURV)]
        if cls_ == "inhomogeneous-refused" and inhomogeneous_refusal_expected(sp, ob):
            return "NotImplementedError: value varying along the face cannot be moved to a sub-grid", [
                (obs, "the global boundary condition can be applied on every sub-grid with an outer face",
                 "a boundary value that varies along the face is refused on the sub-grids", KEY_INHOM)]
        if cls_ == "periodic-rank":
            return "BCDataError: periodic BC of an unsplit axis lost its rank", [
                (obs, "boundary conditions of a vector/tensor field can be built on every sub-grid",
                 "periodic BC of an unsplit axis loses its rank on the sub-grid",
                 {"call_site": "_PeriodicBC.to_subgrid", "symptom": "rank dropped"})]
        if cls_ == "expression-const":
            return "TypeError: value/derivative expression BC cannot be moved to a sub-grid", [
                (obs, "the global boundary condition can be stated on every sub-grid with an outer face",
                 "value_expression/derivative_expression BC cannot be transferred to a sub-grid",
                 {"call_site": "ExpressionBC.to_subgrid", "symptom": "const kwarg"})]
        return f"error at stage {ob['stage']}", [
            ({"error": ob["error"], "stage": ob["stage"]}, "operator on sub-grids == operator on the grid",
             "operator equivalence could not be executed", KEY_GENERIC)]
    if ob.get("ill_posed"):
        return "reference undefined (operator reads ghost cells the condition does not set)", []
    seen = set()
    for m in ob["monitor"]:
        sym = m["sym"]
        if sym in seen:
            continue
        seen.add(sym)
        if sym in ("ghost-antiperiodic-sign", "operator-antiperiodic-sign"):
            what = ("ghost cells across the seam of a split anti-periodic axis arrive without the sign" if sym.startswith("ghost")
                    else "operator on the sub-grids is wrong next to the seam of a split anti-periodic axis")
            key = KEY_ANTI
        else:
            what = {"ghost": "ghost cells of a sub-grid != the padded base array", "operator": "operator equivalence",
                    "exchange": "ghost-cell exchange (messages)", "base-route": "operator with BCs on the base grid",
                    "compiled-setter": "ghost-cell setters of the numba_mpi backend",
                    "public-route": "subgrid.make_operator(op, bc)"}.get(sym, "operator equivalence")
            key = KEY_GENERIC
        fails.append(({"problem": m["msg"], "dev": ob.get("dev"), "dev_public": ob.get("dev_public")},
                      "operator on sub-grids == operator on the grid", what, key))
    return "executed", fails


OP_ENV = {"S": {"NUMBA_DISABLE_JIT": "1", "OMP_NUM_THREADS": "1", "NUMBA_NUM_THREADS": "1"},
          "J": {"NUMBA_DISABLE_JIT": "0", "OMP_NUM_THREADS": "1", "NUMBA_NUM_THREADS": "1"}}


def op_case(sp, mode):
    c = dict(case_key(sp), leg="operator", op=sp["op"], bc=sp["bc"], data_seed=sp["data_seed"], mode=mode)
    return c


def effective_dec(sp):
    """the decomposition `from_grid` is asked for according to its documentation (`-1` = number of MPI nodes //
    product of the other entries, missing axes = 1); None if the request itself is malformed"""
    dec = [int(d) for d in sp["dec"]]
    size = int(sp.get("mpi_size", 1))
    if any(d == 0 or d < -1 for d in dec) or dec.count(-1) > 1 or len(dec) > len(sp["shape"]):
        return None
    if -1 in dec:
        rest = math.prod(d for d in dec if d > 0)
        if size // rest == 0:
            return None
        dec = [size // rest if d == -1 else d for d in dec]
    return dec + [1] * (len(sp["shape"]) - len(dec))


def malformed_judge(sp, ob):
    """monitor of the admissibility clause: an inadmissible request must raise, an admissible one must be accepted
    with exactly the requested number of sub-grids per axis -> [(observed, expected, what)]"""
    dec = effective_dec(sp)
    size = int(sp.get("mpi_size", 1))
    inadmissible = (dec is None or any(d > n for d, n in zip(dec, sp["shape"]))
                    or (size > 1 and math.prod(dec) != size)
                    or (sp["cls"] == "CylindricalSymGrid" and (dec[0] > 1 or (sp["bounds"][0][0] != 0 and dec[1] > 1)))
                    or bool(sp.get("nested")))
    out = []
    if inadmissible and ob["outcome"] == "ok":
        out.append((ob, "must raise", "inadmissible decomposition accepted"))
    if not inadmissible and ob["outcome"] != "ok":
        out.append((ob, "must be accepted", "admissible decomposition refused"))
    if not inadmissible and ob["outcome"] == "ok" and ob["dec"] != dec:
        out.append((ob, {"dec": dec}, "mesh.shape differs from the requested decomposition"))
    if ob["outcome"] == "ok" and sp["cls"] == "CylindricalSymGrid":
        if any(not abs(b[0][0] - sp["bounds"][0][0]) <= 0 for b in ob["sub_bounds"]):
            out.append((ob, "inner radius kept", "cylinder sub-grid lost its inner radius"))
    return out


def vol_from_coef(kind, coef):
    return {"cartesian": 1.0, "spherical": 4 * math.pi / 3, "polar": math.pi, "cylindrical": math.pi}[kind] * coef


def case_key(spec):
    return {k: spec[k] for k in ("cls", "shape", "bounds", "periodic", "dec") if k in spec}


def run_lean(ctx, reqs, nbatch=8):
    """run the requests through several driver processes in parallel; answers in order"""
    from concurrent.futures import ThreadPoolExecutor
    from harness.common.lean import LeanBatch

    if not reqs:
        return []
    nbatch = max(1, min(nbatch, len(reqs) // 50 + 1))
    parts = [reqs[i::nbatch] for i in range(nbatch)]

    def one(part):
        b = LeanBatch(ctx.workdir)
        for f, a in part:
            b.add(f, a)
        return b.run()

    with ThreadPoolExecutor(nbatch) as ex:
        answers = list(ex.map(one, parts))
    out = [None] * len(reqs)
    for k, ans in enumerate(answers):
        out[k::nbatch] = ans
    return out


def compare_mesh(ctx, spec, obs, ans):
    """model answers (dict by request name) vs the real observations"""
    case = case_key(spec)
    bad = []

    def need(name):
        st, val = ans[name]
        if st != "ok":
            bad.append((name, f"model error: {val}", None))
            return None
        return val

    m = need("mesh")
    if m is not None:
        for key in ("dec", "len", "idx", "id_back", "slices", "slices_ghost", "box", "box_ghost", "sub_shape",
                    "neighbors", "flags"):
            if key not in obs:
                bad.append((key, m[key], "not observed: " + str(obs.get("raised"))[:200]))
            elif m[key] != obs[key]:
                bad.append((key, m[key], obs[key]))
        if not m["contract"]:
            bad.append(("contract", True, obs["axes"]))
        if m["shape"] != list(spec["shape"]):
            bad.append(("shape", m["shape"], spec["shape"]))
        if any(p != m["sub_periodic"] for p in obs.get("sub_periodic", [])):
            bad.append(("sub_periodic", m["sub_periodic"], obs["sub_periodic"]))
    b = need("bounds") if "sub_volume" in obs else None
    kind = KINDS[spec["cls"]]
    if b is not None:
        scale = max(1.0, max(abs(float(v)) for bb in spec["bounds"] for v in bb))
        for i, rec in enumerate(b):
            mb = [[float(unq(x)) for x in p] for p in rec["bounds"]]
            rb = obs["sub_bounds"][i]
            if len(mb) != len(rb) or any(not abs(x - y) <= 1e-12 * scale for p, r in zip(mb, rb) for x, y in zip(p, r)):
                bad.append((f"sub_bounds[{i}]", mb, rb))
                break
            mc = [[float(unq(x)) for x in c] for c in rec["coords"]]
            rc = obs["sub_coords"][i]
            if [len(c) for c in mc] != [len(c) for c in rc] or any(
                    not abs(x - y) <= 1e-12 * scale for c, r in zip(mc, rc) for x, y in zip(c, r)):
                bad.append((f"sub_coords[{i}]", mc, rc))
                break
            # per-axis cell volumes from the model's cell edges: F(edge p+1) - F(edge p)
            if "sub_cell_volume_data" in obs:
                for ax, (edges, real) in enumerate(zip(rec["edges"], obs["sub_cell_volume_data"][i])):
                    ex = [unq(x) for x in edges]
                    if kind == "spherical":
                        mvol = [4 * math.pi / 3 * float(b_ ** 3 - a_ ** 3) for a_, b_ in zip(ex, ex[1:])]
                    elif kind in ("polar", "cylindrical") and ax == 0:
                        mvol = [math.pi * float(b_ ** 2 - a_ ** 2) for a_, b_ in zip(ex, ex[1:])]
                    else:
                        mvol = [float(b_ - a_) for a_, b_ in zip(ex, ex[1:])]
                    if len(mvol) != len(real) or any(not abs(x - y) <= 1e-11 * max(abs(x), 1e-12 * scale) for x, y in zip(mvol, real)):
                        bad.append((f"cell_volume_data[{i}][axis {ax}]", mvol, real))
                        break
            mv = vol_from_coef(kind, float(unq(rec["vol"])))
            if not abs(mv - obs["sub_volume"][i]) <= 1e-11 * abs(mv):
                bad.append((f"sub_volume[{i}]", mv, obs["sub_volume"][i]))
                break
    for tag in ("", "_ghost"):
        if "extract" + tag not in obs or "combine_marked" + tag not in obs:
            bad.append(("extract/combine" + tag, "model answer", "not observed: " + str(obs.get("raised"))[:200]))
            continue
        e = need("extract" + tag)
        if e is not None and e != obs["extract" + tag]:
            i = next((i for i, (a, c) in enumerate(zip(e, obs["extract" + tag])) if a != c), None)
            bad.append(("extract" + tag, {"node": i, "model": e[i] if i is not None else len(e)},
                        obs["extract" + tag][i] if i is not None else len(obs["extract" + tag])))
        c = need("combine" + tag)
        if c is not None and c != obs["combine_marked" + tag]:
            bad.append(("combine" + tag, c, obs["combine_marked" + tag]))
        # sub-fields: component c of node i = model extraction of the cell codes + c*100000
        if e is not None and obs.get("fields"):
            for name, rec in obs["fields"].items():
                nc = max(1, rec["ncomp"])
                subs = rec["sub_ghost"] if tag == "_ghost" else rec["sub"]
                na = len(spec["shape"])
                # the field's padded data are the cell codes of the padded array; its valid data are
                # the interior of these codes, addressed by the position in the valid array
                full_codes = field_codes([n + 2 for n in spec["shape"]], 0)
                lookup = (full_codes if tag == "_ghost" else full_codes[(slice(1, -1),) * na]).ravel()
                for i, s in enumerate(subs):
                    exp = [int(lookup[v]) + 100000 * cc for cc in range(nc) for v in e[i]["data"]]
                    lead = s["shape"][:len(s["shape"]) - len(e[i]["shape"])]
                    if s["shape"][len(lead):] != e[i]["shape"] or int(np.prod(lead or [1])) != nc or s["data"] != exp:
                        bad.append((f"extract_subfield[{name}] node {i} (ghost={tag != ''})", exp[:60], s["data"][:60]))
                        break
    # collections (`Mesh.subcollection`): per node, member and component the padded array; the model's undefined cells
    # (ghost layer of a sub-field taken without ghost cells) are not compared, its defined cells in row-major order are
    # the member's valid data
    coll = (obs.get("fields") or {}).get("collection") or {}
    for tag in ("", "_ghost"):
        if "members" not in coll or "subcoll" + tag not in ans:
            continue
        mc = need("subcoll" + tag)
        if mc is None:
            continue
        ctx.hist("fields", "subcollection vs model" + tag)
        done = False
        for i, (mnode, rnode) in enumerate(zip(mc, coll["members"])):
            real = rnode["ghost" if tag else "valid"]
            if len(mnode) != len(real):
                bad.append((f"subcollection node {i}: number of members", len(mnode), len(real)))
                break
            for k_, (comps, r) in enumerate(zip(mnode, real)):
                mshape = ([len(comps)] if len(comps) > 1 or len(r["shape"]) > len(comps[0]["shape"]) else []) + comps[0]["shape"]
                if tag:
                    mdata = [v for c in comps for v in c["data"]]
                else:
                    mdata = [v for c in comps for v in c["data"] if v is not None]
                if mshape != r["shape"] or mdata != r["data"] or (tag and None in mdata):
                    bad.append((f"subcollection node {i} member {k_} (ghost={tag != ''})",
                                {"shape": mshape, "data": mdata[:60]}, {"shape": r["shape"], "data": r["data"][:60]}))
                    done = True
                    break
            if done:
                break
    for name, mv, iv in bad:
        ctx.disagree("mesh:" + name, case, mv, iv, "model vs GridMesh")
    return not bad


def field_valid_check(obs, spec):
    """sub-field valid data must be the interior of the sub-field padded data (pure consistency
    of the two observations; the padded one is tied to the model in `compare_mesh`)"""
    probs = []
    na = len(spec["shape"])
    for name, rec in (obs.get("fields") or {}).items():
        for i, (s, g) in enumerate(zip(rec["sub"], rec["sub_ghost"])):
            a = np.array(g["data"]).reshape(g["shape"])
            inner = a[(...,) + (slice(1, -1),) * na]
            if list(inner.shape) != s["shape"] or inner.ravel().tolist() != s["data"]:
                probs.append(f"{name}: valid data of sub-field {i} is not the interior of its padded data")
                break
    return probs


# ------------------------------------------------------------------------------------------
def run(ctx):
    from harness.common.isolated import run_many

    rng = ctx.rng
    env = {"NUMBA_DISABLE_JIT": "1", "OMP_NUM_THREADS": "1", "NUMBA_NUM_THREADS": "1"}

    # ---- leg 1: _subdivide -------------------------------------------------------------------
    nmax = 400
    pairs = [(num, c) for num in range(1, nmax + 1) for c in range(1, num + 1)]
    pairs += [(num, num + k) for num in range(1, 40) for k in (1, 2, 7)]
    extra = [(rng.randint(401, 5000), 0) for _ in range(ctx.budget(200, 2000))]
    extra = [(n, rng.randint(1, n)) for n, _ in extra]
    want = [(num, c) for num in range(1, 41) for c in range(1, num + 4)]
    want += [(30, 22)] + [pairs[rng.randrange(len(pairs))] for _ in range(ctx.budget(1500, 12000))]
    want += extra[: ctx.budget(100, 600)]
    allpairs = pairs + extra
    want = sorted(set(want) & set(allpairs))
    procs = 16
    share = [allpairs[i::procs] for i in range(procs)]
    res = run_many("harness.c17", "subdivide_worker", [(s, want) for s in share], env=env, procs=procs)
    sizes = {}
    nform = nrob = 0
    for r in res:
        if isinstance(r, str):
            raise RuntimeError(r)
        sizes.update(r["sizes"])
        nform += r["formula_diff"]
        nrob += r["robust_diff"]
        ctx.monitor_evals += r["n"]
        for num, c, s, what in r["bad"]:
            ctx.monitor_fail("subdivide", {"num": num, "chunks": c}, {"sizes": s}, what,
                             "_subdivide contract", key={"call_site": "_subdivide"})
    ctx.hist("subdivide", "pairs checked against the contract (monitor)", len(allpairs))
    ctx.hist("subdivide", "pairs where linspace differs from floor(i*num/chunks) (informative)", nform)
    ctx.hist("subdivide", "pairs outside the hypothesis of theorem subdivide_robust (informative)", nrob)
    ctx.evaluations += len(allpairs) - len(want)  # monitor-only pairs (not individually keyed)
    reqs, meta = [], []
    for (num, c) in want:
        s = sizes[(num, c)]
        ctx.count({"leg": "subdivide", "num": num, "chunks": c}, nontrivial=(c >= 2), leg="subdivide")
        reqs.append(("c17.subdivide", {"num": num, "chunks": c, "sizes": s if isinstance(s, list) else []}))
        meta.append((num, c, s))

    # ---- leg 2: meshes (exhaustive small decompositions) --------------------------------------
    specs = gen_mesh_specs(ctx)
    obs_list = run_many("harness.c17", "mesh_worker", specs, env=env, procs=16)
    mesh_req_index = []
    for k_, obs in enumerate(obs_list):
        if isinstance(obs, str):  # the worker itself crashed while driving the real code
            obs_list[k_] = {"error": None, "monitor": ["the real code raised: " + obs[-300:]], "raised": obs, "len": 0}
    for sp, obs in zip(specs, obs_list):
        case = case_key(sp)
        dimn = len(sp["shape"])
        ntriv = obs["error"] is None and obs.get("len", 0) >= 2
        ctx.count(dict(case, leg="mesh", fields=sp.get("fields")), nontrivial=ntriv, leg=f"mesh-{dimn}d")
        ctx.hist("grid", sp["cls"])
        ctx.hist("dim", dimn)
        if obs["error"] is not None:
            ctx.monitor_evals += 1
            ctx.monitor_fail("mesh", case, {"error": obs["error"]}, "admissible decomposition must not raise",
                             "from_grid raised for an admissible decomposition", key={"call_site": "GridMesh.from_grid"})
            mesh_req_index.append(None)
            continue
        ctx.hist("nodes", obs.get("len", 0) if obs.get("len", 0) <= 12 else ">12")
        ax = obs.get("axes") or []
        if any(len(set(a)) > 1 for a in ax):
            ctx.hist("branch", "uneven chunk sizes")
        if any(1 in a and len(a) > 1 for a in ax):
            ctx.hist("branch", "single-cell chunk")
        if any(len(a) == 2 and p for a, p in zip(ax, sp["periodic"])):
            ctx.hist("branch", "periodic axis with two chunks (same neighbour on both sides)")
        if any(len(a) > 1 and p for a, p in zip(ax, sp["periodic"])):
            ctx.hist("branch", "periodic wrap of neighbour ids")
        if any(len(a) == 1 and p for a, p in zip(ax, sp["periodic"])):
            ctx.hist("branch", "unsplit periodic axis")
        if any(len(a) == n and n > 1 for a, n in zip(ax, sp["shape"])):
            ctx.hist("branch", "as many chunks as cells")
        for nm in sp.get("fields") or []:
            ctx.hist("fields", nm)
        ctx.monitor_evals += 1
        probs = list(obs["monitor"]) + field_valid_check(obs, sp)
        for p in probs[:3]:
            ctx.monitor_fail("mesh", case, {"problem": p, "axes": obs["axes"]}, "property statement",
                             "tiling / split-combine identity / neighbours", key={"call_site": "GridMesh"})
        if "axes" not in obs:
            mesh_req_index.append(None)
            continue
        base = {"axes": obs["axes"], "periodic": list(sp["periodic"])}
        start = len(reqs)
        names = ["mesh", "bounds", "extract", "extract_ghost", "combine", "combine_ghost"]
        reqs.append(("c17.mesh", base))
        bb = obs.get("base_bounds") or sp["bounds"]
        reqs.append(("c17.bounds", dict(base, kind=KINDS[sp["cls"]], bounds=[[q(v) for v in b] for b in bb])))
        nfull = int(np.prod([n + 2 for n in sp["shape"]]))
        nval = int(np.prod(sp["shape"]))
        reqs.append(("c17.extract", dict(base, ghost=False, data=list(range(nval)))))
        reqs.append(("c17.extract", dict(base, ghost=True, data=list(range(nfull)))))
        for tag in ("", "_ghost"):
            # marked sub-arrays of the model's own box sizes (the real ones may be wrong or missing)
            sizes_per_node = [math.prod(obs["axes"][ax][k] + (2 if tag else 0) for ax, k in enumerate(idx))
                              for idx in itertools.product(*[range(len(a)) for a in obs["axes"]])]
            subs = [[1000 * (i + 1) + k for k in range(nn)] for i, nn in enumerate(sizes_per_node)]
            reqs.append(("c17.combine", dict(base, ghost=(tag != ""), subs=subs)))
        if "members" in ((obs.get("fields") or {}).get("collection") or {}):
            # `Mesh.subcollection`: members scalar "a" (1 component) and vector "b" (grid.dim components)
            names += ["subcoll", "subcoll_ghost"]
            ncs = [int(v) for v in obs["fields"]["collection"]["member_ncomp"]]
            reqs.append(("c17.subcoll", dict(base, ghost=False, members=ncs)))
            reqs.append(("c17.subcoll", dict(base, ghost=True, members=ncs)))
        mesh_req_index.append((start, names))

    # ---- leg 3: malformed requests -------------------------------------------------------------
    mal = gen_malformed(ctx)
    mal_obs = run_many("harness.c17", "malformed_worker", mal, env=env, procs=8)
    mal_index = []
    for sp, ob in zip(mal, mal_obs):
        if isinstance(ob, str):
            raise RuntimeError(ob)
        r0nz = bool(sp["bounds"][0][0] != 0) and sp["cls"] == "CylindricalSymGrid"
        mal_index.append(len(reqs))
        reqs.append(("c17.outcome", {"kind": KINDS[sp["cls"]], "r0nz": r0nz, "shape": sp["shape"],
                                     "dec": [int(d) for d in sp["dec"]], "mpi_size": int(sp.get("mpi_size", 1))}))

    # ---- leg 4: _MPIBC index pairs ---------------------------------------------------------------
    mp_index = len(reqs)
    mp_cases = [(n, up) for n in range(1, 9) for up in (False, True)]
    for n, up in mp_cases:
        reqs.append(("c17.mpibc", {"n": n, "upper": up}))

    answers = run_lean(ctx, reqs)

    # subdivide answers
    for k, (num, c, s) in enumerate(meta):
        st, val = answers[k]
        ctx.impl_traces += 1
        case = {"leg": "subdivide", "num": num, "chunks": c}
        if st != "ok":
            ctx.disagree("subdivide", case, val, s, "model error")
            continue
        if isinstance(s, str):
            if val["ref"] is not None:
                ctx.disagree("subdivide", case, val["ref"], s, "code raises, model does not")
            ctx.hist("error", s)
            continue
        if val["ref"] is None:
            ctx.disagree("subdivide", case, "raises", s, "model raises, code does not")
            continue
        if not (val["contract"] and val["balanced"]):
            ctx.disagree("subdivide", case, {"contract": val["contract"], "balanced": val["balanced"]}, s,
                         "real sizes do not meet the contract according to the model")
        # the model's own definitions must be consistent: `subdivideLin` at Rat is the integer formula
        # (theorem `subdivideLin_exact`), and its Float sizes meet the contract
        if val["lin_exact"] != val["ref"] or not val["lin_contract_balanced"]:
            ctx.disagree("subdivide", case, {"lin_exact": val["lin_exact"], "ref": val["ref"],
                                             "lin_contract_balanced": val["lin_contract_balanced"]}, s,
                         "model inconsistency: subdivideLin at Rat != integer formula, or its Float sizes break the contract")
        # informative (a different formula that keeps the contract is a harmless change): the bit-for-bit replay
        # of np.linspace(...).astype(int) at Float, and the integer formula
        ctx.hist("subdivide-vs-model", "equal to the Float replay of np.linspace" if val["lin"] == s
                 else "different from the Float replay of np.linspace (contract kept)")
        ctx.hist("subdivide-vs-formula", "equal" if val["ref"] == s else "different (contract kept)")

    # mesh answers
    for sp, obs, ri in zip(specs, obs_list, mesh_req_index):
        if ri is None:
            continue
        start, names = ri
        ans = {nm: answers[start + j] for j, nm in enumerate(names)}
        ctx.impl_traces += 1
        compare_mesh(ctx, sp, obs, ans)

    # malformed answers
    for sp, ob, ri in zip(mal, mal_obs, mal_index):
        st, val = answers[ri]
        case = dict(case_key(sp), leg="malformed", mpi_size=int(sp.get("mpi_size", 1)))
        exp_err = (val["outcome"] != "ok") if st == "ok" else None
        ctx.count(case, nontrivial=bool(exp_err) or sp["malformed"] == "node-count", leg="malformed")
        ctx.impl_traces += 1
        ctx.monitor_evals += 1
        ctx.hist("malformed", f"{sp['malformed']} -> {ob['outcome']}")
        ctx.hist("mpi.size", sp.get("mpi_size", 1))
        if st != "ok":
            ctx.disagree("malformed", case, val, ob["outcome"], "model error")
            continue
        if val["outcome"] != ob["outcome"]:
            ctx.disagree("malformed", case, val["outcome"], ob["outcome"], "outcome class of from_grid")
        elif ob["outcome"] == "ok" and val["dec"] != ob["dec"]:
            ctx.disagree("malformed", case, val["dec"], ob["dec"], "mesh.shape of an accepted decomposition")
        for observed, expected, what in malformed_judge(sp, ob):
            ctx.monitor_fail("malformed", case, observed, expected, what, key={"call_site": "GridMesh.from_grid"})

    # nested decomposition must raise
    nested = run_many("harness.c17", "malformed_worker",
                      [{"cls": "UnitGrid", "shape": [4, 4], "bounds": [[0, 4], [0, 4]], "periodic": [False, True],
                        "dec": [1, 1], "nested": [2, 2]}], env=env, procs=1)[0]
    ctx.monitor_evals += 1
    ctx.count({"leg": "nested"}, nontrivial=True, leg="malformed")
    if nested["outcome"] == "ok":
        ctx.monitor_fail("malformed", {"leg": "nested"}, nested, "must raise", "a sub-grid was subdivided further",
                         key={"call_site": "GridMesh.__init__"})

    # _MPIBC answers
    mp_obs = run_many("harness.c17", "mpibc_worker", [mp_cases], env=env, procs=1)[0]
    if isinstance(mp_obs, str):
        raise RuntimeError(mp_obs)
    for k, (n, up) in enumerate(mp_cases):
        st, val = answers[mp_index + k]
        case = {"leg": "mpibc", "n": n, "upper": up}
        ctx.count(case, nontrivial=True, leg="mpibc")
        ctx.impl_traces += 1
        if st != "ok" or val != mp_obs[k]:
            ctx.disagree("mpibc", case, val, mp_obs[k], "_MPIBC read/write index along its axis")

    # ---- leg 5: operator equivalence --------------------------------------------------------------
    ops = gen_op_specs(ctx)
    op_obs = run_many("harness.c17", "op_worker", ops, env=OP_ENV["S"], procs=16)
    njit = ctx.budget(6, 40)
    plain = [s for s in ops if math.prod(s["dec"]) in (2, 3, 4) and s["op"] in ("laplace", "gradient", "divergence")
             and "expr" not in json.dumps(s["bc"]) and "virtual_point" not in json.dumps(s["bc"])]
    # the JIT subset always contains anti-periodic seams
    jit_specs = [dict(s) for s in ([x for x in plain if x.get("stream") == "anti-periodic seam"][:max(2, njit // 3)]
                                   + [x for x in plain if x.get("stream") != "anti-periodic seam"])[:njit]]
    jit_obs = run_many("harness.c17", "op_worker", jit_specs, env=OP_ENV["J"],
                       procs=min(16, max(1, len(jit_specs)))) if jit_specs else []
    reqs2, idx2 = [], []
    for mode, sps, obl in (("S", ops, op_obs), ("J", jit_specs, jit_obs)):
        for sp, ob in zip(sps, obl):
            if isinstance(ob, str):
                raise RuntimeError(ob)
            case = op_case(sp, mode)
            label, fails = judge_op(sp, ob)
            ok = ob["error"] is None and not ob.get("ill_posed")
            ctx.count(case, nontrivial=ok and ob.get("len", 1) >= 2 and ob.get("nonzero", False), leg=f"operator-{mode}")
            ctx.hist("operator", f"{KINDS[sp['cls']]}:{sp['op']}")
            ctx.hist("operator-stream", sp.get("stream", "main"))
            for side in sp["bc"].values():
                ctx.hist("bc", bc_label(side))
            split_anti = [ax for ax in anti_axes(sp) if sp["dec"][ax] >= 2]
            if split_anti:
                ctx.hist("branch", "anti-periodic axis that is split (sign at the seam)")
                if any(sp["dec"][ax] >= 3 for ax in split_anti):
                    ctx.hist("branch", "anti-periodic axis with >= 3 chunks (interior faces must not flip)")
            ctx.monitor_evals += 1
            ctx.hist("operator-outcome", label)
            if ob.get("source_mode") != (mode == "S"):
                raise RuntimeError(f"operator case ran in the wrong execution mode: {mode} vs {ob.get('source_mode')}")
            for observed, expected, what, key in fails[:3]:
                ctx.monitor_fail("operator", case, observed, expected, what, key=key)
            if not ok:
                continue
            ctx.hist("mpi faces", ob["n_mpi_faces"] if ob["n_mpi_faces"] < 10 else ">=10")
            if mode == "S":
                # the padded sub-arrays against (a) the model's extraction of the padded base array, (b) the model
                # of the exchange itself started from the valid data only; for the Cartesian Laplacian also the
                # model's stencil on the whole grid / on the sub-arrays / on the exchanged sub-arrays
                base = {"axes": ob["axes"], "periodic": list(sp["periodic"])}
                anti = [ax in anti_axes(sp) for ax in range(len(sp["shape"]))]
                fb = [fbits(x) for x in ob["base_full0"]]
                bits = [int(np.float64(x).view(np.int64)) for x in ob["base_full0"]]
                ent = {"sp": sp, "ob": ob, "case": case, "extract": len(reqs2)}
                reqs2.append(("c17.extract", dict(base, ghost=True, data=bits)))
                ent["exchange"] = len(reqs2)
                reqs2.append(("c17.exchange", dict(base, anti=anti, full=fb)))
                if KINDS[sp["cls"]] == "cartesian" and sp["op"] == "laplace":
                    ent["stencil"] = len(reqs2)
                    reqs2.append(("c17.stencil", dict(base, anti=anti, full=fb,
                                                      coef=[fbits(1.0 / dx ** 2) for dx in ob["dx"]])))
                idx2.append(ent)
    ans2 = run_lean(ctx, reqs2)
    for ent in idx2:
        sp, ob, case = ent["sp"], ent["ob"], ent["case"]
        ctx.impl_traces += 1
        scale = max(1.0, max((abs(x) for x in ob["base_full0"] if x == x), default=1.0))
        st, val = ans2[ent["extract"]]
        if st != "ok":
            ctx.disagree("operator:ghost-cells", case, val, None, "model error")
        else:
            for node, (mrec, rrec) in enumerate(zip(val, ob["sub_full"])):
                mvals = np.array(mrec["data"], dtype=np.int64).view(np.float64)
                rvals = np.array(rrec["data"])
                mask = np.array(rrec["mask"])
                if mrec["shape"] != rrec["shape"] or not np.all(_same(mvals, rvals, 1e-11 * scale) | ~mask):
                    ctx.disagree("operator:ghost-cells", case, {"node": node, "model": mvals.tolist()},
                                 {"node": node, "impl": rvals.tolist()}, "padded sub-array after the exchange vs block of the padded base array")
                    break
        st, val = ans2[ent["exchange"]]
        if st != "ok":
            ctx.disagree("operator:exchange", case, val, None, "model error")
        else:
            for node, (mrec, rrec) in enumerate(zip(val, ob["sub_full"])):
                rvals = np.array(rrec["data"])
                face = np.array(rrec["mpi_face"])
                mvals = np.array([np.nan if x is None else unfbits(x) for x in mrec["data"]])
                written = np.array([x is not None for x in mrec["data"]])
                inner = np.array(rrec["mask"]) & ~np.isnan(rvals)
                # the model writes exactly the valid cells and the faces with a neighbour, bit for bit what the code holds there
                prob = None
                if mrec["shape"] != rrec["shape"]:
                    prob = "shape"
                elif not np.array_equal(written & ~face, _interior_mask(rrec["shape"]).ravel()):
                    prob = "cells written outside the faces with a neighbour"
                elif not np.array_equal(written & face, face):
                    prob = "a face with a neighbour is not written"
                elif not np.all((mvals == rvals) | ~written):
                    prob = "values (bit-exact)"
                elif mrec["flip"] != rrec["flip"]:
                    prob = "flip_sign of the _MPIBC faces"
                if prob:
                    ctx.disagree("operator:exchange", case, {"node": node, "what": prob, "model": mrec},
                                 {"node": node, "impl": rvals.tolist(), "flip": rrec["flip"]},
                                 "Mesh.exchange (initSub) vs the padded sub-arrays after the real exchange")
                    break
        if "stencil" in ent:
            st, val = ans2[ent["stencil"]]
            tol = 1e-10 * ob["scale"]
            if st != "ok":
                ctx.disagree("operator:stencil", case, val, None, "model error")
            else:
                dec_f = lambda l: np.array([np.nan if x is None else unfbits(x) for x in l])  # noqa: E731
                ref0, res0 = np.array(ob["ref0"]), np.array(ob["result0"] if ob["result0"] is not None else [])
                for name, target in (("whole", ref0), ("split", ref0), ("exchanged", ref0), ("exchanged", res0)):
                    mv = dec_f(val[name])
                    if name == "exchanged" and target is res0 and any(m["sym"].startswith(("ghost", "operator", "exchange"))
                                                                       for m in ob["monitor"]):
                        continue  # the real sub-grid result is already reported wrong by the monitor
                    if mv.shape != target.shape or not np.all(np.abs(mv - target) <= tol):
                        ctx.disagree("operator:stencil", case, {"which": name, "model": mv.tolist()}, target.tolist(),
                                     "applyStencil (Cartesian Laplacian) vs the package's operator")
                        break
    ctx.exhaustive = ctx.tier == "thorough"
    ctx.note("exhaustive over all decompositions of 1-d <= 12, 2-d <= 6x5, 3-d <= 4x3x3 Cartesian grids with all "
             "periodic flags" if ctx.tier == "thorough" else
             "1-d <= 12 exhaustive; 2-d/3-d: seed-chosen subset of the exhaustive family")


def mpibc_worker(cases):
    """read/write index of `_MPIBC` along its axis, negative indices resolved"""
    import pde
    from pde.grids._mesh import GridMesh
    from pde.grids.boundaries.local import _MPIBC

    out = []
    for n, up in cases:
        grid = pde.UnitGrid([2 * n, 3], periodic=[True, False])
        mesh = GridMesh.from_grid(grid, [2, 1])
        bc = _MPIBC(mesh, 0, up, node_id=0)
        full = n + 2
        r, w = bc._idx_read[1], bc._idx_write[1]
        ok = bc._idx_read[0] is Ellipsis and bc._idx_read[2] == slice(1, -1) and bc._idx_write[2] == slice(1, -1)
        out.append([int(r % full), int(w % full)] if ok else ["bad-transversal-slice", str(bc._idx_read)])
    return out


# ------------------------------------------------------------------------------------------
def search(ctx, broken):
    """after a broken tie without a monitor failure: run the property monitor of the real code on
    the exhaustive 1-d/2-d family"""
    from harness.common.isolated import run_many

    rng = ctx.sub_rng("search")
    specs = []
    for s in itertools.product(range(1, 7), range(1, 6)):
        for d in compositions(s):
            for p in itertools.product((False, True), repeat=2):
                sp = cart_spec(rng, s, d, p)
                sp["fields"] = ["scalar", "collection"] if rng.random() < 0.2 else []
                specs.append(sp)
    env = {"NUMBA_DISABLE_JIT": "1"}
    found = []
    for sp, obs in zip(specs, run_many("harness.c17", "mesh_worker", specs, env=env, procs=16)):
        if isinstance(obs, str):
            continue
        probs = ([f"raised {obs['error']}"] if obs["error"] else list(obs["monitor"]))
        if probs:
            found.append({"leg": "mesh", "case": case_key(sp), "observed": {"problem": probs[0]},
                          "expected": "property statement", "what": "tiling / split-combine identity / neighbours",
                          "key": {"call_site": "GridMesh"}})
            break
    return found


NESTED_SPEC = {"cls": "UnitGrid", "shape": [4, 4], "bounds": [[0, 4], [0, 4]], "periodic": [False, True],
               "dec": [1, 1], "nested": [2, 2]}


def replay(ctx, rep):
    """re-run the recorded case on the real code: same leg, same inputs, same execution mode (the operator leg
    records whether the case ran as Python source, NUMBA_DISABLE_JIT=1, or JIT-compiled), judged by the same
    monitor function as in the run.  False = the property (still) fails for the case."""
    from harness.common.isolated import run_many

    c = rep.get("case")
    if not isinstance(c, dict):
        print("replay: the file holds no case that can be re-run; treated as failing")
        return False
    leg = rep.get("leg") or c.get("leg")
    recorded = rep.get("what")
    env_s = OP_ENV["S"]

    def one(func, arg, env):
        r = run_many("harness.c17", func, [arg], env=env, procs=1)[0]
        if isinstance(r, str):
            print(f"replay: the worker crashed while driving the real code ({r[-400:]}); treated as failing")
            return None
        return r

    try:
        if leg == "subdivide" or c.get("leg") == "subdivide":
            r = one("subdivide_worker", ([(c["num"], c["chunks"])], [(c["num"], c["chunks"])]), env_s)
            if r is None:
                return False
            print("sizes:", r["sizes"], "problems:", r["bad"])
            return not r["bad"]
        if leg == "operator" or c.get("leg") == "operator":
            mode = c.get("mode", "S")
            sp = dict(c)
            sp["backend"] = "numba"
            ob = one("op_worker", sp, OP_ENV[mode])
            if ob is None:
                return False
            if ob.get("source_mode") != (mode == "S"):
                print("replay: could not reproduce the recorded execution mode", mode, "; treated as failing")
                return False
            label, fails = judge_op(sp, ob)
            print(f"operator replay (mode {mode}): {label}; dev {ob.get('dev')}, public route {ob.get('dev_public')}")
            for observed, expected, what, key in fails:
                print("  fails:", what, "|", json.dumps(observed, default=str)[:300], "| key", key)
            if fails and recorded and not any(f[2] == recorded for f in fails):
                print(f"  the recorded symptom ({recorded!r}) is gone, but the case still fails")
            return not fails
        if leg == "malformed" or c.get("leg") in ("malformed", "nested"):
            sp = dict(NESTED_SPEC) if c.get("leg") == "nested" else dict(c)
            ob = one("malformed_worker", sp, env_s)
            if ob is None:
                return False
            fails = malformed_judge(sp, ob)
            print("outcome:", ob.get("outcome"), ob.get("dec"), "monitor:", [f[2] for f in fails] or "holds")
            return not fails
        if leg == "mesh" or c.get("leg") in (None, "mesh"):
            sp = dict(c)
            sp.setdefault("fields", ["scalar", "vector", "tensor", "collection"])
            obs = one("mesh_worker", sp, env_s)
            if obs is None:
                return False
            probs = ([f"raised {obs['error']}"] if obs["error"] else list(obs["monitor"]) + field_valid_check(obs, sp))
            print("monitor:", probs or "holds")
            return not probs
    except KeyError as e:
        print(f"replay: the recorded case lacks the field {e}; it cannot be re-run and is treated as failing")
        return False
    print(f"replay: unknown leg {leg!r}; the case cannot be re-run and is treated as failing")
    return False
