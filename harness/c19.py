"""C19 - vector and tensor components are tied to the right basis vectors.

Correspondence: the coordinate systems of `pde.grids.coordinates` (basis_rotation,
mapping_jacobian, scale_factors, metric, vec_to_cart), `GridBase._vector_to_cartesian`,
`get_axis_index`, `VectorField/Tensor2Field.from_expression / __getitem__ / dot / outer_product`
and `VectorField.interpolate_to_grid(CartesianGrid)` vs `PdeVerif.Coords` (Lean, evaluated at Rat;
trigonometry is evaluated by the harness and enters the model as `(c, s)` pairs - exact
Pythagorean pairs on one stream, the doubles numpy computed on the other).
Monitors: the statements of the property evaluated on the real results of every case (orthonormal,
right-handed, normalised Jacobian columns; one component order = the order of the operators and of
access by name; axial/radial/azimuthal fields; conversion commutes with divergence and gradient).

Known finding (F7, not fixed): on cylindrical grids `_vector_to_cartesian` reads the components as
(r, phi, z) while operators and `field['z']` use (r, z, phi).  A monitor failure is attributed to it
only if the observed result is *exactly* the (r, phi, z) reading; everything else gets its own key."""
import itertools
import math
from fractions import Fraction

import numpy as np

from harness.common.num import q, unq

PID = "C19"
LEVEL = "proof"
REQUIRED_THEOREMS = [
    "basis_orthonormal", "basis_right_handed", "basisOp_handedness", "basis_is_normalised_jacobian",
    "metric_eq_jacobian_gram", "bipolar_basis_orthonormal", "bisph_basis_orthonormal", "order_consistent",
    "operators_use_component_order_cyl", "vectorToCartesianChecked_spec",
    "unit_field_maps_to_basis_vector", "cyl_axial_unit_field_maps_to_azimuthal",
    "order_consistent_cyl_partial", "order_consistent_op", "radial_field_maps_to_position",
    "products_invariant3", "products_invariant_polar", "products_invariant_spherical",
    "products_invariant_cylindrical", "products_contract_adjacent_indices",
    # conversion commutes with divergence / gradient: arbitrary differentiable fields (K = R) ...
    "polar_conversion_commutes_with_divergence_real", "polar_conversion_commutes_with_gradient_real",
    "spherical_conversion_commutes_with_divergence_real", "spherical_conversion_commutes_with_gradient_real",
    "cyl_op_conversion_commutes_with_divergence_real", "cyl_op_conversion_commutes_with_gradient_real",
    "cyl_conversion_divergence_real",
    # ... and the algebraic form for the sub-class r P(r^2) (named _partial)
    "conversion_commutes_with_divergence_poly_polar_partial", "conversion_commutes_with_divergence_poly_spherical_partial",
    "cyl_op_conversion_commutes_with_divergence_partial", "conversion_commutes_with_gradient_poly_partial",
    "from_expression_getitem",
    # Props/C19Gap.lean (gap round): operator order for polar / spherical grids, gradient of a vector field
    "operators_use_component_order_polar", "operators_use_component_order_spherical",
    "operators_use_component_order_spherical_tensor",
    "polar_conversion_commutes_with_vector_gradient_real", "polarVectorGradientCont_matches_kernel",
    # Props/C19Jac.lean: the Jacobian of the bipolar / bispherical systems is the derivative of pos_to_cart
    "bipolar_jacobian_hasDerivAt", "bisph_jacobian_hasDerivAt",
    "bipolar_jacobian_derivation", "bisph_jacobian_derivation",
]
EXTRA_PROP_FILES = ["C19Gap", "C19Jac"]
RULE = ("legs: coordsys (5 curvilinear coordinate systems + Cartesian 1-3d at random points, batches and "
        "single points, exact Pythagorean (c,s) pairs and random angles), vtc (GridBase._vector_to_cartesian on "
        "random points/components and unit fields of every named axis for every grid class), order (axes, "
        "axes_symmetric, get_axis_index of every name), fields (from_expression of vectors and tensors with "
        "distinct random polynomial expressions, access by name and index, labels, setitem, dot/outer/trace/"
        "to_scalar incl. the numpy operator factories, malformed expression counts), convert "
        "(VectorField.interpolate_to_grid to random Cartesian boxes inside polar/spherical/cylindrical grids "
        "with and without hole: uniform unit fields of every axis, radial, position, rigid rotation, random "
        "affine and quadratic fields; built from expressions or from data; source semantics and JIT), commute "
        "(conversion vs divergence / gradient on polynomial fields whose coefficients are redrawn until every wrong "
        "reading of the component order changes the continuum result by > 3 x the tolerance; operator order probes "
        "for divergence, gradient, vector gradient, vector Laplacian and tensor divergence).  A case is "
        "distinct by (leg, system or grid spec, inputs) and non-trivial if a permutation or sign change of "
        "components/rows would change the expected result (non-zero, pairwise different components; "
        "points off the axes); malformed cases never count as non-trivial")
ASSUMPTIONS = [
    "cos/sin/cosh/sinh/arctan2/hypot of the real code are external: the harness evaluates them and hands the "
    "model (c,s) pairs; on the Pythagorean stream the pairs are exact rationals with c^2+s^2=1 and the real "
    "code's trigonometry is accepted within 1e-12",
    "exact field arithmetic in the model; the real results are compared within 1e-12 of the natural scale "
    "(exactly for dot/outer on dyadic data)",
    "interpolation (C16) is not modelled here: the model converts the grid-basis values the real interpolator "
    "returned; the monitor compares with the analytic field within the proven bound of linear interpolation "
    "(dx^2/8 |f''|), exact for affine fields",
    "conversion-vs-differentiation is checked within a discretisation tolerance COMMUTE_TOL * S + COMMUTE_ABS * "
    "H2 * D3 (S, D3: sizes of the first and third derivatives of the Cartesian components of the field, all "
    "components; H2 = max dx^2 + dr^2 + dz^2); measured on the unchanged tree over 12,000 generated cases: "
    "largest deviation 0.28 of the tolerance; the generator redraws coefficients until every wrong reading "
    "of the component order deviates by more than 3 x the tolerance",
    "Tensor2Field.interpolate_to_grid raises NotImplementedError in py-pde: tensor conversion exists only in "
    "the model (B^T T B); the harness checks that the error class stays as it is",
]
TRUSTED_EXTRA = ["the harness' own closed-form unit vectors (cross-checked against finite differences of "
                 "pos_to_cart on every run)"]

TOL = 1e-12
FD_STEP = 2e-3       # relative step of the finite-difference Jacobian of pos_to_cart (coordsys leg)
FD_TOL = 1e-10       # its tolerance relative to the scale of the Jacobian (measured: see notes/C19.md)
KNOWN_KEY = {"grid_class": "CylindricalSymGrid", "call_site": "GridBase._vector_to_cartesian",
             "symptom": "component-order (r,phi,z) vs (r,z,phi)"}
# a separate defect (pde/fields/vectorial.py:168, `comp_name = self.grid.c.axes[axis]`): the label of a
# component picked by name is looked up in the order of the coordinate system although the index came
# from `get_axis_index` (component order) - `field['z'].label == 'φ component'` on cylindrical grids.
# It has its own key and is never attributed to KNOWN_KEY (proposed fix: notes/proposed_fixes/)
LABEL_KEY = {"grid_class": "CylindricalSymGrid", "call_site": "VectorField.__getitem__",
             "symptom": "label of named component"}

# the property's statement of the component order (operators, access by name)
OP_ORDER = {"polar": ["r", "φ"], "spherical": ["r", "θ", "φ"], "cylindrical": ["r", "z", "φ"]}
# the order of the coordinate systems (`c.axes`)
CS_ORDER = {"polar": ["r", "φ"], "spherical": ["r", "θ", "φ"], "cylindrical": ["r", "φ", "z"]}
GRID_CLASS_NAME = {"polar": "PolarSymGrid", "spherical": "SphericalSymGrid", "cylindrical": "CylindricalSymGrid",
                   "cartesian": "CartesianGrid", "unit": "UnitGrid"}
ALL_NAMES = ["r", "θ", "φ", "z", "x", "y", "σ", "τ"]


def order_of(spec):
    c = spec["cls"]
    if c in OP_ORDER:
        return OP_ORDER[c]
    return ["x", "y", "z"][:len(spec["shape"])]


def cs_order_of(spec):
    c = spec["cls"]
    if c in CS_ORDER:
        return CS_ORDER[c]
    return ["x", "y", "z"][:len(spec["shape"])]


def dim_of(spec):
    return len(order_of(spec))


# ------------------------------------------------------------------------------------------
# grids
def build(spec):
    import pde
    c = spec["cls"]
    if c == "unit":
        return pde.UnitGrid(list(spec["shape"]), periodic=list(spec.get("periodic", [False] * len(spec["shape"]))))
    if c == "cartesian":
        return pde.CartesianGrid([tuple(b) for b in spec["bounds"]], list(spec["shape"]),
                                 periodic=list(spec.get("periodic", [False] * len(spec["shape"]))))
    rad = spec["radius"]
    rad = tuple(rad) if isinstance(rad, (list, tuple)) else rad
    if c == "polar":
        return pde.PolarSymGrid(rad, spec["shape"][0])
    if c == "spherical":
        return pde.SphericalSymGrid(rad, spec["shape"][0])
    if c == "cylindrical":
        return pde.CylindricalSymGrid(rad, tuple(spec["bounds_z"]), list(spec["shape"]),
                                      periodic_z=bool(spec.get("periodic_z", False)))
    raise ValueError(c)


def radii(spec):
    rad = spec["radius"]
    return (float(rad[0]), float(rad[1])) if isinstance(rad, (list, tuple)) else (0.0, float(rad))


def gen_curv_grid(rng, cls, n_lo=6, n_hi=24, hole=None):
    """a polar / spherical / cylindrical grid spec with dyadic bounds (hole: True/False/None=random)"""
    if hole is None:
        hole = rng.random() < 0.5
    r_in = rng.choice([0.5, 1.0, 1.5, 0.25]) if hole else 0.0
    r_out = r_in + rng.choice([2.0, 3.0, 4.0, 2.5])
    spec = {"cls": cls, "radius": [r_in, r_out] if hole else r_out, "shape": [rng.randint(n_lo, n_hi)]}
    if cls == "cylindrical":
        z0 = rng.choice([-2.0, 0.0, 1.0, -0.5])
        spec["bounds_z"] = [z0, z0 + rng.choice([2.0, 3.0, 4.0])]
        spec["shape"] = [rng.randint(n_lo, n_hi), rng.randint(n_lo, n_hi)]
        spec["periodic_z"] = rng.random() < 0.4
    return spec


def gen_cart_grid(rng, unit=False):
    d = rng.choice([1, 2, 2, 3, 3])
    shape = [rng.randint(1, 5) for _ in range(d)]
    if unit:
        return {"cls": "unit", "shape": shape, "periodic": [rng.random() < 0.5 for _ in range(d)]}
    b = []
    for _ in range(d):
        lo = rng.randint(-8, 8) / 4
        b.append([lo, lo + rng.randint(1, 16) / 4])
    return {"cls": "cartesian", "bounds": b, "shape": shape, "periodic": [rng.random() < 0.5 for _ in range(d)]}


# ------------------------------------------------------------------------------------------
# angles
def pyth_pair(rng, nonneg_s=False):
    """exact rational (c, s) with c^2 + s^2 = 1"""
    m = rng.randint(1, 12)
    n = rng.randint(0, m)
    d = m * m + n * n
    c, s = Fraction(m * m - n * n, d), Fraction(2 * m * n, d)
    if rng.random() < 0.5:
        c, s = s, c
    if rng.random() < 0.5:
        c = -c
    if rng.random() < 0.5 and not nonneg_s:
        s = -s
    return c, s


def hyp_pair(rng):
    """exact rational (ch, sh) with ch^2 - sh^2 = 1 and the angle tau"""
    t = Fraction(rng.randint(1, 40), rng.randint(1, 40))
    if t == 1:
        t = Fraction(3, 2)
    return (t + 1 / t) / 2, (t - 1 / t) / 2, math.log(float(t))


def gen_angle(rng, stream, nonneg_s=False):
    """(angle as float, c, s): Pythagorean stream -> exact rational pair, float stream -> numpy's doubles"""
    if stream == "pyth":
        c, s = pyth_pair(rng, nonneg_s)
        return math.atan2(float(s), float(c)), c, s
    a = rng.uniform(0.0, math.pi) if nonneg_s else rng.uniform(-math.pi, 2 * math.pi)
    if rng.random() < 0.1:
        a = rng.choice([0.0, math.pi / 2, math.pi, math.pi / 4]) if nonneg_s else \
            rng.choice([0.0, math.pi / 2, math.pi, -math.pi / 2, 3 * math.pi / 2, math.pi / 4])
    return a, Fraction(float(np.cos(a))), Fraction(float(np.sin(a)))


def unit_vectors(cls, ct, st, cp, sp):
    """the harness' own closed forms of the local unit vectors (Cartesian components), by axis name"""
    if cls == "polar":
        return {"r": np.array([cp, sp]), "φ": np.array([-sp, cp])}
    if cls == "cylindrical":
        z0 = np.zeros_like(cp)
        return {"r": np.array([cp, sp, z0]), "φ": np.array([-sp, cp, z0]), "z": np.array([z0, z0, z0 + 1])}
    if cls == "spherical":
        return {"r": np.array([st * cp, st * sp, ct]), "θ": np.array([ct * cp, ct * sp, -st]),
                "φ": np.array([-sp, cp, np.zeros_like(cp)])}
    raise ValueError(cls)


def expected_cart(cls, order, comps, ct, st, cp, sp):
    """sum_k comps[k] * e_{order[k]}"""
    e = unit_vectors(cls, ct, st, cp, sp)
    out = 0
    for k, name in enumerate(order):
        out = out + np.asarray(comps[k]) * e[name]
    return np.asarray(out, dtype=float)


# ------------------------------------------------------------------------------------------
# comparison helpers
def fl(x):
    return float(unq(x)) if isinstance(x, str) else float(x)


def mat_f(m):
    return np.array([[fl(x) for x in row] for row in m], dtype=float)


def vec_f(v):
    return np.array([fl(x) for x in v], dtype=float)


def maxdiff(a, b):
    a, b = np.asarray(a, dtype=float), np.asarray(b, dtype=float)
    if a.shape != b.shape:
        return math.inf
    if a.size == 0:
        return 0.0
    d = np.abs(a - b)
    if np.any(np.isnan(d)):
        return math.inf
    return float(d.max())


def exceeds(x, tol):
    """x > tol, where a non-finite x (NaN from a broken computation) counts as a difference"""
    return not (x <= tol)


def jl(a):
    return np.asarray(a, dtype=float).tolist()


class Pending:
    """requests to the model driver with the continuation that compares the answer"""

    def __init__(self, ctx):
        from harness.common.lean import LeanBatch
        self.batch = LeanBatch(ctx.workdir)
        self.todo = []

    def add(self, fn, args, cont):
        i = self.batch.add(fn, args)
        self.todo.append((i, cont))

    def run(self):
        resps = self.batch.run()
        todo, self.todo = self.todo, []
        for i, cont in todo:
            cont(resps[i])


class NoModel:
    """stands in for `Pending` in search/replay: monitors only"""

    def add(self, fn, args, cont):
        pass

    def run(self):
        pass


class Collector:
    """stands in for ctx in search/replay: collects monitor failures"""

    def __init__(self, rng=None):
        self.monitor_failures = []
        self.disagreements = []
        self.impl_traces = 0
        self.monitor_evals = 0
        self.rng = rng

    def count(self, *a, **k):
        pass

    def hist(self, *a, **k):
        pass

    def note(self, *a, **k):
        pass

    def disagree(self, leg, case, model, impl, note=""):
        self.disagreements.append({"leg": leg, "case": case, "model": model, "impl": impl, "note": note})

    def monitor_fail(self, leg, case, observed, expected, what, key=None):
        self.monitor_failures.append({"leg": leg, "case": case, "observed": observed, "expected": expected,
                                      "what": what, "key": key or {}})


def model_ok(ctx, resp, leg, case):
    status, val = resp
    if status != "ok":
        ctx.disagree(leg, case, f"model error: {val}", None)
        return None
    return val


def other_key(spec_or_cls, call_site, symptom):
    cls = spec_or_cls["cls"] if isinstance(spec_or_cls, dict) else spec_or_cls
    return {"grid_class": GRID_CLASS_NAME.get(cls, cls), "call_site": call_site, "symptom": symptom}


# ------------------------------------------------------------------------------------------
# leg: coordinate systems
def make_cs(sys, a=1.0):
    from pde.grids.coordinates.bipolar import BipolarCoordinates
    from pde.grids.coordinates.bispherical import BisphericalCoordinates
    from pde.grids.coordinates.cartesian import CartesianCoordinates
    from pde.grids.coordinates.cylindrical import CylindricalCoordinates
    from pde.grids.coordinates.polar import PolarCoordinates
    from pde.grids.coordinates.spherical import SphericalCoordinates
    if sys == "polar":
        return PolarCoordinates()
    if sys == "cylindrical":
        return CylindricalCoordinates()
    if sys == "spherical":
        return SphericalCoordinates()
    if sys == "bipolar":
        return BipolarCoordinates(a)
    if sys == "bispherical":
        return BisphericalCoordinates(a)
    if sys.startswith("cartesian"):
        return CartesianCoordinates(int(sys[-1]))
    raise ValueError(sys)


def gen_cs_point(rng, sys, stream):
    """(coordinates of the point as floats, parameter list of the model as Fractions, scale parameter)"""
    r = Fraction(rng.choice([rng.randint(1, 64), rng.randint(1, 640)]), rng.choice([1, 4, 16, 64]))
    if rng.random() < 0.04:
        r = Fraction(0)
    if sys in ("polar", "cylindrical"):
        phi, c, s = gen_angle(rng, stream)
        z = rng.randint(-40, 40) / 8
        pt = [float(r), phi] + ([z] if sys == "cylindrical" else [])
        return pt, [r, c, s], 1.0
    if sys == "spherical":
        th, ct, st = gen_angle(rng, stream, nonneg_s=True)
        phi, cp, sp = gen_angle(rng, stream)
        return [float(r), th, phi], [r, ct, st, cp, sp], 1.0
    if sys in ("bipolar", "bispherical"):
        a = Fraction(rng.randint(1, 24), 8)
        for _ in range(100):
            sg, c, s = gen_angle(rng, stream, nonneg_s=(sys == "bispherical"))
            if stream == "pyth":
                ch, sh, tau = hyp_pair(rng)
                if rng.random() < 0.5:
                    sh, tau = -sh, -tau
            else:
                tau = rng.uniform(-2.5, 2.5)
                ch, sh = Fraction(float(np.cosh(tau))), Fraction(float(np.sinh(tau)))
            if abs(float(c - ch)) >= 0.05:
                break
        if sys == "bipolar":
            return [sg, tau], [a, c, s, ch, sh], float(a)
        phi, cp, sp = gen_angle(rng, stream)
        return [sg, tau, phi], [a, c, s, ch, sh, cp, sp], float(a)
    raise ValueError(sys)


def cs_real(sys, a, pts, comps=None):
    """the real matrices at a batch of points: lists indexed by point"""
    c = make_cs(sys, a)
    P = np.array(pts, dtype=float)
    if sys.startswith("cartesian") and len(pts) > 1:
        # CartesianCoordinates.scale_factors returns shape (m, dim) for a batch (all other systems
        # (dim, m)) and .metric raises for it - outside the statement of C19 (noted in notes/C19.md);
        # Cartesian points are evaluated one by one
        outs = [cs_real(sys, a, [p], None if comps is None else [cm]) for p, cm in
                zip(pts, comps if comps is not None else pts)]
        return {k: [o[k][0] for o in outs] for k in outs[0]}
    single = len(pts) == 1
    arg = P[0] if single else P
    B = np.asarray(c.basis_rotation(arg), dtype=float)
    J = np.asarray(c.mapping_jacobian(arg), dtype=float)
    h = np.asarray(c.scale_factors(arg), dtype=float)
    M = np.asarray(c.metric(arg), dtype=float)
    vf = np.asarray(c.volume_factor(arg), dtype=float)
    d = c.dim
    m = len(pts)

    def per_point(X, lead):
        if X.shape == lead:          # no batch axis at all (e.g. np.eye for Cartesian)
            return [X for _ in range(m)]
        if single:
            return [X.reshape(lead)]
        return [X[..., k] for k in range(m)]
    out = {"B": per_point(B, (d, d)), "J": per_point(J, (d, d)), "h": per_point(h, (d,)),
           "M": per_point(M, (d, d)), "vf": [float(np.ravel(vf)[k if not single else 0]) for k in range(m)]}
    # numerical derivative of pos_to_cart: Richardson-extrapolated central differences (two 4th-order
    # five-point stencils combined to 6th order); `Jn_err` is the difference of the two stencils, an
    # estimate of the error of the less accurate one
    Jn, Jerr = [], []
    for p in P:
        cols, errs = [], []
        for j in range(d):
            e = np.zeros(d)
            e[j] = 1.0
            f = lambda t: np.asarray(c.pos_to_cart(p + t * e), dtype=float)
            d4 = lambda h: (-f(2 * h) + 8 * f(h) - 8 * f(-h) + f(-2 * h)) / (12 * h)
            h = FD_STEP * max(1.0, abs(p[j]))
            if sys in ("bipolar", "bispherical"):        # stay well inside the distance to the focus
                h = min(h, FD_STEP * 10 * abs(math.cos(p[0]) - math.cosh(p[1])))
            a1, a2 = d4(h), d4(h / 2)
            cols.append((16 * a2 - a1) / 15)
            errs.append(np.abs(a2 - a1))
        Jn.append(np.array(cols).T)
        Jerr.append(float(np.max(errs)))
    out["Jn"] = Jn
    out["Jn_err"] = Jerr
    # `pos_to_cart` of the batch itself (compared with the model's bipolarToCart / bisphToCart)
    X = np.asarray(c.pos_to_cart(arg), dtype=float)
    out["X"] = [X.reshape(d)] if single else [X[k] for k in range(m)]
    if comps is not None:
        C = np.array(comps, dtype=float)              # (m, d)
        v = np.asarray(c.vec_to_cart(arg, C[0] if single else C.T), dtype=float)
        out["v2c"] = [v] if single else [v[:, k] for k in range(m)]
    return out


def cs_monitor(sys, real, k, scale):
    """the property on the real matrices of point k; returns a list of (symptom, detail)"""
    B, J, h, M, Jn = real["B"][k], real["J"][k], real["h"][k], real["M"][k], real["Jn"][k]
    d = B.shape[0]
    bad = []
    if not all(np.all(np.isfinite(np.asarray(X, dtype=float))) for X in (B, J, h, M, real["vf"][k])) \
            or not math.isfinite(scale):
        # (a non-finite entry would also make the scale of the tolerances below non-finite)
        return [("non-finite-entries", {"B": jl(B), "J": jl(J), "h": jl(h), "vf": real["vf"][k]})]
    if exceeds(maxdiff(B @ B.T, np.eye(d)), 1e-11):
        bad.append(("basis-not-orthonormal", jl(B @ B.T)))
    if exceeds(abs(np.linalg.det(B) - 1), 1e-11):
        bad.append(("basis-not-right-handed", float(np.linalg.det(B))))
    if exceeds(maxdiff(J, B.T * h[None, :]), 1e-11 * scale):
        bad.append(("basis-not-normalised-jacobian-columns", {"J": jl(J), "B^T diag(h)": jl(B.T * h[None, :])}))
    if exceeds(maxdiff(np.linalg.norm(J, axis=0), h), 1e-11 * scale) or not np.all(h >= 0):
        bad.append(("scale-factors-not-column-norms", {"h": jl(h), "norms": jl(np.linalg.norm(J, axis=0))}))
    # J against the extrapolated finite differences of pos_to_cart: FD_TOL of the scale, widened by the
    # stencils' own error estimate where the map varies quickly (near the foci of the bipolar systems)
    if exceeds(maxdiff(J, Jn), FD_TOL * scale + real["Jn_err"][k]):
        bad.append(("jacobian-not-derivative-of-pos_to_cart",
                    {"J": jl(J), "numerical": jl(Jn), "stencil_error_estimate": real["Jn_err"][k]}))
    if exceeds(maxdiff(M, np.diag(h ** 2)), 1e-11 * scale ** 2):
        bad.append(("metric-not-diag-h2", jl(M)))
    if exceeds(abs(np.linalg.det(J) - real["vf"][k]), 1e-10 * max(1.0, scale ** d)):
        bad.append(("volume-factor-not-det-jacobian", {"det": float(np.linalg.det(J)), "vf": real["vf"][k]}))
    return bad


def leg_coordsys(ctx, P, rng, n_batches):
    systems = ["polar", "cylindrical", "spherical", "bipolar", "bispherical"]
    for ib in range(n_batches):
        sys = systems[ib % len(systems)]
        stream = "pyth" if rng.random() < 0.5 else "float"
        m = rng.choice([1, 1, 2, 3, 5])
        gen = [gen_cs_point(rng, sys, stream) for _ in range(m)]
        a = gen[0][2]
        if sys in ("bipolar", "bispherical"):       # one scale parameter per coordinate system object
            gen = [g for g in gen if g[2] == a] or gen[:1]
            m = len(gen)
        pts = [g[0] for g in gen]
        params = [g[1] for g in gen]
        comps = [[rng.randint(-16, 16) / 4 for _ in range(len(pts[0]))] for _ in range(m)]
        case = {"leg": "coordsys", "sys": sys, "a": a, "stream": stream, "pts": pts,
                "params": [[q(x) for x in p] for p in params], "comps": comps}
        coordsys_case(ctx, P, case)
    for d in (1, 2, 3):
        pts = [[rng.uniform(-3, 3) for _ in range(d)] for _ in range(rng.choice([1, 3]))]
        case = {"leg": "coordsys", "sys": f"cartesian{d}", "a": 1.0, "stream": "float", "pts": pts,
                "params": None, "comps": [[rng.randint(-8, 8) / 2 for _ in range(d)] for _ in pts]}
        coordsys_case(ctx, P, case)


def coordsys_case(ctx, P, case):
    sys = case["sys"]
    try:
        real = cs_real(sys, case["a"], case["pts"], case["comps"])
    except Exception as e:  # an exception of the real code on a valid point
        ctx.monitor_fail("coordsys", case, f"{type(e).__name__}: {e}", "matrices", "coordinate system: exception",
                         key=other_key(sys, f"{sys} coordinates", "exception"))
        return
    m = len(case["pts"])
    offaxis = True
    if case["params"] is not None:
        offaxis = all(unq(x) != 0 for p in case["params"] for x in p[1:])
    ctx.count(case, nontrivial=offaxis, leg="coordsys")
    ctx.hist("coordsys", f"{sys}/{case['stream']}/{'batch' if m > 1 else 'single'}")
    scales = []
    for k in range(m):
        scale = max(1.0, float(np.abs(real["J"][k]).max()), float(np.abs(real["h"][k]).max()))
        scales.append(scale)
        ctx.monitor_evals += 1
        for symptom, detail in cs_monitor(sys, real, k, scale):
            ctx.monitor_fail("coordsys", dict(case, point=k), detail, "orthonormal right-handed basis = "
                             "normalised Jacobian columns", f"coordinate system: {symptom}",
                             key=other_key(sys, f"{sys} coordinates", symptom))
        v = real["v2c"][k]
        exp = np.asarray(case["comps"][k]) @ real["B"][k]
        if maxdiff(v, exp) > 1e-11 * max(1.0, np.abs(exp).max()):
            ctx.monitor_fail("coordsys", dict(case, point=k), jl(v), jl(exp), "coordinate system: vec_to_cart",
                             key=other_key(sys, "CoordinatesBase.vec_to_cart", "not sum_j comp_j * basis row j"))
    if case["params"] is None:
        ctx.impl_traces += 1
        return

    def cont(resp):
        val = model_ok(ctx, resp, "coordsys", case)
        if val is None:
            return
        ctx.impl_traces += 1
        for k in range(m):
            mk = val[k]
            sc = scales[k]
            for name, rk, tolk in (("basis", real["B"][k], TOL * 10), ("jac", real["J"][k], TOL * 10 * sc),
                                   ("metric", real["M"][k], TOL * 10 * sc * sc)):
                if maxdiff(mat_f(mk[name]), rk) > tolk:
                    ctx.disagree("coordsys", dict(case, point=k), {name: jl(mat_f(mk[name]))}, {name: jl(rk)},
                                 f"{sys} {name}")
                    return
            if maxdiff(vec_f(mk["scale"]), real["h"][k]) > TOL * 10 * sc:
                ctx.disagree("coordsys", dict(case, point=k), {"scale": jl(vec_f(mk["scale"]))},
                             {"scale": jl(real["h"][k])}, f"{sys} scale")
                return
            if case["stream"] == "pyth":
                # the model's own statements at an exact point (sanity of the tie with the theorems)
                d = len(mk["basis"])
                eye = [[("1" if i == j else "0") for j in range(d)] for i in range(d)]
                if mk["gram"] != eye or mk["det_basis"] != "1" or mk["jt"] != mk["hb"] or mk["jtj"] != mk["metric"]:
                    ctx.disagree("coordsys", dict(case, point=k), {"gram": mk["gram"], "det": mk["det_basis"]},
                                 "identity, 1", "model contradicts its own theorems at an exact point")
                    return
    P.add("c19.cs", {"sys": sys, "pts": case["params"]}, cont)
    if sys not in ("bipolar", "bispherical"):
        return      # pos_to_cart of the other systems: C12 and the handler c19.postocart (leg convert)

    def cont_pos(resp):
        # the real `pos_to_cart` of the batch against the model's `bipolarToCart` / `bisphToCart` (the maps
        # the theorems of Props/C19Jac.lean differentiate), fed with the same (c,s), (ch,sh) pairs
        val = model_ok(ctx, resp, "coordsys", case)
        if val is None:
            return
        ctx.impl_traces += 1
        ctx.hist("coordsys-postocart", f"{sys}/{case['stream']}", m)
        for k in range(m):
            xm, xr = vec_f(val[k]), real["X"][k]
            sx = max(1.0, float(np.abs(xm).max()))
            if exceeds(maxdiff(xm, xr), TOL * 10 * sx):
                ctx.disagree("coordsys", dict(case, point=k), {"pos_to_cart": jl(xm)}, {"pos_to_cart": jl(xr)},
                             f"{sys} pos_to_cart")
                return
    P.add("c19.bipostocart", {"sys": sys, "pts": case["params"]}, cont_pos)



# ------------------------------------------------------------------------------------------
# leg: GridBase._vector_to_cartesian
def classify_conversion(spec, observed, exp_op, exp_cs, tol):
    """None if the observed conversion is the one the property demands; KNOWN_KEY if it is exactly
    the (r, phi, z) reading on a cylindrical grid; otherwise a distinct key"""
    if maxdiff(observed, exp_op) <= tol:
        return None
    if spec["cls"] == "cylindrical" and exp_cs is not None and maxdiff(observed, exp_cs) <= tol:
        return dict(KNOWN_KEY)
    return other_key(spec, "GridBase._vector_to_cartesian", "components paired with the wrong basis vectors")


def gen_full_points(rng, spec, stream, m):
    """m points in the full coordinates of the grid's coordinate system + their angle data"""
    cls = spec["cls"]
    pts, angs = [], []
    for _ in range(m):
        r = rng.randint(1, 64) / 16
        if cls == "spherical":
            th, ct, st = gen_angle(rng, stream, nonneg_s=True)
        else:
            th, ct, st = 0.0, Fraction(1), Fraction(0)
        ph, cp, sp = gen_angle(rng, stream)
        if cls == "polar":
            pts.append([r, ph])
        elif cls == "cylindrical":
            pts.append([r, ph, rng.randint(-16, 16) / 8])
        else:
            pts.append([r, th, ph])
        angs.append([ct, st, cp, sp])
    return pts, angs


def vtc_real(spec, pts, comps):
    g = build(spec)
    P = np.array(pts, dtype=float)
    C = np.array(comps, dtype=float)           # (m, dim)
    if len(pts) == 1:
        return np.asarray(g._vector_to_cartesian(P[0], C[0]), dtype=float)[None, :]
    return np.asarray(g._vector_to_cartesian(P, C.T), dtype=float).T     # (m, dim)


def vtc_real_extra(spec, pts):
    """`c.pos_to_cart` and `c.basis_rotation` of the grid's coordinate system, point by point"""
    g = build(spec)
    P = np.array(pts, dtype=float)
    pos = [np.asarray(g.c.pos_to_cart(p), dtype=float) for p in P]
    rot = [np.asarray(g.c.basis_rotation(p), dtype=float) for p in P]
    return pos, rot


def vtc_case(ctx, P, case):
    spec = case["spec"]
    cls = spec["cls"]
    d = dim_of(spec)
    comps = case["comps"]
    try:
        obs = vtc_real(spec, case["pts"], comps)
    except Exception as e:
        ctx.monitor_fail("vtc", case, f"{type(e).__name__}: {e}", "converted vectors", "_vector_to_cartesian: exception",
                         key=other_key(spec, "GridBase._vector_to_cartesian", "exception"))
        return
    distinct = all(len({abs(x) for x in c}) == len(c) and all(x != 0 for x in c) for c in comps)
    ctx.count(case, nontrivial=distinct or case.get("kind") == "unit", leg="vtc")
    ctx.hist("vtc", f"{cls}/{case.get('kind', 'random')}/{case.get('stream', '-')}")
    # monitor: component k is the component along the k-th axis of the operators' order
    ctx.monitor_evals += 1
    if cls in OP_ORDER:
        A = np.array([[float(unq(x)) for x in a] for a in case["angs"]]).T      # ct, st, cp, sp rows
        C = np.array(comps, dtype=float).T
        exp_op = expected_cart(cls, OP_ORDER[cls], C, *A).T
        exp_cs = expected_cart(cls, CS_ORDER[cls], C, *A).T
    else:
        exp_op = np.array(comps, dtype=float)
        exp_cs = None
    scale = max(1.0, float(np.abs(np.array(comps)).max()))
    key = classify_conversion(spec, obs, exp_op, exp_cs, 1e-11 * scale)
    if key is not None:
        ctx.monitor_fail("vtc", case, jl(obs), jl(exp_op),
                         "_vector_to_cartesian does not pair component k with the k-th axis of the operators' order",
                         key=key)
    if case["angs"] is None:
        ctx.impl_traces += 1
        return

    def cont(resp):
        val = model_ok(ctx, resp, "vtc", case)
        if val is None:
            return
        ctx.impl_traces += 1
        if exceeds(maxdiff(mat_f(val["code"]), obs), 1e-11 * scale):
            ctx.disagree("vtc", case, jl(mat_f(val["code"])), jl(obs), f"{cls} _vector_to_cartesian")
        elif exceeds(maxdiff(mat_f(val["op"]), exp_op), 1e-11 * scale):
            ctx.disagree("vtc", case, jl(mat_f(val["op"])), jl(exp_op),
                         f"{cls}: the model's contraction by name differs from the harness' closed forms")
    P.add("c19.tocart", {"cls": cls, "n": len(spec["shape"]),
                         "pts": case["angs"], "comps": [[q(x) for x in c] for c in comps]}, cont)

    # `posToCart` of the model (the map whose Jacobian the theorems speak about) vs `c.pos_to_cart`, and the
    # model's tensor rule `B^T T B` vs the same contraction done by numpy with the REAL `c.basis_rotation`
    # (py-pde itself converts no tensors: `Tensor2Field.interpolate_to_grid` raises NotImplementedError)
    try:
        pos, rot = vtc_real_extra(spec, case["pts"])
    except Exception as e:
        ctx.monitor_fail("vtc", case, f"{type(e).__name__}: {e}", "positions and basis matrices",
                         "pos_to_cart / basis_rotation: exception",
                         key=other_key(spec, "CoordinatesBase.pos_to_cart/basis_rotation", "exception"))
        return
    m = len(case["pts"])
    rz = [[p[0], (p[2] if cls == "cylindrical" else 0.0)] for p in case["pts"]]
    rs = np.random.RandomState(case.get("tensor_seed", 0))
    tens = rs.randint(-16, 17, size=(m, d, d)) / 4.0
    rscale = max(1.0, max(abs(x) for p in rz for x in p))

    def cont_pos(resp):
        val = model_ok(ctx, resp, "vtc", case)
        if val is None:
            return
        ctx.impl_traces += 1
        for k in range(m):
            if exceeds(maxdiff(vec_f(val[k]), pos[k]), 1e-11 * rscale):
                ctx.disagree("vtc", dict(case, point=k), jl(vec_f(val[k])), jl(pos[k]), f"{cls} pos_to_cart")
                return
    P.add("c19.postocart", {"cls": cls, "pts": [[q(x) for x in p] + list(a) for p, a in zip(rz, case["angs"])]},
          cont_pos)

    def cont_tensor(resp):
        val = model_ok(ctx, resp, "vtc", case)
        if val is None:
            return
        for k in range(m):
            want = np.einsum("ia,ij,jb->ab", rot[k], tens[k], rot[k])
            if exceeds(maxdiff(mat_f(val["code"][k]), want), 1e-10 * 16):
                ctx.disagree("vtc", dict(case, point=k), jl(mat_f(val["code"][k])), jl(want),
                             f"{cls}: tensorToCartesian of the model vs B^T T B with the real basis_rotation")
                return
    P.add("c19.tocart2", {"cls": cls, "n": len(spec["shape"]), "pts": case["angs"],
                          "tensors": [[[q(float(x)) for x in row] for row in t] for t in tens]}, cont_tensor)


def leg_vtc(ctx, P, rng, n):
    for i in range(n):
        cls = ["polar", "spherical", "cylindrical", "cylindrical", "cartesian", "unit"][i % 6]
        if cls in OP_ORDER:
            spec = gen_curv_grid(rng, cls, 2, 6)
            stream = "pyth" if rng.random() < 0.5 else "float"
            m = rng.choice([1, 2, 4])
            pts, angs = gen_full_points(rng, spec, stream, m)
            d = dim_of(spec)
            if rng.random() < 0.35:
                kind = "unit"
                k = rng.randrange(d)
                comps = [[1.0 if j == k else 0.0 for j in range(d)] for _ in range(m)]
            else:
                kind = "random"
                comps = [rng.sample([x / 4 for x in range(-20, 21) if x != 0], d) for _ in range(m)]
            case = {"leg": "vtc", "spec": spec, "stream": stream, "kind": kind, "pts": pts,
                    "angs": [[q(x) for x in a] for a in angs], "comps": comps,
                    "tensor_seed": rng.randrange(2 ** 31)}
            vtc_case(ctx, P, case)
        else:
            spec = gen_cart_grid(rng, unit=(cls == "unit"))
            d = dim_of(spec)
            m = rng.choice([1, 3])
            pts = [[rng.uniform(-2, 2) for _ in range(d)] for _ in range(m)]
            comps = [rng.sample([x / 4 for x in range(-20, 21) if x != 0], d) for _ in range(m)]
            vtc_case(ctx, P, {"leg": "vtc", "spec": spec, "kind": "random", "pts": pts, "angs": None,
                              "comps": comps})
    # malformed: wrong number of coordinates / components
    for cls in ("polar", "spherical", "cylindrical", "cartesian"):
        spec = gen_curv_grid(rng, cls, 2, 4) if cls in OP_ORDER else gen_cart_grid(rng)
        for what in ("points", "components", "batch"):
            vtc_malformed_case(ctx, P, {"leg": "vtc-malformed", "spec": spec, "wrong": what})


def vtc_malformed_case(ctx, P, case):
    """`_vector_to_cartesian` with a wrong number of coordinates / components / a batch of components whose
    shape does not match the batch of points: the `DimensionError` branch (also the replay of such a case).
    The first two are also put to the model (`vectorToCartesianChecked`); the batch-shape check has no
    counterpart in the pointwise model and is monitored only"""
    from pde.grids.coordinates.base import DimensionError
    spec, what = case["spec"], case["wrong"]
    g = build(spec)
    d = dim_of(spec)
    pts, comps = {"points": (np.ones(d - 1) if d > 1 else np.ones(2), np.ones(d)),
                  "components": (np.ones(d), np.ones(d + 1)),
                  "batch": (np.ones((3, d)), np.ones((d, 2)))}[what]
    ctx.count(case, nontrivial=False, leg="vtc-malformed")
    ctx.monitor_evals += 1
    try:
        g._vector_to_cartesian(pts, comps)
        got = "no-error"
    except DimensionError:
        got = "DimensionError"
    except Exception as e:
        got = type(e).__name__
    ctx.hist("malformed", f"vtc/{what}/{got}")
    if got != "DimensionError":
        ctx.monitor_fail("vtc-malformed", case, got, "DimensionError", "_vector_to_cartesian: wrong shape accepted",
                         key=other_key(spec, "GridBase._vector_to_cartesian", "shape check"))
    if what != "batch":
        def cont(resp):
            val = model_ok(ctx, resp, "vtc-malformed", case)
            if val is None:
                return
            ctx.impl_traces += 1
            if (val == "DimensionError") != (got == "DimensionError"):
                ctx.disagree("vtc-malformed", case, val if isinstance(val, str) else "a vector", got,
                             "_vector_to_cartesian shape checks")
        P.add("c19.tocart_checked", {"cls": spec["cls"], "n": len(spec["shape"]), "ncoords": int(np.size(pts)),
                                     "pt": ["1", "0", "1", "0"], "comps": ["1"] * int(np.size(comps))}, cont)



# ------------------------------------------------------------------------------------------
# leg: component order (axes, axes_symmetric, get_axis_index)
def order_real(spec):
    g = build(spec)
    out = {"cs_axes": list(g.c.axes), "axes": list(g.axes), "axes_sym": list(g.axes_symmetric),
           "sym_idx": list(g._axes_symmetric), "described_idx": list(g._axes_described),
           "dim": g.dim, "num_axes": g.num_axes, "index": {}, "index_nosym": {}}
    for name in ALL_NAMES:
        for allow, store in ((True, "index"), (False, "index_nosym")):
            try:
                out[store][name] = int(g.get_axis_index(name, allow_symmetric=allow))
            except IndexError:
                out[store][name] = None
            except Exception as e:   # any other exception is an outcome of its own (never equal to an index)
                out[store][name] = f"{type(e).__name__}: {e}"
    return out


def order_case(ctx, P, case):
    spec = case["spec"]
    cls = spec["cls"]
    try:
        real = order_real(spec)
    except Exception as e:
        ctx.monitor_fail("order", case, f"{type(e).__name__}: {e}", "axes, axes_symmetric, get_axis_index",
                         "component order: exception in py-pde",
                         key=other_key(spec, "GridBase.axes/axes_symmetric", "exception"))
        return
    ctx.count(case, nontrivial=cls in OP_ORDER, leg="order")
    ctx.hist("order", cls)
    ctx.monitor_evals += 1
    want = order_of(spec)
    got = real["axes"] + real["axes_sym"]
    if got != want:
        ctx.monitor_fail("order", case, got, want, "axes + axes_symmetric is not the operators' order",
                         key=other_key(spec, "GridBase.axes/axes_symmetric", "component order"))
    for name in ALL_NAMES:
        exp = want.index(name) if name in want else None
        if real["index"][name] != exp:
            ctx.monitor_fail("order", dict(case, name=name), real["index"][name], exp,
                             "get_axis_index(name) is not the position of name in the operators' order",
                             key=other_key(spec, "GridBase.get_axis_index", "index of axis name"))

    def cont(resp):
        val = model_ok(ctx, resp, "order", case)
        if val is None:
            return
        ctx.impl_traces += 1
        for k in ("cs_axes", "axes", "axes_sym", "sym_idx", "described_idx", "index", "index_nosym"):
            if val[k] != real[k]:
                ctx.disagree("order", case, {k: val[k]}, {k: real[k]}, f"{cls} {k}")
                return
    P.add("c19.order", {"cls": cls, "n": len(spec["shape"])}, cont)


def leg_order(ctx, P, rng, n):
    for i in range(n):
        cls = ["polar", "spherical", "cylindrical", "cartesian", "unit"][i % 5]
        spec = gen_curv_grid(rng, cls, 1, 5) if cls in OP_ORDER else gen_cart_grid(rng, unit=(cls == "unit"))
        order_case(ctx, P, {"leg": "order", "spec": spec})


# ------------------------------------------------------------------------------------------
# leg: fields (from_expression, access by name, labels, dot/outer)
def gen_poly(rng, names, degree=2):
    """a random polynomial in the grid axes with dyadic coefficients: (expression text, coefficient dict).
    keys: '' (constant), 'r', 'z', 'rr', 'rz', 'zz' (products of axis names)"""
    co = {"": rng.randint(-12, 12) / 4}
    monos = list(names)
    if degree >= 2:
        monos += [a + b for i, a in enumerate(names) for b in names[i:]]
    for mname in monos:
        if rng.random() < 0.7:
            co[mname] = rng.randint(-8, 8) / 8
    co = {k: v for k, v in co.items() if v != 0 or k == ""}
    return poly_text(co), co


def poly_text(co):
    terms = []
    for k, v in co.items():
        terms.append(repr(float(v)) + "".join("*" + ch for ch in k))
    return " + ".join(terms).replace("+ -", "- ")


def poly_eval(co, **vals):
    out = 0.0
    for k, v in co.items():
        t = v
        for ch in k:
            t = t * vals[ch]
        out = out + t
    return out


def grid_axis_values(g):
    """dict axis name -> array of the coordinate over the cells"""
    cc = g.cell_coords
    return {name: cc[..., i] for i, name in enumerate(g.axes)}


def ascii_name(name):
    return {"φ": "phi", "θ": "theta"}.get(name, name)


def fields_case(ctx, P, case):
    import pde
    from pde.grids.coordinates.base import DimensionError
    spec = case["spec"]
    cls = spec["cls"]
    g = build(spec)
    d = g.dim
    want = order_of(spec)
    vals = grid_axis_values(g)
    ctx.count(case, nontrivial=True, leg="fields")
    ctx.hist("fields", f"{cls}/{'x'.join(map(str, spec['shape']))}")
    vco, tco = case["vec"], case["ten"]

    def fail(what, observed, expected, call_site, symptom, extra=None, key=None):
        ctx.monitor_fail("fields", dict(case, **(extra or {})), observed, expected, what,
                         key=key or other_key(spec, call_site, symptom))

    # --- VectorField.from_expression: expression i is component i (the i-th axis of the order)
    try:
        v = pde.VectorField.from_expression(g, [poly_text(c) for c in vco])
        t = pde.Tensor2Field.from_expression(g, [[poly_text(c) for c in row] for row in tco])
    except Exception as e:
        fail("from_expression raised", f"{type(e).__name__}: {e}", "a field", "from_expression", "exception")
        return
    ctx.monitor_evals += 1
    exp_v = np.array([np.broadcast_to(poly_eval(c, **vals), g.shape) for c in vco])
    exp_t = np.array([[np.broadcast_to(poly_eval(c, **vals), g.shape) for c in row] for row in tco])
    sc = max(1.0, float(np.abs(exp_v).max()), float(np.abs(exp_t).max()))
    if maxdiff(v.data, exp_v) > 1e-11 * sc:
        fail("VectorField.from_expression stores expression i as component i", "data differ",
             "expression i evaluated at the cell centres", "VectorField.from_expression", "expression order")
    if maxdiff(t.data, exp_t) > 1e-11 * sc:
        fail("Tensor2Field.from_expression stores expression (i,j) as component (i,j)", "data differ",
             "expression (i,j) evaluated at the cell centres", "Tensor2Field.from_expression", "expression order")
    # --- access by axis name and by index; labels
    cell = tuple(int(x) for x in case["cell"])
    got_v, got_lab, got_t = {}, {}, []
    for name in ALL_NAMES:
        try:
            f = v[name]
            got_v[name] = f.data
            got_lab[name] = f.label
        except IndexError:
            got_v[name] = None
            got_lab[name] = None
    for name in ALL_NAMES:
        k = want.index(name) if name in want else None
        if (got_v[name] is None) != (k is None):
            fail("field[name] exists exactly for the axes of the grid", "IndexError" if got_v[name] is None else "a field",
                 "a field" if k is not None else "IndexError", "VectorField.__getitem__", "axis name accepted/rejected",
                 {"name": name})
            continue
        if k is None:
            continue
        if maxdiff(got_v[name], exp_v[k]) > 1e-11 * sc:
            fail("field[name] is the component the operators treat as name",
                 f"field['{name}'] holds the data of another component", f"component {k}", "VectorField.__getitem__", "wrong component by name",
                 {"name": name})
        if maxdiff(v[k].data, exp_v[k]) > 1e-11 * sc:
            fail("field[k] is component k", "data differ", f"component {k}", "VectorField.__getitem__", "wrong component by index")
        if got_lab[name] != f"{name} component":
            # the literal clause "every part of the package uses one and the same component order": the label
            # must name the axis whose component was returned.  The `c.axes[index]` reading on cylindrical
            # grids is a defect of its own (LABEL_KEY), anything else gets another key
            swapped = cls == "cylindrical" and got_lab[name] == f"{CS_ORDER[cls][k]} component"
            fail("the label of field[name] names the axis asked for", got_lab[name], f"{name} component", "VectorField.__getitem__",
                 "label names another axis", {"name": name}, key=dict(LABEL_KEY) if swapped else None)
    for a in want:
        for b in want:
            try:
                got_t.append([a, b, t[a, b].data])
            except IndexError:
                got_t.append([a, b, None])
    for a, b, dat in got_t:
        i, j = want.index(a), want.index(b)
        if dat is None or maxdiff(dat, exp_t[i, j]) > 1e-11 * sc or maxdiff(t[i, j].data, exp_t[i, j]) > 1e-11 * sc:
            fail("tensor[a, b] is the component (index a, index b)", f"tensor['{a}','{b}'] holds another component",
                 f"component ({i},{j})",
                 "Tensor2Field.__getitem__", "wrong component by name", {"names": [a, b]})
    # --- setitem by name
    w = v.copy()
    nm = want[case["set_axis"] % d]
    w[nm] = 7.5
    expw = exp_v.copy()
    expw[want.index(nm)] = 7.5
    if maxdiff(w.data, expw) > 1e-11 * sc:
        fail("field[name] = value writes the component of name", f"field['{nm}'] = value wrote another component", f"component {want.index(nm)}",
             "VectorField.__setitem__", "wrong component by name")
    t2 = t.copy()
    nm2 = want[(case["set_axis"] + 1) % d]
    t2[nm, nm2] = -2.5
    expt = exp_t.copy()
    expt[want.index(nm), want.index(nm2)] = -2.5
    if maxdiff(t2.data, expt) > 1e-11 * sc:
        fail("tensor[a, b] = value writes component (index a, index b)",
             f"tensor['{nm}','{nm2}'] = value wrote another component",
             f"component ({want.index(nm)},{want.index(nm2)})", "Tensor2Field.__setitem__", "wrong component by name")
    # --- malformed expression counts
    for bad in ([poly_text(vco[0])] * (d - 1), [poly_text(vco[0])] * (d + 1), poly_text(vco[0])):
        try:
            pde.VectorField.from_expression(g, bad)
            got = "no-error"
        except DimensionError:
            got = "DimensionError"
        except Exception as e:
            got = type(e).__name__
        ctx.hist("malformed", f"from_expression/{got}")
        if got != "DimensionError":
            fail("from_expression with a wrong number of expressions", got, "DimensionError",
                 "VectorField.from_expression", "expression count check")
    try:
        pde.Tensor2Field.from_expression(g, [[poly_text(vco[0])] * d] * (d - 1))
        got = "no-error"
    except DimensionError:
        got = "DimensionError"
    except Exception as e:
        got = type(e).__name__
    if got != "DimensionError":
        fail("Tensor2Field.from_expression with a wrong number of rows", got, "DimensionError",
             "Tensor2Field.from_expression", "expression count check")
    try:
        pde.Tensor2Field.from_expression(g, [[poly_text(vco[0])] * (d + 1)] + [[poly_text(vco[0])] * d] * (d - 1))
        got = "no-error"
    except DimensionError:
        got = "DimensionError"
    except Exception as e:
        got = type(e).__name__
    ctx.hist("malformed", f"Tensor2Field.from_expression/row-length/{got}")
    if got != "DimensionError":
        fail("Tensor2Field.from_expression with a row of the wrong length", got, "DimensionError",
             "Tensor2Field.from_expression", "expression count check")
    # --- Tensor2Field.interpolate_to_grid is not implemented (expected error class)
    try:
        t.interpolate_to_grid(pde.CartesianGrid([(0.0, 0.1)] * d, 1))
        got = "no-error"
    except NotImplementedError:
        got = "NotImplementedError"
    except Exception as e:
        got = type(e).__name__
    ctx.hist("malformed", f"Tensor2Field.interpolate_to_grid/{got}")
    if got != "NotImplementedError":
        ctx.note(f"Tensor2Field.interpolate_to_grid no longer raises NotImplementedError ({got}): tensor "
                 "conversion must be added to the convert leg")
        ctx.disagree("fields", case, "NotImplementedError", got, "Tensor2Field.interpolate_to_grid")
    # --- products on dyadic data (exact)
    rs = np.random.RandomState(case["data_seed"])
    u = pde.VectorField(g, rs.randint(-16, 17, size=(d,) + g.shape) / 4.0)
    x = pde.VectorField(g, rs.randint(-16, 17, size=(d,) + g.shape) / 4.0)
    T = pde.Tensor2Field(g, rs.randint(-16, 17, size=(d, d) + g.shape) / 4.0)
    S = pde.Tensor2Field(g, rs.randint(-16, 17, size=(d, d) + g.shape) / 4.0)
    prod = {"vv": u.dot(x).data, "vt": u.dot(T).data, "tv": T.dot(x).data, "tt": T.dot(S).data,
            "outer": u.outer_product(x).data, "trace": T.trace().data}
    alt = {"vv": (u @ x).data, "vt": u.make_dot_operator(backend="numpy")(u.data, T.data),
           "tv": T.make_dot_operator(backend="numpy")(T.data, x.data),
           "tt": (T @ S).data, "outer": u.make_outer_prod_operator(backend="numpy")(u.data, x.data),
           "trace": T.to_scalar("trace").data}
    alt_vv2 = u.make_dot_operator(backend="numpy")(u.data, x.data)
    sq = u.to_scalar("squared_sum").data
    ud, xd, Td, Sd = u.data, x.data, T.data, S.data
    mon = {"vv": sum(ud[i] * xd[i] for i in range(d)),
           "vt": np.array([sum(ud[i] * Td[i, j] for i in range(d)) for j in range(d)]),
           "tv": np.array([sum(Td[i, j] * xd[j] for j in range(d)) for i in range(d)]),
           "tt": np.array([[sum(Td[i, k] * Sd[k, j] for k in range(d)) for j in range(d)] for i in range(d)]),
           "outer": np.array([[ud[i] * xd[j] for j in range(d)] for i in range(d)]),
           "trace": sum(Td[i, i] for i in range(d))}
    ctx.monitor_evals += 1
    sites = {"vv": "VectorField.dot", "vt": "VectorField.dot(Tensor2Field)", "tv": "Tensor2Field.dot(VectorField)",
             "tt": "Tensor2Field.dot(Tensor2Field)", "outer": "VectorField.outer_product", "trace": "Tensor2Field.trace"}
    for k in mon:
        for route, val in (("method", prod[k]), ("operator/@", alt[k])):
            if np.shape(val) != np.shape(mon[k]) or not np.array_equal(np.asarray(val), mon[k]):
                fail(f"{sites[k]} contracts adjacent indices", f"{route}: differs from the explicit sum",
                     "explicit sum over the contracted index", sites[k], "wrong index contracted", {"product": k})
    if not np.array_equal(alt_vv2, mon["vv"]) or not np.array_equal(sq, sum(ud[i] * ud[i] for i in range(d))):
        fail("make_dot_operator / to_scalar('squared_sum')", "differs from the explicit sum", "explicit sum",
             "VectorField.dot", "wrong index contracted")
    # complex data: the second operand is conjugated
    uc = pde.VectorField(g, ud + 1j * xd)
    xc = pde.VectorField(g, xd - 2j * ud)
    if not np.allclose(uc.dot(xc).data, sum(uc.data[i] * np.conj(xc.data[i]) for i in range(d)), rtol=1e-13, atol=0) \
            or not np.allclose(uc.dot(xc, conjugate=False).data, sum(uc.data[i] * xc.data[i] for i in range(d)),
                               rtol=1e-13, atol=0):
        fail("complex dot conjugates the second operand", "differs", "sum u_i conj(v_i)", "VectorField.dot",
             "conjugation")
    # basis independence of the products (with the harness' own unit vectors, contraction by name)
    if cls in OP_ORDER:
        ang = case["angle"]
        ct, st, cp, sp = [np.float64(float(unq(z))) for z in ang]
        e = unit_vectors(cls, ct, st, cp, sp)
        R = np.array([e[nm_] for nm_ in want])             # rows in the order of the components
        uc_ = np.einsum("j...,ji->i...", ud, R)
        xc_ = np.einsum("j...,ji->i...", xd, R)
        Tc_ = np.einsum("ia,ij...,jb->ab...", R, Td, R)
        if maxdiff(np.einsum("i...,i...->...", uc_, xc_), prod["vv"]) > 1e-10 * 64 or \
                maxdiff(np.einsum("ab...,b...->a...", Tc_, xc_), np.einsum("j...,ji->i...", prod["tv"], R)) > 1e-9 * 64:
            fail("dot products are basis independent", "differ after conversion", "equal", "VectorField.dot",
                 "not invariant under the orthonormal change of basis")

    # --- second call site of _vector_to_cartesian: the plot data of 2-d (polar) grids
    if cls == "polar" and spec["shape"][0] >= 2:
        r_in, r_out = radii(spec)
        dr = (r_out - r_in) / spec["shape"][0]
        for comps_, fx, fy, nm_ in ((["r", "0"], lambda X, Y: X, lambda X, Y: Y, "r e_r -> (x, y)"),
                                    (["0", "r"], lambda X, Y: -Y, lambda X, Y: X, "r e_φ -> (-y, x)")):
            dat = pde.VectorField.from_expression(g, comps_).get_vector_data()
            X, Y = np.meshgrid(dat["x"], dat["y"], indexing="ij")
            R = np.hypot(X, Y)
            msk = (R > r_in + dr / 2) & (R < r_out - dr / 2)
            ctx.monitor_evals += 1
            if msk.any() and (maxdiff(dat["data_x"][msk], fx(X, Y)[msk]) > 1e-10 * r_out or
                              maxdiff(dat["data_y"][msk], fy(X, Y)[msk]) > 1e-10 * r_out):
                fail("get_vector_data returns Cartesian components", "differs", nm_, "GridBase.get_vector_data",
                     "plot data not in the Cartesian basis")

    # --- model: component picked by name, labels, products at one cell
    def cont_get(resp):
        val = model_ok(ctx, resp, "fields", case)
        if val is None:
            return
        ctx.impl_traces += 1
        for name in ALL_NAMES:
            mv = val["v"][name]
            rv = None if got_v[name] is None else float(got_v[name][cell])
            if (mv is None) != (rv is None) or (mv is not None and exceeds(abs(fl(mv) - rv), 1e-11 * sc)):
                ctx.disagree("fields", dict(case, name=name), mv, rv, f"{cls} field['{name}']")
                return
        for (a, b, mv), (a2, b2, dat) in zip(val["t"], got_t):
            rv = None if dat is None else float(dat[cell])
            if (a, b) != (a2, b2) or (mv is None) != (rv is None) or \
                    (mv is not None and exceeds(abs(fl(mv) - rv), 1e-11 * sc)):
                ctx.disagree("fields", dict(case, names=[a, b]), mv, rv, f"{cls} tensor['{a}','{b}']")
                return
    P.add("c19.getitem", {"cls": cls, "n": len(spec["shape"]),
                          "comps": [q(float(exp_v[(k,) + cell])) for k in range(d)],
                          "tensor": [[q(float(exp_t[(i, j) + cell])) for j in range(d)] for i in range(d)]}, cont_get)

    def cont_order(resp):
        val = model_ok(ctx, resp, "fields", case)
        if val is None:
            return
        for name in ALL_NAMES:
            ml = val["label"][name]
            rl = got_lab[name]
            if (None if ml is None else f"{ml} component") != rl:
                ctx.disagree("fields", dict(case, name=name), ml, rl, f"{cls} label of field['{name}']")
                return
    P.add("c19.order", {"cls": cls, "n": len(spec["shape"])}, cont_order)

    # `vals[i]` = value of the i-th expression handed to `from_expression` at the cell (evaluated by the
    # harness: the expression language is C15's); the model places them (`fromExpressions`) and picks them
    # by axis name (`getitem`): the composition `from_expression_getitem` speaks about, against the data of
    # the real `from_expression(...)` and of the real `field[name]`
    def cont_expr(resp):
        val = model_ok(ctx, resp, "fields", case)
        if val is None:
            return
        if not isinstance(val, dict) or exceeds(maxdiff(vec_f(val["comps"]), v.data[(slice(None),) + cell]), 1e-11 * sc):
            ctx.disagree("fields", case, val, jl(v.data[(slice(None),) + cell]), f"{cls} from_expression")
            return
        for name in ALL_NAMES:
            mv = val["byname"][name]
            rv = None if got_v[name] is None else float(got_v[name][cell])
            if (mv is None) != (rv is None) or (mv is not None and exceeds(abs(fl(mv) - rv), 1e-11 * sc)):
                ctx.disagree("fields", dict(case, name=name), mv, rv, f"{cls} from_expression(...)['{name}']")
                return
    P.add("c19.fromexpr", {"cls": cls, "n": len(spec["shape"]),
                           "vals": [q(float(exp_v[(k,) + cell])) for k in range(d)]}, cont_expr)
    P.add("c19.fromexpr", {"cls": cls, "n": len(spec["shape"]), "vals": ["1"] * (d + 1)},
          lambda resp: (resp != ("ok", "DimensionError")) and ctx.disagree(
              "fields", case, resp, "DimensionError", "expression count"))

    def cont_expr2(resp):
        val = model_ok(ctx, resp, "fields", case)
        if val is None:
            return
        real_t = t.data[(slice(None), slice(None)) + cell]
        if val == "DimensionError" or exceeds(maxdiff(mat_f(val), real_t), 1e-11 * sc):
            ctx.disagree("fields", case, val, jl(real_t), f"{cls} Tensor2Field.from_expression")
    P.add("c19.fromexpr2", {"cls": cls, "n": len(spec["shape"]),
                            "vals": [[q(float(exp_t[(i, j) + cell])) for j in range(d)] for i in range(d)]}, cont_expr2)
    for bad_vals, what_bad in (([["1"] * d] * (d - 1), "row count"), ([["1"] * (d + 1)] + [["1"] * d] * (d - 1), "row length")):
        P.add("c19.fromexpr2", {"cls": cls, "n": len(spec["shape"]), "vals": bad_vals},
              lambda resp, what_bad=what_bad: (resp != ("ok", "DimensionError")) and ctx.disagree(
                  "fields", case, resp, "DimensionError", f"tensor expression {what_bad}"))

    def cont_prod(resp):
        val = model_ok(ctx, resp, "fields", case)
        if val is None:
            return
        ctx.impl_traces += 1
        mk = val[0]
        pairs = (("vv", [mk["vv"]], [prod["vv"][cell]]), ("vt", mk["vt"], prod["vt"][(slice(None),) + cell]),
                 ("tv", mk["tv"], prod["tv"][(slice(None),) + cell]),
                 ("tt", sum(mk["tt"], []), np.ravel(prod["tt"][(slice(None), slice(None)) + cell])),
                 ("outer", sum(mk["outer"], []), np.ravel(prod["outer"][(slice(None), slice(None)) + cell])),
                 ("trace", [mk["trace"]], [prod["trace"][cell]]))
        for k, mv, rv in pairs:
            if [unq(z) for z in mv] != [Fraction(float(z)) for z in rv]:       # exact: dyadic data
                ctx.disagree("fields", dict(case, product=k), mv, jl(rv), f"{cls} {sites[k]}")
                return
    P.add("c19.products", {"u": [[q(float(ud[(k,) + cell])) for k in range(d)]],
                           "v": [[q(float(xd[(k,) + cell])) for k in range(d)]],
                           "T": [[[q(float(Td[(i, j) + cell])) for j in range(d)] for i in range(d)]],
                           "S": [[[q(float(Sd[(i, j) + cell])) for j in range(d)] for i in range(d)]]}, cont_prod)


def gen_fields_case(rng, cls):
    spec = gen_curv_grid(rng, cls, 1, 6) if cls in OP_ORDER else gen_cart_grid(rng, unit=(cls == "unit"))
    d = dim_of(spec)
    names = order_of(spec)[:len(spec["shape"])] if cls not in OP_ORDER else (["r", "z"] if cls == "cylindrical" else ["r"])
    vec = [gen_poly(rng, names)[1] for _ in range(d)]
    for k, c in enumerate(vec):                      # distinct constants make every component different
        c[""] = (k + 1) * 1.25 * rng.choice([1, -1])
    ten = [[gen_poly(rng, names, 1)[1] for _ in range(d)] for _ in range(d)]
    for i in range(d):
        for j in range(d):
            ten[i][j][""] = (3 * i + j + 1) * 0.75
    _, _, cp, sp = 0, 0, *pyth_pair(rng)
    ct, st = pyth_pair(rng, nonneg_s=True)
    return {"leg": "fields", "spec": spec, "vec": vec, "ten": ten,
            "cell": [rng.randrange(n) for n in spec["shape"]], "set_axis": rng.randrange(3),
            "data_seed": rng.randrange(2 ** 31), "angle": [q(ct), q(st), q(cp), q(sp)]}


def fields_case_guarded(ctx, P, case):
    """`fields_case`; an exception raised inside py-pde on these valid inputs is a monitor failure with the
    case as failing input (an exception of the harness itself still aborts the check)"""
    try:
        fields_case(ctx, P, case)
    except Exception as e:
        if "harness" in type(e).__module__:
            raise
        import traceback
        tb = traceback.extract_tb(e.__traceback__)
        in_repo = any("/pde/" in f.filename for f in tb)
        if not in_repo:
            raise
        where = next((f"{f.filename.split('/pde/')[-1]}:{f.lineno}" for f in reversed(tb) if "/pde/" in f.filename), "?")
        ctx.monitor_fail("fields", case, f"{type(e).__name__}: {e} (pde/{where})", "no exception",
                         "fields: exception in py-pde", key=other_key(case["spec"], "fields", "exception"))


def leg_fields(ctx, P, rng, n):
    for i in range(n):
        cls = ["polar", "spherical", "cylindrical", "cylindrical", "cartesian", "unit"][i % 6]
        fields_case_guarded(ctx, P, gen_fields_case(rng, cls))



# ------------------------------------------------------------------------------------------
# leg: convert (VectorField.interpolate_to_grid to a Cartesian grid) - runs in subprocesses
def cart_centres(cart):
    axes = [lo + (np.arange(n) + 0.5) * (hi - lo) / n for (lo, hi), n in zip(cart["bounds"], cart["shape"])]
    return np.stack(np.meshgrid(*axes, indexing="ij"), axis=-1)


def point_data(cls, X):
    """radius, z and the angle data (ct, st, cp, sp) of Cartesian points X[..., dim] (harness' own)"""
    x, y = X[..., 0], X[..., 1]
    rho = np.hypot(x, y)
    safe = np.where(rho > 0, rho, 1.0)
    cp = np.where(rho > 0, x / safe, 1.0)
    sp = np.where(rho > 0, y / safe, 0.0)
    if cls == "spherical":
        z = X[..., 2]
        r = np.sqrt(x * x + y * y + z * z)
        rs = np.where(r > 0, r, 1.0)
        return r, z, np.where(r > 0, z / rs, 1.0), np.where(r > 0, rho / rs, 0.0), cp, sp
    z = X[..., 2] if cls == "cylindrical" else np.zeros_like(x)
    return rho, z, np.ones_like(x), np.zeros_like(x), cp, sp


def gen_cart_box(rng, spec, margin, shape_choices, tries=400, rho_min=0.0, max_dx=None):
    """a Cartesian grid whose cell centres lie inside the curvilinear grid, `margin` cells away from its
    boundaries (rejection sampling); None if none was found"""
    cls = spec["cls"]
    d = dim_of(spec)
    r_in, r_out = radii(spec)
    dr = (r_out - r_in) / spec["shape"][0]
    lo_r, hi_r = r_in + margin * dr, r_out - margin * dr
    if cls == "cylindrical":
        z0, z1 = spec["bounds_z"]
        dz = (z1 - z0) / spec["shape"][1]
        lo_z, hi_z = z0 + margin * dz, z1 - margin * dz
    for _ in range(tries):
        shape = [rng.choice(shape_choices) for _ in range(d)]
        bounds = []
        nplane = 3 if cls == "spherical" else 2
        for k in range(nplane):
            c = rng.uniform(-r_out, r_out)
            w = rng.uniform(0.15, 1.0) * r_out
            bounds.append([round(c - w / 2, 3), round(c + w / 2, 3)])
        if cls == "cylindrical":
            a, b = sorted(rng.uniform(lo_z, hi_z) for _ in range(2))
            if b - a < 0.2 * (hi_z - lo_z):
                continue
            bounds.append([round(a, 3) + 0.001, round(b, 3) - 0.001])
        cart = {"cls": "cartesian", "bounds": bounds, "shape": shape}
        if max_dx is not None and any((b[1] - b[0]) / n > max_dx for b, n in zip(bounds, shape)):
            continue
        X = cart_centres(cart)
        r, z = point_data(cls, X)[:2]
        if r.min() < lo_r or r.max() > hi_r or r.min() <= 0:
            continue
        if rho_min > 0 and np.hypot(X[..., 0], X[..., 1]).min() < rho_min:
            continue
        if cls == "cylindrical" and (z.min() < lo_z or z.max() > hi_z):
            continue
        return cart
    return None


def field_data(spec, comps, g):
    vals = grid_axis_values(g)
    return np.array([np.broadcast_to(poly_eval(c, **vals), g.shape) for c in comps], dtype=float)


def make_vector(spec, comps, route, g):
    import pde
    if route == "expr":
        return pde.VectorField.from_expression(g, [poly_text(c) for c in comps])
    return pde.VectorField(g, field_data(spec, comps, g))


def convert_worker(case):
    """real code: interpolate a vector field of a curvilinear grid to a Cartesian grid"""
    import pde
    g = build(case["spec"])
    cart = build(case["cart"])
    v = make_vector(case["spec"], case["comps"], case["route"], g)
    res = v.interpolate_to_grid(cart)
    pts = g.c.pos_from_cart(cart.cell_coords)
    data_grid = v.interpolate(g._coords_symmetric(pts))
    return {"data": np.asarray(res.data, dtype=float), "grid_data": np.asarray(data_grid, dtype=float),
            "cell_coords": np.asarray(cart.cell_coords, dtype=float), "result_grid": type(res.grid).__name__,
            "result_type": type(res).__name__}


def interp_bound(spec, comps):
    """rigorous bound of the (bi)linear interpolation error of the polynomial components, summed"""
    r_in, r_out = radii(spec)
    dr = (r_out - r_in) / spec["shape"][0]
    dz = 0.0
    if spec["cls"] == "cylindrical":
        dz = (spec["bounds_z"][1] - spec["bounds_z"][0]) / spec["shape"][1]
    return sum(dr * dr / 4 * abs(c.get("rr", 0.0)) + dz * dz / 4 * abs(c.get("zz", 0.0)) for c in comps)


def convert_eval(ctx, P, case, out):
    spec = case["spec"]
    cls = spec["cls"]
    d = dim_of(spec)
    if isinstance(out, str):
        ctx.monitor_fail("convert", case, out[-600:], "a converted field", "interpolate_to_grid: exception",
                         key=other_key(spec, "VectorField.interpolate_to_grid", "exception"))
        return
    X = out["cell_coords"]
    r, z, ct, st, cp, sp = point_data(cls, X)
    comps = case["comps"]
    f = [np.broadcast_to(poly_eval(c, r=r, z=z), r.shape) for c in comps]
    exp_op = expected_cart(cls, OP_ORDER[cls], f, ct, st, cp, sp)
    exp_cs = expected_cart(cls, CS_ORDER[cls], f, ct, st, cp, sp)
    scale = max(1.0, float(np.abs(np.array(f)).max()))
    tol = 1.05 * interp_bound(spec, comps) + 1e-10 * scale
    nonzero = sum(1 for c in comps if any(v != 0 for v in c.values()))
    ctx.count(case, nontrivial=(nonzero >= 1), leg="convert")
    ctx.hist("convert", f"{cls}/{case['kind'].split(':')[0]}/{case['route']}/{case['mode']}")
    ctx.hist("convert-hole", f"{cls}/{'hole' if radii(spec)[0] > 0 else 'full'}")
    ctx.monitor_evals += 1
    obs = out["data"]
    if out["result_type"] != "VectorField" or obs.shape != exp_op.shape:
        ctx.monitor_fail("convert", case, [out["result_type"], list(obs.shape)], ["VectorField", list(exp_op.shape)],
                         "interpolate_to_grid: result type/shape", key=other_key(spec, "VectorField.interpolate_to_grid", "result shape"))
        return
    key = classify_conversion(spec, obs, exp_op, exp_cs, tol)
    if key is not None:
        worst = np.unravel_index(np.argmax(np.nan_to_num(np.abs(obs - exp_op), nan=np.inf).max(axis=0)), obs.shape[1:])
        ctx.monitor_fail("convert", case,
                         {"at_cartesian_point": jl(X[worst]), "converted": jl(obs[(slice(None),) + worst])},
                         {"expected": jl(exp_op[(slice(None),) + worst]), "tolerance": tol},
                         "interpolate_to_grid(CartesianGrid): the field is not converted to sum_k f_k e_k with k "
                         "in the operators' order", key=key)
    # correspondence: the model converts the grid-basis values the real interpolator returned
    gd = out["grid_data"]
    n = int(np.prod(gd.shape[1:]))
    gdf = gd.reshape(d, n).T
    obsf = obs.reshape(d, n).T
    idx = list(range(n)) if n <= 12 else sorted(random_subset(case, n, 12))
    angs = np.stack([np.ravel(a) for a in (ct, st, cp, sp)], axis=1)

    def cont(resp):
        val = model_ok(ctx, resp, "convert", case)
        if val is None:
            return
        ctx.impl_traces += 1
        m = mat_f(val["code"])
        if exceeds(maxdiff(m, obsf[idx]), 1e-11 * scale):
            k = int(np.argmax(np.nan_to_num(np.abs(m - obsf[idx]), nan=np.inf).max(axis=1)))
            ctx.disagree("convert", dict(case, point=jl(np.ravel(X.reshape(n, d)[idx[k]]))), jl(m[k]), jl(obsf[idx[k]]),
                         f"{cls} interpolate_to_grid vs model conversion of the interpolated grid components")
    P.add("c19.tocart", {"cls": cls, "n": len(spec["shape"]),
                         "pts": [[q(float(x)) for x in angs[i]] for i in idx],
                         "comps": [[q(float(x)) for x in gdf[i]] for i in idx]}, cont)


def random_subset(case, n, k):
    import random
    return random.Random(repr(sorted(case["cart"]["bounds"])) + str(n)).sample(range(n), k)


def gen_convert_case(rng, cls, mode):
    hole = rng.random() < 0.5
    spec = gen_curv_grid(rng, cls, 8, 20, hole=hole)
    order = OP_ORDER[cls]
    d = len(order)
    names = ["r", "z"] if cls == "cylindrical" else ["r"]
    kinds = [f"unit:{nm}" for nm in order] + ["radial", "position", "rotation", "affine", "affine", "quadratic", "quadratic"]
    if cls == "cylindrical":
        kinds += ["unit:z", "unit:z"]
    kind = rng.choice(kinds)
    zero = lambda: {"": 0.0}
    comps = [zero() for _ in range(d)]
    margin = 0.5
    if kind.startswith("unit:"):
        comps[order.index(kind[5:])] = {"": 1.0}
        margin = 0.0
    elif kind == "radial":
        comps[0] = {"": 0.0, "r": 1.0}
    elif kind == "position":
        comps[0] = {"": 0.0, "r": 1.0}
        if cls == "cylindrical":
            comps[order.index("z")] = {"": 0.0, "z": 1.0}
    elif kind == "rotation":
        comps[order.index("φ")] = {"": 0.0, "r": 1.0}
    else:
        deg = 1 if kind == "affine" else 2
        comps = [gen_poly(rng, names, deg)[1] for _ in range(d)]
        for k, c in enumerate(comps):
            c[""] = (k + 1) * 1.5 * rng.choice([1, -1])
    shape_choices = [1, 2, 3, 4] if d == 3 else [1, 2, 3, 5, 6]
    cart = gen_cart_box(rng, spec, margin, shape_choices)
    if cart is None:
        return None
    return {"leg": "convert", "spec": spec, "cart": cart, "kind": kind, "comps": comps,
            "route": rng.choice(["expr", "data"]), "mode": mode}


# ------------------------------------------------------------------------------------------
# leg: commute (conversion vs divergence / gradient; operator order probes) - subprocesses
def poly_diff(co, var):
    out = {}
    for k, v in co.items():
        n = k.count(var)
        if n:
            kk = k.replace(var, "", 1)
            out[kk] = out.get(kk, 0.0) + n * v
    return out or {"": 0.0}


BC = "auto_periodic_neumann"


def _q(a, b=None):
    return {"": 0.0, a: 1.0} if b is None else {"": 0.0, a: 1.0, b: 1.0}


def operator_probes(cls):
    """probes of the remaining differential operators (vector gradient, vector Laplacian, tensor divergence):
    (operator, input entries by axis NAME, expected non-zero entries of the result by axis name), from the
    continuum formulas of tensor calculus in cylindrical / polar / spherical coordinates for axisymmetric
    fields, with `(grad v)[a, b] = nabla_b v_a` and `(div T)_a = nabla_b T_ab` (py-pde's conventions).  All
    inputs are polynomials of degree <= 2, for which the central differences are exact in interior cells.
    An operator that read component k as another axis than the k-th of the order gives other entries."""
    R, R2, R2x2 = _q("r"), _q("rr"), {"": 0.0, "r": 2.0}
    Rm = {"": 0.0, "r": -1.0}
    c = lambda v: {"": float(v)}
    if cls == "cylindrical":
        return [
            ("vgrad", {"r": R2}, {"r,r": R2x2, "φ,φ": R}),
            ("vgrad", {"z": _q("rr", "zz")}, {"z,r": R2x2, "z,z": {"": 0.0, "z": 2.0}}),
            ("vgrad", {"φ": R2}, {"φ,r": R2x2, "r,φ": Rm}),
            ("vlap", {"r": R2}, {"r": c(3)}),
            ("vlap", {"z": _q("rr", "zz")}, {"z": c(6)}),
            ("vlap", {"φ": R2}, {"φ": c(3)}),
            ("tdiv", {"z,z": _q("z")}, {"z": c(1)}),
            ("tdiv", {"φ,φ": R}, {"r": c(-1)}),
            ("tdiv", {"r,φ": R}, {"φ": c(1)}),
            ("tdiv", {"z,r": R}, {"z": c(2)}),
            ("tdiv", {"r,z": _q("z")}, {"r": c(1)}),
        ]
    if cls == "polar":
        return [
            ("vgrad", {"r": R2}, {"r,r": R2x2, "φ,φ": R}),
            ("vgrad", {"φ": R2}, {"φ,r": R2x2, "r,φ": Rm}),
            ("tdiv", {"r,r": R}, {"r": c(2)}),
            ("tdiv", {"φ,φ": R}, {"r": c(-1)}),
            ("tdiv", {"r,φ": R}, {"φ": c(1)}),
            ("tdiv", {"φ,r": R}, {"φ": c(2)}),
        ]
    # spherical grids: the operators only accept fields whose result is spherically symmetric
    return [
        ("vgrad", {"r": R2}, {"r,r": R2x2, "θ,θ": R, "φ,φ": R}),
        ("tdiv", {"r,r": R}, {"r": c(3)}),
        ("tdiv", {"θ,θ": R, "φ,φ": R}, {"r": c(-2)}),
    ]


def probe_arrays(spec, entries, rank, g):
    """data array of a vector / tensor field whose entries (by axis name) are the given polynomials"""
    order = OP_ORDER[spec["cls"]]
    d = len(order)
    vals = grid_axis_values(g)
    data = np.zeros((d,) * rank + tuple(g.shape))
    for names, co in entries.items():
        idx = tuple(order.index(nm) for nm in names.split(","))
        data[idx] = np.broadcast_to(poly_eval(co, **{k: v for k, v in vals.items()}), g.shape)
    return data


def commute_worker(case):
    import pde
    g = build(case["spec"])
    kind = case["kind"]
    if kind == "op-order":
        res = {}
        for k, comps in enumerate(case["probes"]):
            v = pde.VectorField(g, field_data(case["spec"], comps, g))
            res[f"div{k}"] = np.asarray(v.divergence(BC).data, dtype=float)
        s = pde.ScalarField(g, field_data(case["spec"], [case["scalar"]], g)[0])
        res["grad"] = np.asarray(s.gradient(BC).data, dtype=float)
        res["cell_coords"] = np.asarray(g.cell_coords, dtype=float)
        if case.get("ext"):
            for i, (op, inp, _) in enumerate(operator_probes(case["spec"]["cls"])):
                try:
                    if op == "tdiv":
                        out = pde.Tensor2Field(g, probe_arrays(case["spec"], inp, 2, g)).divergence(BC).data
                    else:
                        v = pde.VectorField(g, probe_arrays(case["spec"], inp, 1, g))
                        out = (v.gradient(BC) if op == "vgrad" else v.laplace(BC)).data
                    res[f"probe{i}"] = np.asarray(out, dtype=float)
                except Exception as e:      # reported by the monitor with the probe as failing input
                    import traceback
                    res[f"probe{i}"] = "EXC: " + traceback.format_exc()[-600:]
        return res
    cart = build(case["cart"])
    if kind == "div":
        v = make_vector(case["spec"], case["comps"], case["route"], g)
        d1 = v.divergence(BC).interpolate_to_grid(cart).data
        d2 = v.interpolate_to_grid(cart).divergence(BC).data
        return {"first_operator": np.asarray(d1, dtype=float), "first_conversion": np.asarray(d2, dtype=float),
                "cell_coords": np.asarray(cart.cell_coords, dtype=float)}
    if kind == "grad":
        s = pde.ScalarField(g, field_data(case["spec"], [case["scalar"]], g)[0])
        g1 = s.gradient(BC).interpolate_to_grid(cart).data
        g2 = s.interpolate_to_grid(cart).gradient(BC).data
        return {"first_operator": np.asarray(g1, dtype=float), "first_conversion": np.asarray(g2, dtype=float),
                "cell_coords": np.asarray(cart.cell_coords, dtype=float)}
    raise ValueError(kind)


# tolerance of "commutes up to discretisation error":  COMMUTE_TOL * S + COMMUTE_ABS * H2 * D3  with
#   S  = max over the points of  sum over ALL components k of |d_r f_k| + |d_z f_k| + |f_k| / rho
#        (size of the first derivatives of the Cartesian components; rho = distance from the axis, where the
#        unit vectors e_r, e_phi are singular)
#   D3 = max of  sum_k |f_k| / rho^3 + |grad f_k| / rho^2 + |grad grad f_k| / rho   (size of their third
#        derivatives: the truncation error of the central differences on the Cartesian grid is dx^2/6 times
#        those; the polynomials have degree <= 2)
#   H2 = max dx_i^2 + dr^2 (+ dz^2)
# measured on the unchanged tree (notes/C19.md, 12,000 generated cases, source semantics): the largest
# deviation is 0.28 of the tolerance (99th percentile 0.16); the generator redraws the coefficients until every
# wrong reading of the component order deviates by more than 3 x the tolerance (reached in > 99.9 % of the
# cases; a case counts as non-trivial if the factor is > 2)
COMMUTE_TOL = 0.04
COMMUTE_ABS = 1.0
PROBE_TOL = 1e-9


def interior(a, d):
    return a[(Ellipsis,) + (slice(1, -1),) * d]


def field_scales(named_polys, r, z, rho):
    """(S, D3) of a field with the polynomial grid components [(axis name, polynomial in r, z)]:
    sizes of the first and of the third derivatives of its Cartesian components (see above).  The unit
    vectors e_r, e_phi, e_theta vary like 1/rho, e_z is constant: a z-component only contributes through
    its dependence on r"""
    S = D3 = 0.0
    ev = lambda c: np.abs(poly_eval(c, r=r, z=z) + 0 * r)
    for name, co in named_polys:
        cr, cz = poly_diff(co, "r"), poly_diff(co, "z")
        v, vr, vz = ev(co), ev(cr), ev(cz)
        vrr, vrz, vzz = ev(poly_diff(cr, "r")), ev(poly_diff(cr, "z")), ev(poly_diff(cz, "z"))
        if name == "z":
            S = S + vr + vz
            D3 = D3 + vr / rho ** 2 + (vrr + vrz) / rho
        else:
            S = S + vr + vz + v / rho
            D3 = D3 + v / rho ** 3 + (vr + vz) / rho ** 2 + (vrr + vrz + vzz) / rho
    return float(np.max(S)), float(np.max(D3))


def mesh_h2(case):
    spec = case["spec"]
    r_in, r_out = radii(spec)
    h2 = ((r_out - r_in) / spec["shape"][0]) ** 2
    if spec["cls"] == "cylindrical":
        h2 += ((spec["bounds_z"][1] - spec["bounds_z"][0]) / spec["shape"][1]) ** 2
    return h2 + max((b[1] - b[0]) / n for b, n in zip(case["cart"]["bounds"], case["cart"]["shape"])) ** 2


def commute_reference(case, X):
    """continuum values at the Cartesian points X for every reading of the component order:
    exact (the operators' order), known (the (r, phi, z) reading, cylindrical grids only), wrong (every other
    reading that moves a component the operator differentiates), and the tolerance"""
    spec = case["spec"]
    cls = spec["cls"]
    order = OP_ORDER[cls]
    d = len(order)
    r, z, ct, st, cp, sp = point_data(cls, X)
    rho = np.hypot(X[..., 0], X[..., 1])
    ev = lambda c: np.broadcast_to(poly_eval(c, r=r, z=z), r.shape) + 0.0
    if case["kind"] == "div":
        comps = case["comps"]

        def value(reading):          # reading[k] = name of the axis component k is read along
            out = np.zeros_like(r)
            for k, nm in enumerate(reading):
                if nm == "r":
                    out = out + ev(poly_diff(comps[k], "r")) + (2.0 if cls == "spherical" else 1.0) * ev(comps[k]) / r
                elif nm == "z":
                    out = out + ev(poly_diff(comps[k], "z"))
            return out
        polys = list(zip(order, comps))
    else:
        sc = case["scalar"]
        f = [ev(poly_diff(sc, nm)) if nm in ("r", "z") else np.zeros_like(r) for nm in order]

        def value(reading):
            return expected_cart(cls, list(reading), f, ct, st, cp, sp)
        polys = [(nm, poly_diff(sc, nm)) for nm in order if nm in ("r", "z")]
    exact = value(order)
    known = value(CS_ORDER[cls]) if cls == "cylindrical" else None
    moved = [k for k, nm in enumerate(order) if nm in ("r", "z")]
    wrong = [value(p) for p in itertools.permutations(order) if any(p[k] != order[k] for k in moved)]
    S, D3 = field_scales(polys, r, z, rho)
    tol = COMMUTE_TOL * max(S, 1e-3) + COMMUTE_ABS * mesh_h2(case) * D3
    sep = min(maxdiff(w, exact) for w in wrong)
    return {"exact": exact, "known": known, "tol": tol, "scale": S, "separation": sep}


def probes_eval(ctx, case, out):
    """the remaining operators treat component k as the k-th axis of the order"""
    spec = case["spec"]
    cls = spec["cls"]
    order = OP_ORDER[cls]
    cc = out["cell_coords"]
    r = cc[..., 0]
    z = cc[..., 1] if cls == "cylindrical" else np.zeros_like(r)
    inner = (slice(1, -1),) * len(spec["shape"])
    names = {"vgrad": "vector gradient", "vlap": "vector Laplacian", "tdiv": "tensor divergence"}
    for i, (op, inp, exp) in enumerate(operator_probes(cls)):
        got = out.get(f"probe{i}")
        ctx.monitor_evals += 1
        ctx.hist("operator-probes", f"{cls}/{op}")
        pcase = dict(case, probe={"operator": op, "input": inp, "expected": exp})
        if isinstance(got, str):
            ctx.monitor_fail("commute", pcase, got[-400:], "a field", f"operator probe: exception in py-pde ({names[op]})",
                             key=other_key(spec, f"{names[op]} operator", "exception"))
            continue
        want = np.zeros_like(got)
        for nm, co in exp.items():
            idx = tuple(order.index(a) for a in nm.split(","))
            want[idx] = np.broadcast_to(poly_eval(co, r=r, z=z), r.shape)
        gi, wi = got[(Ellipsis,) + inner], want[(Ellipsis,) + inner]
        if got.shape != want.shape or exceeds(maxdiff(gi, wi), PROBE_TOL * max(1.0, float(np.abs(wi).max()))):
            if got.shape == want.shape:
                rank = gi.ndim - len(spec["shape"])
                amp = np.abs(gi).reshape(gi.shape[:rank] + (-1,)).max(axis=-1)
                nz = sorted(",".join(order[j] for j in ix) for ix in zip(*np.nonzero(np.nan_to_num(amp, nan=1.0) > 1e-6)))
            else:
                nz = list(got.shape)
            ctx.monitor_fail("commute", pcase, {"non-zero entries of the result": nz, "max_deviation": maxdiff(gi, wi)},
                             {"non-zero entries": sorted(exp)},
                             f"the {names[op]} operator does not treat component k as the k-th axis of the order",
                             key=other_key(spec, f"{names[op]} operator", "component order of the operator"))


def commute_eval(ctx, case, out):
    spec = case["spec"]
    cls = spec["cls"]
    d = dim_of(spec)
    order = OP_ORDER[cls]
    if isinstance(out, str):
        ctx.monitor_fail("commute", case, out[-600:], "fields", f"commute: exception in py-pde ({case['kind']})",
                         key=other_key(spec, "operators/interpolate_to_grid", "exception"))
        return
    ctx.hist("commute", f"{cls}/{case['kind']}/{case['mode']}")
    ctx.monitor_evals += 1
    ctx.impl_traces += 1
    if case["kind"] == "op-order":
        ctx.count(case, nontrivial=True, leg="commute")
        cc = out["cell_coords"]
        r = cc[..., 0]
        z = cc[..., 1] if cls == "cylindrical" else np.zeros_like(r)
        inner = (slice(1, -1),) * len(spec["shape"])
        for k, name in enumerate(order):
            if cls == "spherical" and name == "θ":
                continue
            exp = {"r": {"polar": 2.0, "cylindrical": 2.0, "spherical": 3.0}[cls], "z": 1.0, "φ": 0.0}[name]
            got = out[f"div{k}"][inner]
            if exceeds(maxdiff(got, np.full_like(got, exp)), PROBE_TOL * 4):
                ctx.monitor_fail("commute", dict(case, component=k), float(got.mean()), exp,
                                 "the divergence operator does not treat component k as the k-th axis of the order",
                                 key=other_key(spec, "divergence operator", "component order of the operator"))
        sc = case["scalar"]
        for k, name in enumerate(order):
            exp = poly_eval(poly_diff(sc, name), r=r, z=z) if name in ("r", "z") else 0.0
            exp = np.broadcast_to(exp, r.shape)[inner]
            got = out["grad"][k][inner]
            if exceeds(maxdiff(got, exp), PROBE_TOL * max(1.0, float(np.abs(exp).max()))):
                ctx.monitor_fail("commute", dict(case, component=k), jl(got)[:3], jl(exp)[:3],
                                 "the gradient operator does not store d/d(axis k) as component k",
                                 key=other_key(spec, "gradient operator", "component order of the operator"))
        if case.get("ext"):
            probes_eval(ctx, case, out)
        return
    X = interior(np.moveaxis(out["cell_coords"], -1, 0), d)
    X = np.moveaxis(X, 0, -1)
    a = interior(out["first_operator"], d)
    b = interior(out["first_conversion"], d)
    ref = commute_reference(case, X)
    exact, known, tol, scale = ref["exact"], ref["known"], ref["tol"], ref["scale"]
    # non-trivial: every wrong reading of the component order would deviate by more than twice the tolerance
    ctx.count(case, nontrivial=bool(ref["separation"] > 2 * tol), leg="commute")
    ctx.hist("commute-separation", "wrong order deviates by %s x tolerance" % (
        "<1" if ref["separation"] < tol else "1-2" if ref["separation"] < 2 * tol else "2-5"
        if ref["separation"] < 5 * tol else ">5"))
    bucket = lambda e: "%.1f" % min(math.ceil(10 * e / tol) / 10, 9.9) if math.isfinite(e) else "nan"
    what = "divergence" if case["kind"] == "div" else "gradient"
    # (1) the operator applied on the grid, then converted (scalar: plain interpolation)
    if case["kind"] == "div":
        ctx.hist("commute-error/tolerance", "first_operator <= " + bucket(maxdiff(a, exact)))
        if exceeds(maxdiff(a, exact), tol):
            ctx.monitor_fail("commute", case, {"max_error": maxdiff(a, exact)}, {"tolerance": tol},
                             "divergence on the grid deviates from the continuum divergence in the operators' order",
                             key=other_key(spec, "divergence operator", "not the divergence of (f_k) in the operators' order"))
    # (2) converting commutes with the operator
    pairs = [("first_conversion", b)] + ([("first_operator", a)] if case["kind"] == "grad" else [])
    for nm, arr in pairs:
        dev = maxdiff(arr, exact)
        if dev <= tol:
            ctx.hist("commute-error/tolerance", f"{nm} <= " + bucket(dev))
            continue
        if known is not None and maxdiff(arr, known) <= tol:
            ctx.hist("commute-error/tolerance", f"{nm} (r,phi,z reading) <= " + bucket(maxdiff(arr, known)))
            key = dict(KNOWN_KEY)
        else:
            key = other_key(spec, "VectorField.interpolate_to_grid", f"conversion does not commute with {what}")
        ctx.monitor_fail("commute", dict(case, route_order=nm), {"max_deviation": dev, "scale": scale},
                         {"tolerance": tol}, f"conversion to Cartesian does not commute with the {what}", key=key)


def gen_commute_case(rng, cls, mode, kind):
    hole = rng.random() < 0.5
    spec = gen_curv_grid(rng, cls, 24, 32, hole=hole)
    order = OP_ORDER[cls]
    d = len(order)
    c8 = lambda lo=1, hi=8: rng.randint(lo, hi) / 8 * rng.choice([1, -1])
    if kind == "op-order":
        probes = []
        for k, name in enumerate(order):
            comps = [{"": 0.0} for _ in range(d)]
            comps[k] = {"": 0.0, "r": 1.0} if name == "r" else {"": 0.0, "z": 1.0} if name == "z" else \
                ({"": 0.5, "r": 1.0, "z": 1.0} if cls == "cylindrical" else {"": 0.5, "r": 1.0})
            if cls == "spherical" and name == "θ":
                comps[k] = {"": 0.0}
            probes.append(comps)
        scalar = {"": 1.0, "rr": c8(2, 8)}
        if cls == "cylindrical":
            scalar["z"] = c8(8, 24)
        # ext: also probe vector gradient, vector Laplacian and tensor divergence (`operator_probes`)
        return {"leg": "commute", "kind": kind, "spec": spec, "probes": probes, "scalar": scalar, "mode": mode,
                "ext": True}
    # boxes stay one unit away from the axis: e_r and e_phi are singular there, and finite differences
    # of a converted field with a non-vanishing angular/radial component on the axis do not converge
    cart = gen_cart_box(rng, spec, 1.6, [5, 6] if d == 3 else [6, 8], tries=3000, rho_min=1.0, max_dx=0.3)
    if cart is None:
        return None
    Xi = np.moveaxis(interior(np.moveaxis(cart_centres(cart), -1, 0), d), 0, -1)

    def draw():
        if kind == "div":
            comps = []
            cz = c8(8, 16)
            for name in order:
                if name == "r":
                    c = {"": c8(), "r": c8(4, 12), "rr": c8(1, 3)}
                    if cls == "cylindrical":
                        c["z"] = c8(1, 4)
                elif name == "z":
                    c = {"": c8(), "z": cz, "r": c8(1, 4)}
                elif name == "φ":
                    c = {"": c8(), "r": c8(1, 6)}
                    if cls == "cylindrical":
                        c["z"] = rng.choice([0.0, c8(8, 16)])
                else:                      # spherical theta component must vanish for the divergence operator
                    c = {"": 0.0}
                comps.append(c)
            return {"leg": "commute", "kind": kind, "spec": spec, "cart": cart, "comps": comps,
                    "route": rng.choice(["expr", "data"]), "mode": mode}
        scalar = {"": c8(), "r": c8(1, 4), "rr": c8(2, 6)}
        if cls == "cylindrical":
            scalar["z"] = c8(8, 16)
            scalar["rz"] = c8(1, 2)
        return {"leg": "commute", "kind": kind, "spec": spec, "cart": cart, "scalar": scalar, "mode": mode}
    # the coefficients are redrawn (at most 25 times, the best draw is kept) until every wrong reading of the
    # component order would change the continuum result by more than 3 x the tolerance of the comparison
    best, best_q = None, -1.0
    for _ in range(25):
        case = draw()
        ref = commute_reference(case, Xi)
        quality = ref["separation"] / ref["tol"]
        if quality > best_q:
            best, best_q = case, quality
        if quality > 3:
            break
    return best


MODE_ENV = {"S": {"NUMBA_DISABLE_JIT": "1"},
            "J": {"NUMBA_DISABLE_JIT": "0", "NUMBA_NUM_THREADS": "2", "OMP_NUM_THREADS": "1"}}


def gen_with_retry(ctx, what, gen, *args):
    """the box generators use rejection sampling and may find no Cartesian box inside a (narrow) grid: draw
    another grid then; every retry and every case finally given up is recorded in the evidence"""
    for attempt in range(12):
        c = gen(*args)
        if c is not None:
            ctx.hist("generator", f"{what}: box found" + (" after retries" if attempt else ""))
            return c
        ctx.hist("generator", f"{what}: no box in this grid, another grid drawn")
    ctx.hist("generator", f"{what}: GIVEN UP (case dropped)")
    ctx.note(f"generator: no Cartesian box found for a {what} case after 12 grids - case dropped")
    return None


def leg_subprocess(ctx, P, rng, n_convert, n_commute, n_jit):
    from harness.common.isolated import run_many
    classes = ["polar", "spherical", "cylindrical", "cylindrical"]
    conv = [c for c in (gen_with_retry(ctx, "convert", gen_convert_case, rng, classes[i % 4], "S")
                        for i in range(n_convert)) if c]
    kinds = ["div", "grad", "div", "grad", "op-order"]
    comm = [c for c in (gen_with_retry(ctx, "commute/" + kinds[i % 5], gen_commute_case, rng, classes[i % 4], "S",
                                       kinds[i % 5]) for i in range(n_commute)) if c]
    # regression anchors: the uniform axial field with and without hole
    for hole in (False, True):
        spec = {"cls": "cylindrical", "radius": [1.0, 3.0] if hole else 3.0, "bounds_z": [0.0, 4.0],
                "shape": [8, 8], "periodic_z": False}
        conv.append({"leg": "convert", "spec": spec, "kind": "unit:z", "route": "data", "mode": "S",
                     "cart": {"cls": "cartesian", "bounds": [[1.2, 2.0], [0.8, 1.6], [0.5, 3.5]], "shape": [2, 2, 3]},
                     "comps": [{"": 0.0}, {"": 1.0}, {"": 0.0}]})
    prods = []
    for i in range(max(4, n_commute // 6)):
        cls = ["polar", "spherical", "cylindrical", "cartesian", "unit"][i % 5]
        spec = gen_curv_grid(rng, cls, 1, 6) if cls in OP_ORDER else gen_cart_grid(rng, unit=(cls == "unit"))
        prods.append({"leg": "products", "spec": spec, "data_seed": rng.randrange(2 ** 31), "mode": "S"})
    # the compiled subset is stratified: conversions, divergence, gradient and operator probes (incl. the
    # compiled vector gradient / vector Laplacian / tensor divergence, 1-3 s per grid) occur in it for every seed
    jit = []
    pools = [conv, [c for c in comm if c["kind"] == "div"], conv, [c for c in comm if c["kind"] == "grad"],
             conv, [c for c in comm if c["kind"] == "op-order"]]
    for i in range(n_jit):
        src = pools[i % 6] or conv
        c = dict(src[rng.randrange(len(src))], mode="J")
        jit.append(c)
    comm = comm + prods
    # the compiled dot/outer operators (about 30 s of compilation each): one grid in the quick tier, spread over
    # the worker processes
    # the compiled dot/outer operators run in their own processes
    n_pj = 0 if not n_jit else (2 if n_jit <= 8 else 4)
    # (compilation time grows steeply with the number of grid axes: 30 s for 1-2 axes, minutes for 3, so the
    # compiled runs use the curvilinear grids, which cover dim = 2 and 3, plus one 3-axes grid in thorough)
    small = [c for c in prods if c["spec"]["cls"] in OP_ORDER]
    by_cls = {c: [x for x in small if x["spec"]["cls"] == c] for c in OP_ORDER}
    pick = ["polar", rng.choice(["spherical", "cylindrical"]), "cylindrical", "spherical"]   # dim 2 and dim 3
    pj = [dict(rng.choice(by_cls[pick[i]]), mode="J") for i in range(n_pj)]
    if n_pj > 2:
        pj.append(dict([c for c in prods if c["spec"]["cls"] not in OP_ORDER][0], mode="J", ops=["tv", "vt"]))
    # source semantics (10 processes) and JIT (6 processes) side by side
    import os
    import threading
    import time
    t0 = time.time()
    box = {}
    base = os.environ.get("VERIF_WORKDIR") or "."

    tdone = {}

    def go(name, cases, env, procs):
        try:
            try:
                box[name] = _go(name, cases, env, procs)
            finally:
                tdone[name] = round(time.time() - t0, 1)
        except BaseException as e:  # re-raised in the main thread
            box[name] = e

    def _go(name, cases, env, procs):
        if True:
            return run_many("harness.c19", "sub_worker", cases, env=env, procs=procs,
                            workdir=os.path.join(base, "iso_" + name)) if cases else []
    th = [threading.Thread(target=go, args=("S", conv + comm, MODE_ENV["S"], 8 if jit else 16)),
          threading.Thread(target=go, args=("J", jit, MODE_ENV["J"], 6)),
          threading.Thread(target=go, args=("PJ", pj, MODE_ENV["J"], 2))]
    for t in th:
        t.start()
    for t in th:
        t.join()
    if hasattr(ctx, "extra"):
        ctx.extra["timing_subprocess_s"] = dict(tdone)
    for v in box.values():
        if isinstance(v, BaseException):
            raise v
    res_s, res_j = box["S"], list(box["J"]) + list(box["PJ"])
    jit = jit + pj
    if hasattr(ctx, "extra"):
        ctx.extra["worker_seconds"] = {
            mode: [round(o["_seconds"], 1) for c, o in zip(conv + comm + jit, list(res_s) + list(res_j))
                   if c["mode"] == mode and isinstance(o, dict)][:60] for mode in ("J",)}
    for case, out in zip(conv + comm + jit, list(res_s) + list(res_j)):
        if case["leg"] == "convert":
            convert_eval(ctx, P, case, out)
        elif case["leg"] == "products":
            products_eval(ctx, case, out)
        else:
            commute_eval(ctx, case, out)


def products_data(spec, seed):
    g = build(spec)
    d = g.dim
    rs = np.random.RandomState(seed)
    mk = lambda *lead: rs.randint(-16, 17, size=lead + tuple(g.shape)) / 4.0
    return g, d, mk(d), mk(d), mk(d, d), mk(d, d)


def products_worker(case):
    """the numba operator factories for dot and outer products (compiled in mode J)"""
    import pde
    g, d, u, x, T, S = products_data(case["spec"], case["data_seed"])
    uf, Tf = pde.VectorField(g, u), pde.Tensor2Field(g, T)
    dv = uf.make_dot_operator(backend="numba")
    dt = Tf.make_dot_operator(backend="numba")
    op = uf.make_outer_prod_operator(backend="numba")
    # (the compiled dot operator cannot be called with an `out` array on this tree: the overload's
    # `out`-branch refers to shapes defined in the other branch - an exception, outside C19, see notes)
    calls = {"vv": lambda: dv(u, x), "vt": lambda: dv(u, T), "tv": lambda: dt(T, x), "tt": lambda: dt(T, S),
             "outer": lambda: op(u, x)}
    return {k: np.asarray(f()) for k, f in calls.items() if not case.get("ops") or k in case["ops"]}


def products_eval(ctx, case, out):
    spec = case["spec"]
    if isinstance(out, str):
        ctx.monitor_fail("products", case, out[-600:], "products", "products: exception in py-pde",
                         key=other_key(spec, "make_dot_operator(numba)", "exception"))
        return
    g, d, u, x, T, S = products_data(spec, case["data_seed"])
    ctx.count(case, nontrivial=True, leg="products")
    ctx.hist("products", f"{spec['cls']}/{case['mode']}")
    ctx.monitor_evals += 1
    ctx.impl_traces += 1
    mon = {"vv": sum(u[i] * x[i] for i in range(d)),
           "vt": np.array([sum(u[i] * T[i, j] for i in range(d)) for j in range(d)]),
           "tv": np.array([sum(T[i, j] * x[j] for j in range(d)) for i in range(d)]),
           "tt": np.array([[sum(T[i, k] * S[k, j] for k in range(d)) for j in range(d)] for i in range(d)]),
           "outer": np.array([[u[i] * x[j] for j in range(d)] for i in range(d)])}
    for k, v in mon.items():
        if k not in out:
            continue
        if np.shape(out[k]) != np.shape(v) or not np.array_equal(out[k], v):
            ctx.monitor_fail("products", dict(case, product=k), "differs from the explicit sum",
                             "explicit sum over the contracted index",
                             "numba dot/outer operator contracts adjacent indices",
                             key=other_key(spec, "make_dot_operator / make_outer_prod_operator (numba)",
                                           "wrong index contracted"))


def sub_worker(case):
    import time
    t = time.time()
    if case["leg"] == "products":
        out = products_worker(case)
    else:
        out = convert_worker(case) if case["leg"] == "convert" else commute_worker(case)
    out["_seconds"] = time.time() - t
    return out


def run(ctx):
    import time
    P = Pending(ctx)
    rng = ctx.rng
    timing = {}

    def timed(name, f, *a):
        t = time.time()
        f(*a)
        timing[name] = round(time.time() - t, 1)
    timed("coordsys", leg_coordsys, ctx, P, rng, ctx.budget(300, 20000))
    timed("vtc", leg_vtc, ctx, P, rng, ctx.budget(300, 30000))
    timed("order", leg_order, ctx, P, rng, ctx.budget(40, 400))
    timed("fields", leg_fields, ctx, P, rng, ctx.budget(60, 2000))
    timed("subprocess legs (convert, commute, products; S and J)", leg_subprocess, ctx, P, rng,
          ctx.budget(160, 12000), ctx.budget(240, 3000), ctx.budget(6, 96))
    timed("model driver", P.run)
    ctx.extra["timing_s"] = timing


# ------------------------------------------------------------------------------------------
EXTRA_CASE_KEYS = ("point", "name", "names", "product", "component", "route_order", "probe")
IN_PROCESS_LEGS = ("coordsys", "vtc", "order", "fields", "vtc-malformed")
SUBPROCESS_LEGS = ("convert", "commute", "products")


def run_case(col, P, case):
    """re-run one recorded case of any leg on the real code - same leg, same inputs, same execution mode
    (subprocess legs: source semantics 'S' = NUMBA_DISABLE_JIT=1 or compiled 'J', as recorded in the case) -
    with the monitors reporting into `col`.  Raises ValueError for a case that cannot be re-run."""
    from harness.common.isolated import run_one
    leg = case.get("leg")
    case = {k: v for k, v in case.items() if k not in EXTRA_CASE_KEYS}
    if leg == "coordsys":
        coordsys_case(col, P, case)
    elif leg == "vtc":
        vtc_case(col, P, case)
    elif leg == "order":
        order_case(col, P, case)
    elif leg == "fields":
        fields_case_guarded(col, P, case)
    elif leg == "vtc-malformed":
        vtc_malformed_case(col, P, case)
    elif leg in SUBPROCESS_LEGS:
        mode = case.get("mode")
        if mode not in MODE_ENV:
            raise ValueError(f"case of leg {leg} without a recorded execution mode")
        out = run_one("harness.c19", "sub_worker", case, env=MODE_ENV[mode])
        if leg == "convert":
            convert_eval(col, P, case, out)
        elif leg == "products":
            products_eval(col, case, out)
        else:
            commute_eval(col, case, out)
    else:
        raise ValueError(f"unknown leg {leg!r}")


def search(ctx, broken):
    """failing-input search after a broken tie: the monitors on the disagreeing cases and on a fresh,
    larger sample of every generator (monitors only, no model)"""
    col = Collector()
    P = NoModel()
    for d in broken:
        c = d.get("case") if isinstance(d, dict) else None
        if isinstance(c, dict) and "leg" in c:
            try:
                run_case(col, P, c)
            except Exception:
                pass
    rng = ctx.sub_rng("search")
    leg_coordsys(col, P, rng, 900)
    leg_vtc(col, P, rng, 900)
    leg_order(col, P, rng, 60)
    leg_fields(col, P, rng, 120)
    leg_subprocess(col, P, rng, 240, 90, 0)
    return col.monitor_failures


def replay(ctx, rep):
    """re-run the recorded case and judge the recorded symptom: False iff it still fails.
    A failing-input file records leg, what, case, key; the failure counts as reproduced if the re-run yields a
    monitor failure with the same key (files written by the search carry no key: then the same `what`; with
    neither, any failure that is not a known finding).  Other failures of the same case (a cylindrical case
    also shows the known finding) are printed but not counted.  A file that cannot be re-run (no case, unknown
    leg, no execution mode) is reported as such and does NOT pass."""
    from harness.common import findings
    if not isinstance(rep, dict):
        print("cannot replay: not a replay record - not a pass")
        return False
    if rep.get("kind") == "no-failing-input-found" or "broken" in rep or "correspondence" in rep:
        return replay_tie(ctx, rep)
    case = rep.get("case")
    if not isinstance(case, dict) or "leg" not in case:
        print("cannot replay: the file records no case of a C19 leg (nothing was re-run) - not a pass")
        return False
    col = Collector()
    try:
        run_case(col, NoModel(), case)
    except ValueError as e:
        print(f"cannot replay: {e} - not a pass")
        return False
    known = findings.load()
    want_key, want_what = rep.get("key") or None, rep.get("what")
    if want_key:
        same = lambda mf: mf["key"] == want_key
        crit = f"key {want_key}"
    elif want_what:
        same = lambda mf: mf["what"] == want_what and findings.match(PID, mf["key"], known) is None
        crit = f"symptom {want_what!r}"
    else:
        same = lambda mf: findings.match(PID, mf["key"], known) is None
        crit = "any failure that is not a known finding"
    hits = [mf for mf in col.monitor_failures if same(mf)]
    other = [mf for mf in col.monitor_failures if not same(mf)]
    print(f"replayed leg {case['leg']}" + (f" in mode {case.get('mode')}" if case.get("leg") in SUBPROCESS_LEGS else "")
          + f"; judged by {crit}")
    if other:
        print(f"({len(other)} other monitor failures of this case, e.g. key {other[0]['key']}, not counted)")
    for mf in hits[:5]:
        print("monitor failure:", mf["what"])
        print("  observed:", str(mf["observed"])[:400])
        print("  expected:", str(mf["expected"])[:400])
        print("  key:", mf["key"])
    if not hits:
        print("monitor: the recorded symptom does not occur")
    return not hits


def replay_tie(ctx, rep):
    """replay of a broken-tie record (no failing input of the property was found): the recorded cases are
    re-run on the real code AND on the model; False iff model and code still disagree on one of them (or a
    monitor failure that is not a known finding shows up); cases that cannot be re-run do not pass"""
    from harness.common import findings
    from harness.common.lean import BrokenCheck
    entries = rep.get("broken") if isinstance(rep.get("broken"), list) else [rep]
    cases = [b.get("case") for b in entries if isinstance(b, dict)]
    cases = [c for c in cases if isinstance(c, dict) and c.get("leg") in IN_PROCESS_LEGS + SUBPROCESS_LEGS]
    if not cases:
        print("cannot replay: the record holds no case of a C19 leg (e.g. a proof obligation that no longer "
              "builds: run ./check C19) - not a pass")
        return False
    col = Collector()
    P = Pending(ctx)
    ok = True
    for c in cases:
        try:
            run_case(col, P, c)
        except ValueError as e:
            print(f"case could not be re-run: {e}")
            ok = False
    try:
        P.run()
    except BrokenCheck as e:
        print(f"cannot replay: the model driver did not run ({str(e)[:200]}); build it with ./check C19 - not a pass")
        return False
    known = findings.load()
    mfs = [mf for mf in col.monitor_failures if findings.match(PID, mf["key"], known) is None]
    print(f"re-ran {len(cases)} recorded case(s) on the real code and the model: "
          f"{len(col.disagreements)} disagreement(s), {len(mfs)} monitor failure(s) outside the known findings")
    for d in col.disagreements[:5]:
        print("model != code:", d["note"])
        print("  model:", str(d["model"])[:300])
        print("  code: ", str(d["impl"])[:300])
    for mf in mfs[:5]:
        print("monitor failure:", mf["what"], "key:", mf["key"])
    return ok and not col.disagreements and not mfs
